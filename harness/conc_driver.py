"""Shared driver for the interleaving scenarios (C02, C05, C06, C10, C03, C11): a real app with a
transition log, quiet side channels, and actor bodies (poller, polling runner, worker, reader)."""
from __future__ import annotations

import threading

from harness import sched as S
from harness import tasks_conc, world


class World:
    def __init__(self, kind: str, scratch: str, *, history: str = "off", triggers: bool = False,
                 line_level: bool = False, task_options: dict | None = None, **conf):
        """history: 'off' (no history writes), 'sync' (written inline), 'async' (pynenc's own threads)."""
        self.kind = kind
        if kind == "sqlite":
            S.instrument_sqlite()
        elif line_level:
            import pynenc.orchestrator.mem_orchestrator as mo
            S.shim_threading(mo)
        self.app = world.make_app(kind, scratch, **conf)
        self.tasks = {}
        self.tlog: list[tuple] = []        # (inv, status, requester, ok, new_owner | error class)
        self.body_log = tasks_conc.BODY_LOG
        self.body_log.clear()
        app, orch, sb = self.app, self.app.orchestrator, self.app.state_backend
        real = orch._atomic_status_transition
        lock = threading.Lock()
        self._seq: dict[int, int] = {}       # position in tlog -> commit sequence number (in-memory backend)
        tl = threading.local()
        if kind == "mem" and hasattr(orch, "_interanl_atomic_status_transition"):
            # the in-memory write happens inside the per-invocation lock: number the writes there, so that the order of
            # the log is the commit order even when the caller is pre-empted between the write and its return
            import itertools
            counter = itertools.count()
            inner = orch._interanl_atomic_status_transition

            def numbered(*a, **k):
                r = inner(*a, **k)
                tl.seq = next(counter)
                return r
            orch._interanl_atomic_status_transition = numbered

        def logged(invocation_id, status, runner_id=None):
            tl.seq = None
            try:
                rec = real(invocation_id, status, runner_id)
            except BaseException as ex:  # noqa: BLE001
                with lock:
                    self.tlog.append((invocation_id, status.name, runner_id, False, type(ex).__name__))
                raise
            with lock:
                if getattr(tl, "seq", None) is not None:
                    self._seq[len(self.tlog)] = tl.seq
                self.tlog.append((invocation_id, status.name, runner_id, True, rec.runner_id))
            return rec
        orch._atomic_status_transition = logged
        if history == "off":
            sb.add_history = lambda *a, **k: None
            sb.add_histories = lambda *a, **k: None
        elif history == "sync":
            def add_history(invocation_id, status_record, runner_context):
                from pynenc.state_backend.base_state_backend import InvocationHistory
                sb.store_runner_context(runner_context)
                sb._add_histories([invocation_id], InvocationHistory(invocation_id=invocation_id, status_record=status_record,
                                                                      runner_context_id=runner_context.runner_id))
            sb.add_history = add_history
        if not triggers:
            tr = app.trigger
            for name in ("report_tasks_status", "report_invocation_result", "report_invocation_failure"):
                setattr(tr, name, lambda *a, **k: None)

    def task(self, func, **options):
        key = (func.__name__, tuple(sorted(options.items(), key=str)))
        if key not in self.tasks:
            self.tasks[key] = self.app.task(func, **options) if options else self.app.task(func)
        return self.tasks[key]

    # ---- observations
    def status(self, inv_id):
        r = self.app.orchestrator.get_invocation_status_record(inv_id)
        return (r.status.name, r.runner_id)

    def queue(self) -> list[str]:
        b = self.app.broker
        if self.kind == "mem":
            return [str(x) for x in b._queue]
        from pynenc.util.sqlite_utils import create_sqlite_connection
        with create_sqlite_connection(b.sqlite_db_path) as conn:
            return [x[0] for x in conn.execute(f"SELECT invocation_id FROM {b.tables.QUEUE} ORDER BY created_at, id").fetchall()]

    def successes(self, inv_id) -> list[tuple]:
        rows = [(self._seq.get(pos, pos), pos, s, req, own) for pos, (i, s, req, ok, own) in enumerate(self.tlog) if i == inv_id and ok]
        if all(pos in self._seq for (_, pos, _, _, _) in rows):
            rows.sort()                      # commit order
        return [(s, req, own) for (_, _, s, req, own) in rows]

    # ---- actor bodies
    def poller(self, runner_id: str, n: int, out: list):
        ctx = world.runner_ctx(runner_id)

        def f():
            for inv in self.app.orchestrator.get_invocations_to_run(n, ctx):
                out.append(inv.invocation_id)
        return f

    def polling_runner(self, runner_id: str, n: int, out: list, rounds: int = 1):
        """claims up to n invocations and runs each inline (a one-slot runner without threads)"""
        ctx = world.runner_ctx(runner_id)

        def f():
            for _ in range(rounds):
                for inv in self.app.orchestrator.get_invocations_to_run(n, ctx):
                    out.append(inv.invocation_id)
                    try:
                        inv.run(ctx)
                    except Exception:  # noqa: BLE001 - the body's own exception (recorded as FAILED)
                        pass
        return f

    def worker(self, inv, runner_id: str):
        ctx = world.runner_ctx(runner_id)

        def f():
            try:
                inv.run(ctx)
            except Exception:  # noqa: BLE001
                pass
        return f


def doc_edges(ctx):
    """the documented edge list, straight from the Coq specification"""
    from harness.translate.status_table import STATUSES
    edges = ctx.coq_eval(["Model.Status"], ["map (fun e => (status_code (fst e), status_code (snd e))) doc_edges"])[0]
    return {(STATUSES[a], STATUSES[b]) for a, b in edges}


OWNED = {"PENDING", "RUNNING", "PAUSED", "RESUMED"}


def check_lifecycle(succ: list[tuple], edges) -> str | None:
    """succ = [(status, requester, new_owner)] of one invocation in commit order"""
    prev = None
    owner = None
    for (s, req, own) in succ:
        if prev is None:
            if s != "REGISTERED":
                # registration is not logged through the transition wrapper: first logged change follows REGISTERED
                if ("REGISTERED", s) not in edges:
                    return f"first change {s} does not follow REGISTERED"
        elif (prev, s) not in edges:
            return f"{prev} -> {s} is not a documented edge"
        if prev in OWNED and not s.endswith("_RECOVERY") and req != owner:
            return f"{prev} owned by {owner} was moved to {s} by {req}"
        if prev == "PENDING" and s == "PENDING":
            return "claimed twice without a release"
        prev, owner = s, own
    return None

"""Module-level functions / classes used by the C15 check (tasks are created per app with
`app.task(func)`; classes must be importable so that the serializers can reconstruct them)."""
from __future__ import annotations

import enum
from dataclasses import dataclass


# ---- signatures: positional-or-keyword and keyword-only parameters, with and without defaults
def f0():
    return None


def f1(a):
    return a


def f2(a, b=7):
    return (a, b)


def f3(a, b=7, *, c, d=9):
    return (a, b, c, d)


def f4(a=1, b=2, c=3, d=4):
    return (a, b, c, d)


def f5(*, x, y=5):
    return (x, y)


def g2(a, b=7):          # same signature as f2, different task
    return (b, a)


SIGNATURES = [f0, f1, f2, f3, f4, f5]


def ident(x):
    return x


def two(x, y=None):
    return (x, y)


# ---- values of the serializers' domains
class Color(enum.Enum):
    RED = "red"
    BLUE = 2


class Level(enum.IntEnum):
    LOW = 1
    HIGH = 9


class Mode(enum.StrEnum):
    FAST = "fast"
    SLOW = "slow"


class AppError(Exception):
    """a client (non-builtin) exception"""


class Money:
    """JsonSerializable: to_json / from_json"""

    def __init__(self, amount, currency):
        self.amount = amount
        self.currency = currency

    def to_json(self):
        return {"amount": self.amount, "currency": self.currency}

    @classmethod
    def from_json(cls, data):
        return cls(data["amount"], data["currency"])

    def __eq__(self, other):
        return isinstance(other, Money) and (self.amount, self.currency) == (other.amount, other.currency)

    def __hash__(self):
        return hash((self.amount, self.currency))

    def __repr__(self):
        return f"Money({self.amount!r}, {self.currency!r})"


@dataclass
class Point:
    """pickle / jsonpickle only"""
    x: int
    y: float

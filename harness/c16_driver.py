"""C16 implementation-side driver: one real pynenc app (in-memory or SQLite components) driven through the
PUBLIC operations of orchestrator / broker / state backend by small JSON-able op tuples, with a full
read-out of the observable state after every operation.  Time is the harness' VirtualClock on a grid of
1/64 s (exact in binary floating point, exact through datetime's microseconds and SQLite REAL).

Universes (small on purpose; the theorems are unbounded):
  invocations 0..5   slot k = a fixed DistributedInvocation object per app (slot 5 is never stored anywhere
                     unless an op registers it; slots 0 and 2 share one call)
  tasks 0..1         0 = tasks_basic.pair(a, b), 1 = tasks_basic.add_one(x)
  runners            r1 r2 r3 (+ 'ext' = the client's own external runner context)
  workflows 0..1     identities of slots 0 and 3 (each invocation without a parent is its own workflow)
"""
from __future__ import annotations

from datetime import UTC, datetime

from harness import world

UNIT = 1.0 / 64.0            # seconds per model time unit
T0 = 1_700_000_000.0
NSLOT = 6
SLOT_DESC = [  # (task index, kwargs)
    (0, {"a": 1, "b": 1}), (0, {"a": 1, "b": 2}), (0, {"a": 1, "b": 1}),
    (1, {"x": 1}), (0, {"a": 2, "b": 1}), (1, {"x": 2}),
]
RUNNERS = ["r1", "r2", "r3"]
PURGE_UNITS = 225            # auto purge after 225/64 s  (hours = 2**-10, hours*3600 = 3.515625 exactly)
PENDING_UNITS = 320          # max_pending_seconds = 5.0
DEAD_UNITS = 960             # runner_considered_dead_after_minutes = 0.25 -> 15 s
STATUSES = ["REGISTERED", "CONCURRENCY_CONTROLLED", "CONCURRENCY_CONTROLLED_FINAL", "REROUTED", "PENDING",
            "PENDING_RECOVERY", "RUNNING", "RUNNING_RECOVERY", "PAUSED", "RESUMED", "KILLED", "SUCCESS", "FAILED",
            "RETRY"]


def units(t: float) -> int:
    """seconds since T0 on the 1/64 grid -> integer units (exactness is asserted)"""
    u = (t - T0) / UNIT
    if u != int(u):
        raise AssertionError(f"time {t!r} is off the 1/64 s grid")
    return int(u)


def err_class(ex: BaseException) -> str:
    from pynenc.exceptions import (InvocationNotFoundError, InvocationStatusOwnershipError,
                                   InvocationStatusTransitionError)
    if isinstance(ex, InvocationStatusTransitionError):
        return "E:transition"
    if isinstance(ex, InvocationStatusOwnershipError):
        return "E:ownership"
    if isinstance(ex, KeyError):
        return "E:key"
    if isinstance(ex, InvocationNotFoundError):
        return "E:notfound"
    return "E:other:" + type(ex).__name__


class _Handle:
    """what one `sqlite_conn(path)` call of pynenc gets: a view on the cached connection that knows whether it was
    requested while another user of the same file was inside its `with` block (= a SECOND connection in reality)"""
    WRITE = ("INSERT", "UPDATE", "DELETE", "REPLACE", "CREATE", "DROP", "ALTER", "BEGIN IMMEDIATE", "BEGIN EXCLUSIVE")

    def __init__(self, cache, path, conn, nested_in_open_tx):
        self._cache, self._path, self._c, self._nested_tx = cache, path, conn, nested_in_open_tx

    def execute(self, sql, parameters=(), /):
        if self._nested_tx and sql.lstrip().upper().startswith(self.WRITE):
            self._cache.events.append(" ".join(sql.split())[:120])
        return self._c.execute(sql, parameters)

    def __enter__(self):
        self._cache.depth[self._path] = self._cache.depth.get(self._path, 0) + 1
        self._c.__enter__()
        return self

    def __exit__(self, exc_type, exc_val, exc_tb):
        self._cache.depth[self._path] -= 1
        return self._c.__exit__(exc_type, exc_val, exc_tb)

    def __getattr__(self, name):
        return getattr(self._c, name)


class ConnCache:
    """Harness-side shim for pynenc.util.sqlite_utils.create_sqlite_connection as imported by the SQLite
    component modules: one connection per (thread, db path) instead of one per call.  The SQL text, the
    PRAGMAs, BEGIN IMMEDIATE / commit / rollback-on-exception behaviour are pynenc's own (the real factory
    builds the connection; pynenc never closes its connections either).  Only the ~3 ms connect+PRAGMA cost
    per call is saved, which is what makes a full read-out after every operation affordable.
    What sharing one connection would hide is detected instead: a connection requested while another user of
    the same file is inside its `with` block AND that outer user has an open write transaction, followed by a
    write through the inner one.  On real separate connections the inner write blocks on the outer lock until
    the 30 s busy timeout and fails with 'database is locked'; here it is recorded in `events` (no waiting)."""
    MODULES = ("pynenc.orchestrator.sqlite_orchestrator", "pynenc.broker.sqlite_broker",
               "pynenc.state_backend.sqlite_state_backend", "pynenc.trigger.sqlite_trigger",
               "pynenc.client_data_store.sqlite_client_data_store")

    def __init__(self):
        import threading
        self.local = threading.local()
        self.saved = []
        self.main = threading.get_ident()
        self.depth: dict = {}          # main thread only: users currently inside `with` per db file
        self.events: list = []         # nested writes inside somebody else's open write transaction

    def get(self, path):
        import threading
        from pynenc.util import sqlite_utils
        if threading.get_ident() != self.main:          # history writer threads: pynenc's own behaviour
            return sqlite_utils.create_sqlite_connection(path)
        d = self.local.__dict__.setdefault("conns", {})
        key = str(path)
        c = d.get(key)
        if c is None:
            c = d[key] = sqlite_utils.create_sqlite_connection(path)
        nested_tx = self.depth.get(key, 0) > 0 and bool(c.in_transaction)
        return _Handle(self, key, c, nested_tx)

    def pop_events(self):
        ev, self.events = self.events, []
        return ev

    def install(self):
        import importlib
        for name in self.MODULES:
            try:
                mod = importlib.import_module(name)
            except Exception:  # noqa: BLE001
                continue
            for attr in ("sqlite_conn", "create_sqlite_connection"):
                if hasattr(mod, attr):
                    self.saved.append((mod, attr, getattr(mod, attr)))
                    setattr(mod, attr, self.get)
        return self

    def drop(self):
        for c in self.local.__dict__.get("conns", {}).values():
            try:
                c.close()
            except Exception:  # noqa: BLE001
                pass
        self.local.__dict__["conns"] = {}
        self.depth = {}

    def uninstall(self):
        self.drop()
        for mod, attr, val in reversed(self.saved):
            setattr(mod, attr, val)
        self.saved.clear()


class HistClock:
    """The instant an InvocationHistory entry carries (base_state_backend: datetime.now) under harness control:
    the virtual time plus one microsecond per state-changing operation since the last tick.  Entries written by ONE
    operation (register_new_invocations of several invocations) share one timestamp - exactly equal timestamps are what
    the time-range iterators' batch boundaries have to survive - while different operations never collide (the SQLite
    history key is (invocation, timestamp, status))."""

    def __init__(self, clock):
        self.clock, self.k, self.saved = clock, 0, None

    def install(self):
        import datetime as _dt
        import pynenc.state_backend.base_state_backend as bsb
        real, me = _dt.datetime, self

        class HDatetime(real):  # type: ignore[misc,valid-type]
            @classmethod
            def now(cls, tz=None):
                return real.fromtimestamp(me.clock.now, tz) + _dt.timedelta(microseconds=me.k)

        self.saved = (bsb, bsb.datetime)
        bsb.datetime = HDatetime
        return self

    def uninstall(self):
        if self.saved:
            self.saved[0].datetime = self.saved[1]
            self.saved = None


class Impl:
    """one real app per backend kind for the whole run; `reset()` gives every case brand-new component
    objects (and, for SQLite, a brand-new database file)"""

    def __init__(self, kind: str, scratch: str, clock, hclock=None):
        from harness import tasks_basic
        self.hclock = hclock
        from pynenc.arguments import Arguments
        from pynenc.call import Call
        from pynenc.invocation.dist_invocation import DistributedInvocation
        self.kind, self.clock, self.scratch = kind, clock, scratch
        self.app = world.make_app(kind, scratch, max_pending_seconds=PENDING_UNITS * UNIT,
                                  runner_considered_dead_after_minutes=DEAD_UNITS * UNIT / 60.0,
                                  auto_final_invocation_purge_hours=2.0 ** -10)
        self.n_reset = 0
        self.tasks = [tasks_basic.bind(self.app, tasks_basic.pair), tasks_basic.bind(self.app, tasks_basic.add_one)]
        self.invs = [DistributedInvocation.from_parent(Call(self.tasks[t], Arguments(dict(kw))), None)
                     for t, kw in SLOT_DESC]
        self.ids = [i.invocation_id for i in self.invs]
        self.slot_of = {x: k for k, x in enumerate(self.ids)}
        self.calls = []            # distinct call ids in slot order
        for i in self.invs:
            if i.call.call_id not in self.calls:
                self.calls.append(i.call.call_id)
        self.reset()
        assert self.orch.conf.auto_final_invocation_purge_hours * 3600 == PURGE_UNITS * UNIT
        assert self.app.conf.runner_considered_dead_after_minutes * 60 == DEAD_UNITS * UNIT
        assert self.app.conf.max_pending_seconds == PENDING_UNITS * UNIT

    def reset(self):
        import os
        app = self.app
        self.n_reset += 1
        self.clock.now = T0
        if self.hclock:
            self.hclock.k = 0
        if self.kind == "sqlite":
            app.config_values["sqlite_db_path"] = os.path.join(self.scratch, f"c16_{self.n_reset}.db")
        app._orchestrator = app._broker = app._state_backend = app._trigger = app._client_data_store = None
        for comp in ("conf",):
            pass
        # components are created lazily with an unlocked check-then-create: touch them once, up front
        self.orch, self.broker, self.sb = app.orchestrator, app.broker, app.state_backend
        self.trig, self.cds = app.trigger, app.client_data_store
        if self.kind == "sqlite":
            assert self.orch.sqlite_db_path.endswith(f"c16_{self.n_reset}.db"), self.orch.sqlite_db_path
            assert self.sb.sqlite_db_path == self.orch.sqlite_db_path == self.broker.sqlite_db_path

    # ------------------------------------------------------------------ helpers
    def rcode(self, rid):
        if rid is None:
            return 0
        if rid in RUNNERS:
            return RUNNERS.index(rid) + 1
        return 9                                   # the client's external runner context

    def slots(self, it):
        out = []
        for x in it:
            out.append(self.slot_of.get(x, 99))
        return out

    def sts(self, names):
        from pynenc.invocation.status import InvocationStatus
        return [InvocationStatus[n] for n in names]

    def flush(self):
        self.sb.wait_for_all_async_operations()
        self.sb.invocation_threads.clear()

    def call(self, fn):
        try:
            return fn()
        except Exception as ex:  # noqa: BLE001 - mapped to an enum, compared between the backends
            return err_class(ex)

    # ------------------------------------------------------------------ operations
    # every answer is rendered like Model/BackendOps.v:render  (nested lists of integers):
    #   [[0]] ok | [[1,c]] error class c (1 transition, 2 ownership, 3 KeyError, 4 not found, 9 other)
    #   [[2,n]] number | [[3]] / [[3,n]] optional | [[4],ids] | [[5],timestamps] | [[6,st,owner,ts]] | [[7],row,...]
    ERR = {"E:transition": 1, "E:ownership": 2, "E:key": 3, "E:notfound": 4}

    def do(self, op):
        if self.hclock and not op[0].startswith("q_"):
            self.hclock.k = 0 if (op[0] == "tick" and op[1] > 0) else self.hclock.k + 1
        try:
            return self._do(op)
        except Exception as ex:  # noqa: BLE001 - mapped to an enum, compared between backends and models
            return [[1, self.ERR.get(err_class(ex), 9)]]

    def _do(self, op):
        from pynenc.invocation.status import InvocationStatus
        k = op[0]
        o, b, sb = self.orch, self.broker, self.sb
        ok = [[0]]
        if k == "tick":
            self.clock.advance(op[1] * UNIT)
            return ok
        if k == "reg":
            o.register_new_invocations([self.invs[i] for i in op[1]])
            return ok
        if k == "set":
            o.set_invocation_status(self.ids[op[1]], InvocationStatus[op[2]], world.runner_ctx(op[3]))
            return ok
        if k == "idx":
            o.index_arguments_for_concurrency_control(self.invs[op[1]])
            return ok
        if k == "incr":
            o.increment_invocation_retries(self.ids[op[1]])
            return ok
        if k == "hb":
            o.register_runner_heartbeats(list(op[1]), can_run_atomic_service=bool(op[2]))
            return ok
        if k == "svc":
            t = datetime.fromtimestamp(self.clock.now, tz=UTC)
            o.record_atomic_service_execution(op[1], t, t)
            return ok
        if k == "autopurge":
            o.auto_purge()
            return ok
        if k == "wait":
            o.waiting_for_results(self.ids[op[1]], [self.ids[i] for i in op[2]])
            return ok
        if k == "release":
            o.release_waiters(self.ids[op[1]])
            return ok
        if k == "route":
            b.route_invocation(self.ids[op[1]])
            return ok
        if k == "retrieve":
            r = b.retrieve_invocation()
            return [[3]] if r is None else [[3, self.slot_of.get(r, 99)]]
        if k == "bpurge":
            b.purge()
            return ok
        if k == "opurge":
            o.purge()
            return ok
        if k == "sbpurge":
            sb.purge()
            return ok
        if k == "res":
            sb.set_result(self.ids[op[1]], op[2])
            return ok
        if k == "exc":
            sb.set_exception(self.ids[op[1]], ValueError(f"boom{op[2]}"))
            return ok
        if k == "wf":
            sb.set_workflow_data(self.invs[(0, 3)[op[1] // 10]].workflow, f"k{op[1] % 10}", op[2])
            return ok
        # ---- queries
        if k == "q_rec":
            r = o.get_invocation_status_record(self.ids[op[1]])
            return [[6, STATUSES.index(r.status.name), self.rcode(r.runner_id), units(r.timestamp.timestamp())]]
        if k == "q_retries":
            return [[2, o.get_invocation_retries(self.ids[op[1]])]]
        if k == "q_task":
            return [[4], sorted(self.slots(o.get_task_invocation_ids(self.tasks[op[1]].task_id)))]
        if k == "q_call":
            return [[4], sorted(self.slots(o.get_call_invocation_ids(self.calls[op[1]])))]
        if k == "q_existing":
            kw = {"abx"[kk]: self._ser(vv) for kk, vv in op[2]} or None
            return [[4], sorted(self.slots(o.get_existing_invocations(self.tasks[op[1]], kw, self.sts(op[3]) or None)))]
        if k == "q_page":
            tid = None if op[1] is None else self.tasks[op[1]].task_id
            return [[5], self._page(o.get_invocation_ids_paginated(tid, self.sts(op[2]) or None, op[3], op[4]))]
        if k == "q_count":
            tid = None if op[1] is None else self.tasks[op[1]].task_id
            return [[2, o.count_invocations(tid, self.sts(op[2]) or None)]]
        if k == "q_filter":
            return [[4], sorted(self.slots(o.filter_by_status([self.ids[i] for i in op[1]], frozenset(self.sts(op[2])))))]
        if k == "q_blocking":
            got = self.slots(list(o.get_blocking_invocations(op[1])))
            if len(set(got)) != len(got):
                return [[1, 8]]
            return [[4], sorted(got)]
        if k == "q_pending":
            return [[4], sorted(self.slots(o.get_pending_invocations_for_recovery()))]
        if k == "q_running":
            return [[4], sorted(self.slots(o.get_running_invocations_for_recovery()))]
        if k == "q_active":
            rows = o.get_active_runners(op[1])
            seq = [[units(a.creation_time.timestamp()), self.rcode(a.runner_id), units(a.last_heartbeat.timestamp()),
                    int(a.allow_to_run_atomic_service)] for a in rows]
            if [x[0] for x in seq] != sorted(x[0] for x in seq):
                return [[1, 7]]                      # not ordered by creation time
            return [[7]] + sorted(seq)
        if k == "q_peek":
            return [[4], self.slots(b.peek_invocations(op[1]))]
        if k == "q_qcount":
            return [[2, b.count_invocations()]]
        if k == "q_res":
            return [[2, int(sb.get_result(self.ids[op[1]]))]]
        if k == "q_exc":
            return [[2, int(str(sb.get_exception(self.ids[op[1]]))[4:])]]
        if k == "q_hist":
            return [[7]] + [[STATUSES.index(e.status_record.status.name), self.rcode(e.status_record.runner_id),
                             units(e.status_record.timestamp.timestamp())] for e in sb.get_history(self.ids[op[1]])]
        if k == "q_wf":
            v = sb.get_workflow_data(self.invs[(0, 3)[op[1] // 10]].workflow, f"k{op[1] % 10}", None)
            return [[3]] if v is None else [[3, int(v)]]
        if k == "q_stored":
            sb.get_invocation(self.ids[op[1]])
            return ok
        if k == "q_rctx":
            rid = RUNNERS[op[1] - 1]
            return [[2, len([c for c in sb.get_matching_runner_contexts(rid) if c.runner_id == rid])]]
        if k in ("q_hrange", "q_irange"):
            # window [a, b] in clock units (b inclusive, with every sub-tick microsecond of unit b), batch size op[3]
            import datetime as _dt
            start = datetime.fromtimestamp(T0 + op[1] * UNIT, tz=UTC)
            end = datetime.fromtimestamp(T0 + (op[2] + 1) * UNIT, tz=UTC) - _dt.timedelta(microseconds=1)
            it = sb.iter_history_in_timerange if k == "q_hrange" else sb.iter_invocations_in_timerange
            batches = [list(b) for b in it(start, end, batch_size=op[3])]
            if any(len(b) == 0 or len(b) > op[3] for b in batches) or any(len(b) != op[3] for b in batches[:-1]):
                return [[1, 6]]                     # batch shape: full batches, then one non-empty rest
            flat = [x for b in batches for x in b]
            if k == "q_irange":
                if flat != sorted(flat) or len(set(flat)) != len(flat):
                    return [[1, 7]]                 # documented: ordered by invocation id, each id once
                return [[4], sorted(self.slots(flat))]
            ts = [e.timestamp for e in flat]
            if ts != sorted(ts):
                return [[1, 7]]                     # documented: ordered by timestamp (order among equal ones is open)
            return [[7]] + sorted([self.slot_of.get(e.invocation_id, 99), STATUSES.index(e.status_record.status.name),
                                   self.rcode(e.status_record.runner_id), units(e.status_record.timestamp.timestamp())] for e in flat)
        if k == "q_wfids":                      # implementation-vs-implementation only
            wf = None if op[1] is None else str(self.invs[(0, 3)[op[1]]].workflow.workflow_id)
            return [[4], sorted(self.slots(sb.get_invocation_ids_by_workflow(workflow_id=wf)))]
        if k == "q_children":                   # implementation-vs-implementation only
            return [[4], sorted(self.slots(sb.get_child_invocations(self.ids[op[1]])))]
        if k == "q_svc":                        # implementation-vs-implementation only (not in the models)
            rows = o.get_active_runners(None)
            return [[7]] + sorted([self.rcode(a.runner_id),
                                   -1 if a.last_service_start is None else units(a.last_service_start.timestamp()),
                                   -1 if a.last_service_end is None else units(a.last_service_end.timestamp())] for a in rows)
        raise ValueError(f"unknown op {op!r}")

    def _page(self, ids):
        """a page is ordered by status timestamp, newest first; the order among EQUAL timestamps is left open
        by the contract, so a page is compared as its sequence of timestamps (an id whose timestamp is unique is
        thereby pinned to its position) plus: no duplicates"""
        ids = list(ids)
        if len(set(ids)) != len(ids):
            raise RuntimeError("duplicate id in page")
        return [units(self.orch.get_invocation_status_record(x).timestamp.timestamp()) for x in ids]

    def _ser(self, v):
        return self.app.client_data_store.serialize(v)


NCALL = 5
WFKEYS = [0, 1, 10, 11]


def readout_ops():
    """the full read-out after every operation, as query operations (the models answer the same list)"""
    q = []
    q += [("q_rec", i) for i in range(NSLOT)]
    q += [("q_retries", i) for i in range(NSLOT)]
    q += [("q_task", t) for t in (0, 1)]
    q += [("q_call", c) for c in range(NCALL)]
    q += [("q_count", None, [s]) for s in STATUSES]
    q += [("q_count", None, []), ("q_count", 0, []), ("q_page", None, [], 10, 0), ("q_existing", 0, [(0, 1)], []),
          ("q_existing", 0, [(0, 1), (1, 1)], []), ("q_existing", 0, [(0, 1), (1, 2)], ["REGISTERED", "PENDING", "RUNNING"]),
          ("q_blocking", 10), ("q_pending",), ("q_running",), ("q_active", None), ("q_active", True),
          ("q_peek", 50), ("q_qcount",)]
    q += [("q_res", i) for i in range(NSLOT)]
    q += [("q_exc", i) for i in range(NSLOT)]
    q += [("q_hist", i) for i in range(NSLOT)]
    q += [("q_stored", i) for i in range(NSLOT)]
    q += [("q_wf", k) for k in WFKEYS]
    q += [("q_rctx", r) for r in (1, 2, 3)]
    q += [("q_hrange", 0, 100000, 2), ("q_irange", 0, 100000, 2), ("q_wfids", None)]
    return q

"""Task bodies for C18 (plain module-level functions; turned into pynenc tasks per app image).

`wf_body_a` / `wf_body_b` interpret a small program of deterministic workflow operations through
the REAL `task.wf` helper of the task object the running invocation is bound to:
    r = wf.random()   t = wf.utc_now()   u = wf.uuid()   x<n> = wf.execute_task(child, n)
A harness-owned DIRECTOR (set by harness/props/c18.py) is told about every returned value, is a
yield point before every operation (thread baton) and decides how the attempt ends
(normal return, RetryError, or a simulated runner death).  `wf_child` is the sub-task; when a
schedule runs it, the DIRECTOR says how that run ends."""
from __future__ import annotations

DIRECTOR = None          # set by the harness (in-process) or by the child-process driver


class RunnerDeath(BaseException):
    """Simulated death of the runner in the middle of a task body: not an Exception, so
    DistributedInvocation.run does not record anything and the invocation stays RUNNING."""


def wf_child(n: int) -> int:
    """Sub-task launched through wf.execute_task.  The harness decides how a run of it ends
    (Director.child_outcome: ok / fail / retry / crash) when a schedule lets the child run."""
    d = DIRECTOR
    how = getattr(d, "child_outcome", "ok") if d is not None else "ok"
    if how == "fail":
        raise ValueError(f"harness: child {n} fails")
    if how == "retry":
        from pynenc.exceptions import RetryError
        raise RetryError("harness: child retry requested")
    if how == "crash":
        raise RunnerDeath("harness: runner of the child dies")
    return n


def _interpret(prog: str, tag: str) -> int:
    from pynenc import context

    app = context.get_current_app()
    inv = context.get_dist_invocation_context(app.app_id)
    task = inv.task                       # the image's Task object for this body (app._tasks[...])
    d = DIRECTOR
    h = d.on_start(app, inv, task, tag)
    ops = [o for o in prog.split(",") if o]
    for idx, o in enumerate(ops):
        d.before_op(h, idx)               # yield point; may raise to end the attempt early
        if o == "r":
            v = task.wf.random()
        elif o == "t":
            v = task.wf.utc_now()
        elif o == "u":
            v = task.wf.uuid()
        elif o[0] == "x":
            child = d.child_task(app)
            got = task.wf.execute_task(child, int(o[1:]))
            v = ("inv", got.invocation_id, got.workflow.workflow_id)
        else:
            raise ValueError(o)
        d.record(h, idx, o, v)
    d.before_op(h, len(ops))
    return len(ops)


def wf_body_a(prog: str, tag: str) -> int:
    return _interpret(prog, tag)


def wf_body_b(prog: str, tag: str) -> int:
    return _interpret(prog, tag)

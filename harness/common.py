"""Shared plumbing of every check: translators -> coq/gen, proof build, model evaluation inside
Coq (`Eval vm_compute`), verdicts (VIOLATION / KNOWN-FINDING), evidence files."""
from __future__ import annotations

import ast
import fcntl
import hashlib
import json
import os
import random
import re
import subprocess
import sys
import time
from dataclasses import dataclass, field

VERIF = os.path.dirname(os.path.dirname(os.path.abspath(__file__)))
COQ = os.path.join(VERIF, "coq")
REPO = os.environ.get("VERIF_REPO", "/repo")
EVIDENCE = os.path.join(VERIF, "evidence")
REPLAYS = os.path.join(VERIF, "replays")
KNOWN = os.path.join(VERIF, "known_findings.txt")
NCPU = min(16, os.cpu_count() or 4)

OBLIGATION_RE = re.compile(r"^\s*(?:Theorem|Lemma|Example|Corollary|Fact|Proposition|Remark)\s+([A-Za-z0-9_']+)", re.M)
REQUIRE_RE = re.compile(r"From\s+PV\s+Require\s+(?:Import|Export)\s+(.*?)\.(?=\s|$)", re.S)

BASE_TRUSTED = [
    "Coq 8.16.1 kernel + coqc (vm_compute used for finite-domain lemmas and refutation witnesses; no native_compute)",
    "no Axiom/Parameter/Admitted in the development (grep in setup_cmd); Print Assumptions output recorded below",
    "harness (python): generators, canonicalisation, comparison; translators under harness/translate (fail-closed)",
    "model evaluation inside Coq by `Eval vm_compute` on generated cases files (no extraction in the loop)",
]


class CheckError(Exception):
    """harness failure (exit 2, never an alarm)"""


@dataclass
class ProofResult:
    ok: bool
    obligations: int
    discharged: int
    assumptions: list[str]
    failed_file: str | None = None
    failed_lemma: str | None = None
    error: str | None = None
    cmd: str = ""
    files: list[str] = field(default_factory=list)


def write_coqproject() -> bool:
    """_CoqProject = every .v under Base/ Model/ gen/ Proofs/ Props/ (directory-driven, so that adding a
    property never edits a shared file).  Returns True when the file list changed."""
    files = []
    for d in ("Base", "Model", "gen", "Proofs", "Props"):
        for root, _, names in os.walk(os.path.join(COQ, d)):
            for n in sorted(names):
                if n.endswith(".v") and not n.startswith("."):
                    files.append(os.path.relpath(os.path.join(root, n), COQ))
    text = "-Q . PV\n" + "\n".join(sorted(files)) + "\n"
    path = os.path.join(COQ, "_CoqProject")
    old = open(path).read() if os.path.exists(path) else None
    if old != text:
        with open(path, "w") as f:
            f.write(text)
        return True
    return False


def ensure_makefile() -> None:
    """(call under _Lock) regenerate the Makefile when the file list changed."""
    changed = write_coqproject()
    if changed or not os.path.exists(os.path.join(COQ, "Makefile")):
        subprocess.run(["coq_makefile", "-f", "_CoqProject", "-o", "Makefile"], cwd=COQ, check=True,
                       capture_output=True)


class _Lock:
    def __enter__(self):
        self.f = open(os.path.join(COQ, ".lock"), "w")
        fcntl.flock(self.f, fcntl.LOCK_EX)
        return self

    def __exit__(self, *a):
        fcntl.flock(self.f, fcntl.LOCK_UN)
        self.f.close()


def parse_coq_value(text: str):
    """Parse the `= v : t` answer of Eval for values built from lists, pairs, numbers, bools,
    options (rendered by the models as nested lists of numbers)."""
    t = re.sub(r"%[A-Za-z_]+", "", text)
    t = t.replace(";", ",")
    t = re.sub(r"\btrue\b", "True", t)
    t = re.sub(r"\bfalse\b", "False", t)
    t = re.sub(r"\bNone\b", "None", t)
    t = re.sub(r"\bSome\s+", "", t)
    return ast.literal_eval(" ".join(t.split()))


def known_findings() -> dict[str, dict[str, str]]:
    out: dict[str, dict[str, str]] = {}
    if not os.path.exists(KNOWN):
        return out
    for line in open(KNOWN):
        line = line.strip()
        m = re.match(r"finding:\s+property=(\S+)\s+key=(\S+)\s*(.*)", line)
        if m:
            out.setdefault(m.group(1), {})[m.group(2)] = m.group(3)
    return out


class Ctx:
    def __init__(self, prop: str, tier: str):
        self.prop = prop
        self.tier = tier
        self.seed = int(os.environ.get("VERIF_SEED", "0") or 0)
        self.rng = random.Random(f"{prop}:{self.seed}")
        self.t0 = time.time()
        self.assumptions: list[str] = []
        self.trusted: list[str] = list(BASE_TRUSTED)
        self.violations: list[dict] = []
        self.known_hits: list[dict] = []
        self.notes: dict = {}
        self.coverage: dict = {"evaluations": 0, "distinct_nontrivial": 0, "samples": []}
        self.translators: dict = {}
        self.proof: ProofResult | None = None
        self._known = known_findings().get(prop, {})
        os.makedirs(os.path.join(COQ, "tmp"), exist_ok=True)

    @property
    def thorough(self) -> bool:
        return self.tier == "thorough"

    def log(self, *a):
        print(f"[{self.prop} {time.time() - self.t0:6.1f}s]", *a, flush=True)

    # ------------------------------------------------------------------ translators
    def translate(self, name: str, fn, gen_rel: str) -> dict:
        """Run translator `fn(repo) -> (text, info)`; rewrite coq/<gen_rel> only if the text
        changed.  On failure fall back to the committed default coq/gen_default/<basename>
        (translator_degraded: the correspondence decides)."""
        path = os.path.join(COQ, gen_rel)
        default = os.path.join(COQ, "gen_default", os.path.basename(gen_rel))
        info: dict = {}
        try:
            text, info = fn(REPO)
            degraded = False
        except Exception as ex:  # fail-closed translator
            text = open(default).read()
            degraded = True
            info = {"error": f"{type(ex).__name__}: {ex}"}
        with _Lock():
            old = open(path).read() if os.path.exists(path) else None
            if old != text:
                with open(path, "w") as f:
                    f.write(text)
        info["degraded"] = degraded
        info["differs_from_default"] = (not degraded) and os.path.exists(default) and open(default).read() != text
        self.translators[name] = info
        if degraded:
            self.log(f"translator {name} degraded: {info['error']}")
        return info

    # ------------------------------------------------------------------ proofs
    def _cone(self, rel: str, seen: dict[str, list]) -> None:
        if rel in seen:
            return
        path = os.path.join(COQ, rel)
        if not os.path.exists(path):
            return
        seen[rel] = []
        src = open(path).read()
        for m in REQUIRE_RE.finditer(src):
            for mod in m.group(1).split():
                dep = mod.replace(".", "/") + ".v"
                seen[rel].append(dep)
                self._cone(dep, seen)

    def prove(self, props_rel: str, timeout: int = 900) -> ProofResult:
        """make the .vo of coq/<props_rel> (and its cone); parse Print Assumptions."""
        seen: dict[str, list] = {}
        self._cone(props_rel, seen)
        files = list(seen)
        counts = {f: OBLIGATION_RE.findall(open(os.path.join(COQ, f)).read()) for f in files}
        target = props_rel[:-2] + ".vo"
        cmd = f"make -C coq -j{NCPU} {target}"
        with _Lock():
            ensure_makefile()
            for ext in (".vo", ".glob", ".vok", ".vos"):
                p = os.path.join(COQ, props_rel[:-2] + ext)
                if os.path.exists(p):
                    os.remove(p)
            try:
                r = subprocess.run(["make", "-j", str(NCPU), target], cwd=COQ, capture_output=True,
                                   text=True, timeout=timeout)
                out, rc = r.stdout + "\n" + r.stderr, r.returncode
            except subprocess.TimeoutExpired as ex:
                out, rc = f"TIMEOUT after {timeout}s\n{ex.stdout or ''}", 124
            ok = rc == 0 and os.path.exists(os.path.join(COQ, target))
            compiled = []
            for f in files:
                vo = os.path.join(COQ, f[:-2] + ".vo")
                if os.path.exists(vo) and os.path.getmtime(vo) >= os.path.getmtime(os.path.join(COQ, f)):
                    compiled.append(f)
        assumptions = []
        blocks = re.split(r"\n(?=Closed under the global context|Axioms:)", "\n" + out)
        for b in blocks:
            b = b.strip()
            if b.startswith("Closed under the global context"):
                assumptions.append("Closed under the global context")
            elif b.startswith("Axioms:"):
                names = re.findall(r"^([A-Za-z_][\w.']*)\s*:", b[len("Axioms:"):], re.M)
                assumptions.append("Axioms: " + ", ".join(names))
        obligations = sum(len(v) for v in counts.values())
        failed_file = failed_lemma = err = None
        if ok:
            discharged = obligations
        else:
            m = re.search(r'File "\./([^"]+)", line (\d+)', out)
            bad: set[str] = set()
            if m:
                # the failing file and everything that (transitively) imports it did not check
                bad = {m.group(1)}
                grew = True
                while grew:
                    grew = False
                    for f, deps in seen.items():
                        if f not in bad and any(d in bad for d in deps):
                            bad.add(f)
                            grew = True
            else:
                bad = set(files)
            discharged = sum(len(counts[f]) for f in compiled if f not in bad)
            if m:
                failed_file, line = m.group(1), int(m.group(2))
                src = open(os.path.join(COQ, failed_file)).read().split("\n")
                for ln in range(min(line, len(src)) - 1, -1, -1):
                    mm = OBLIGATION_RE.match(src[ln])
                    if mm:
                        failed_lemma = mm.group(1)
                        break
                # lemmas of the failing file before the failing one did check
                names = counts.get(failed_file, [])
                if failed_lemma in names:
                    discharged += names.index(failed_lemma)
            err = out[-1500:]
        self.proof = ProofResult(ok, obligations, discharged, assumptions, failed_file, failed_lemma,
                                 err, cmd, files)
        self.log(f"proof {'OK' if ok else 'BROKEN'}: {discharged}/{obligations} obligations"
                 + ("" if ok else f" (fails in {failed_file}:{failed_lemma})"))
        return self.proof

    # ------------------------------------------------------------------ model evaluation
    def coq_eval(self, imports: list[str], exprs: list[str], chunk: int = 300, timeout: int = 600,
                 scope: str | None = None) -> list:
        """Evaluate each Gallina expression with vm_compute inside coqc; returns parsed values.
        Only Model/ and gen/ modules should be imported (they build even when a proof breaks)."""
        if not exprs:
            return []
        tmp = os.path.join(COQ, "tmp")
        tag = f"{self.prop}_{os.getpid()}_{int(time.time() * 1000) % 10**9}"
        shards = [exprs[i:i + chunk] for i in range(0, len(exprs), chunk)]
        mods = sorted({m.replace(".", "/") + ".vo" for m in imports})
        with _Lock():
            ensure_makefile()
            r = subprocess.run(["make", "-j", str(NCPU)] + mods, cwd=COQ, capture_output=True, text=True,
                               timeout=timeout)
            if r.returncode != 0:
                raise CheckError("model does not build: " + (r.stdout + r.stderr)[-1500:])
        paths = []
        for k, sh in enumerate(shards):
            p = os.path.join(tmp, f"Eval_{tag}_{k}.v")
            with open(p, "w") as f:
                f.write("From Coq Require Import List ZArith NArith Bool String.\nImport ListNotations.\n")
                f.write("From PV Require Import " + " ".join(imports) + ".\n")
                if scope:
                    f.write(f"Open Scope {scope}.\n")
                f.write("Eval vm_compute in [\n  " + ";\n  ".join(sh) + "\n].\n")
            paths.append(p)
        procs = []
        results: list = []
        try:
            outs = [None] * len(paths)
            running: list[tuple[int, subprocess.Popen]] = []
            idx = 0
            while idx < len(paths) or running:
                while idx < len(paths) and len(running) < NCPU:
                    pr = subprocess.Popen(["coqc", "-q", "-Q", COQ, "PV", paths[idx]], cwd=tmp,
                                          stdout=subprocess.PIPE, stderr=subprocess.PIPE, text=True)
                    running.append((idx, pr))
                    idx += 1
                k, pr = running.pop(0)
                try:
                    so, se = pr.communicate(timeout=timeout)
                except subprocess.TimeoutExpired:
                    pr.kill()
                    raise CheckError("coqc eval timeout")
                if pr.returncode != 0:
                    raise CheckError(f"coqc eval failed: {se[-1500:]}")
                outs[k] = so
            for so in outs:
                m = re.search(r"^\s*=\s(.*)\n\s*:\s", so, re.S | re.M)
                if not m:
                    raise CheckError("cannot parse coqc output: " + so[:500])
                results.extend(parse_coq_value(m.group(1)))
        finally:
            for p in paths:
                base = p[:-2]
                for ext in (".v", ".vo", ".glob", ".vok", ".vos"):
                    if os.path.exists(base + ext):
                        os.remove(base + ext)
                aux = os.path.join(tmp, "." + os.path.basename(base) + ".aux")
                if os.path.exists(aux):
                    os.remove(aux)
        del procs
        if len(results) != len(exprs):
            raise CheckError(f"eval count mismatch {len(results)} != {len(exprs)}")
        return results

    # ------------------------------------------------------------------ verdicts
    def violation(self, key: str, what: str, replay: dict) -> None:
        """A concrete failing input on the implementation. `key` is the finding signature."""
        if key in self._known:
            if not any(k["key"] == key for k in self.known_hits):
                self.known_hits.append({"key": key, "what": what, "replay": replay})
            return
        if not any(v["key"] == key for v in self.violations):
            self.violations.append({"key": key, "what": what, "replay": replay})

    def sample(self, obj, limit: int = 6) -> None:
        if len(self.coverage["samples"]) < limit:
            self.coverage["samples"].append(obj)

    def count(self, evaluations: int = 0, nontrivial: int = 0) -> None:
        self.coverage["evaluations"] += evaluations
        self.coverage["distinct_nontrivial"] += nontrivial

    def finish(self, rule: str, level: str = "proof", extra: dict | None = None) -> int:
        pr = self.proof
        os.makedirs(EVIDENCE, exist_ok=True)
        exit_code = 0
        lines = []
        for k in self.known_hits:
            lines.append(f"KNOWN-FINDING: property={self.prop} key={k['key']} {k['what']}")
        proof_broken = pr is not None and not pr.ok
        if self.violations:
            os.makedirs(REPLAYS, exist_ok=True)
            for v in self.violations:
                h = hashlib.sha256(json.dumps(v, sort_keys=True, default=str).encode()).hexdigest()[:10]
                path = os.path.join(REPLAYS, f"{self.prop}-{h}.json")
                with open(path, "w") as f:
                    json.dump({"property": self.prop, "key": v["key"], "what": v["what"],
                               "replay": v["replay"], "seed": self.seed, "tier": self.tier,
                               "replay_cmd": f"./check {self.prop} --replay {path}"}, f, indent=1, default=str)
                lines.append(f"VIOLATION property={self.prop} replay={path}")
                self.log("violation:", v["what"])
            exit_code = 1
        elif proof_broken:
            os.makedirs(REPLAYS, exist_ok=True)
            path = os.path.join(REPLAYS, f"{self.prop}-proof-broken.json")
            with open(path, "w") as f:
                json.dump({"property": self.prop, "no_failing_input_found": True,
                           "broken": {"file": pr.failed_file, "theorem": pr.failed_lemma, "error": pr.error},
                           "translators": self.translators, "searched": self.coverage.get("evaluations", 0),
                           "seed": self.seed, "tier": self.tier}, f, indent=1, default=str)
            lines.append(f"VIOLATION property={self.prop} replay={path} no-failing-input-found")
            exit_code = 1
        cov = dict(self.coverage)
        cov["rule"] = rule
        if pr is not None:
            cov.update({"obligations": pr.obligations, "discharged": pr.discharged,
                        "checker_cmd": pr.cmd + "  (full .vo build; Props file recompiled on every run)",
                        "trusted_base": self.trusted + ["Print Assumptions: " + "; ".join(sorted(set(pr.assumptions)) or ["(none printed)"])],
                        "proof_files": pr.files})
        cov["translators"] = self.translators
        cov["known_findings_reproduced"] = [k["key"] for k in self.known_hits]
        cov.update(self.notes)
        if extra:
            cov.update(extra)
        ev = {"property_id": self.prop, "tier": self.tier, "seed": self.seed, "level": level,
              "coverage": cov, "assumptions": self.assumptions, "wall_s": round(time.time() - self.t0, 2),
              "violations": len(self.violations) + (1 if (proof_broken and not self.violations) else 0)}
        with open(os.path.join(EVIDENCE, f"{self.prop}.json"), "w") as f:
            json.dump(ev, f, indent=1, default=str)
        for ln in lines:
            print(ln, flush=True)
        self.log(f"done exit={exit_code} evaluations={cov['evaluations']} wall={ev['wall_s']}s")
        return exit_code

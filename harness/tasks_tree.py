"""Task body interpreting a call-tree spec [id, mode, [children...]] (modes: single, group, mixed, seq, leaf)."""
from __future__ import annotations

TASK = None          # the pynenc Task for `node`, set by the harness for the app under test
LOG: list = []
FAIL: dict = {}      # node id -> number of times it still has to raise Retry (retrying workloads)


class Retry(Exception):
    pass


def node(spec: list) -> int:
    nid, mode, kids = spec
    LOG.append(("enter", nid))
    if FAIL.get(nid, 0) > 0:
        FAIL[nid] -= 1
        LOG.append(("raise", nid))
        raise Retry(nid)
    total = nid
    if mode == "single":
        invs = [TASK(k) for k in kids]
        for inv in invs:
            total += inv.result
    elif mode == "seq":
        for k in kids:
            total += TASK(k).result
    elif mode == "group":
        if kids:
            total += sum(TASK.parallelize([(k,) for k in kids]).results)
    elif mode == "mixed":
        if kids:
            first = TASK(kids[0])
            rest = TASK.parallelize([(k,) for k in kids[1:]]) if len(kids) > 1 else None
            total += first.result
            if rest is not None:
                total += sum(rest.results)
    LOG.append(("exit", nid))
    return total


def expected(spec) -> int:
    return spec[0] + sum(expected(k) for k in spec[2])


def size(spec) -> int:
    return 1 + sum(size(k) for k in spec[2])


def gen_tree(rng, depth: int, fanout: int, counter=None):
    counter = counter if counter is not None else [0]
    nid = counter[0]
    counter[0] += 1
    if depth == 0:
        return [nid, "leaf", []]
    k = rng.randint(0 if depth < 2 else 1, fanout)
    mode = rng.choice(["single", "group", "mixed", "seq"]) if k else "leaf"
    return [nid, mode, [gen_tree(rng, depth - 1, fanout, counter) for _ in range(k)]]

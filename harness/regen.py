"""Regenerate every coq/gen/*_gen.v from /repo and rewrite coq/_CoqProject (used by setup.sh; each check
re-runs its own translators).  Translators are discovered from the property modules: every
harness/props/cXX.py may define  GENERATED = [(translator module, function name, "gen/X_gen.v"), ...]."""
from __future__ import annotations

import glob
import importlib
import os

from harness.common import COQ, REPO, VERIF, write_coqproject


def generated() -> list[tuple[str, str, str]]:
    out = []
    for f in sorted(glob.glob(os.path.join(VERIF, "harness", "props", "c[0-9][0-9].py"))):
        mod = importlib.import_module("harness.props." + os.path.basename(f)[:-3])
        for g in getattr(mod, "GENERATED", []):
            if g not in out:
                out.append(g)
    return out


def main() -> None:
    os.makedirs(os.path.join(COQ, "gen"), exist_ok=True)
    for mod, fn, rel in generated():
        path = os.path.join(COQ, rel)
        default = os.path.join(COQ, "gen_default", os.path.basename(rel))
        try:
            text, _ = getattr(importlib.import_module(mod), fn)(REPO)
        except Exception as ex:  # fail-closed translator: fall back to the committed default
            print(f"translator {mod} degraded: {ex}")
            text = open(default).read()
        old = open(path).read() if os.path.exists(path) else None
        if old != text:
            with open(path, "w") as f:
                f.write(text)
    write_coqproject()


if __name__ == "__main__":
    main()

"""Regenerate every coq/gen/*_gen.v from /repo (used by setup.sh; each check re-runs its own)."""
from __future__ import annotations

import importlib
import os
import shutil

from harness.common import COQ, REPO

# (translator module, function, generated file)
GENERATED = [
    ("harness.translate.status_table", "translate", "gen/StatusTable_gen.v"),
]


def main() -> None:
    for mod, fn, rel in GENERATED:
        path = os.path.join(COQ, rel)
        default = os.path.join(COQ, "gen_default", os.path.basename(rel))
        try:
            text, _ = getattr(importlib.import_module(mod), fn)(REPO)
        except Exception as ex:  # fail-closed translator: fall back to the committed default
            print(f"translator {mod} degraded: {ex}")
            text = open(default).read()
        old = open(path).read() if os.path.exists(path) else None
        if old != text:
            with open(path, "w") as f:
                f.write(text)


if __name__ == "__main__":
    main()

"""Module-level task functions and argument callbacks for the C13 check (callbacks of argument
providers must be importable module-level functions: they are serialised by module + name)."""
from __future__ import annotations


def target(x=None, src=None):
    return x


def target_b(x=None, src=None):
    return x


def target_c(x=None, src=None):
    return x


def source(n: int = 0, fail: int = 0):
    if fail:
        raise ValueError(f"boom{n}")
    return n


def source_b(n: int = 0, fail: int = 0):
    if fail:
        raise ValueError(f"boom{n}")
    return n


def args_from_event(ctx):
    return {"x": ctx.payload.get("n"), "src": "event"}


def args_from_status(ctx):
    return {"x": f"{ctx.arguments.kwargs.get('n')}:{ctx.status.name}", "src": "status"}


def args_from_result(ctx):
    return {"x": ctx.result, "src": "result"}


def args_from_exception(ctx):
    return {"x": f"{ctx.arguments.kwargs.get('n')}:{ctx.exception_type}", "src": "exception"}


def args_from_cron(ctx):
    return {"x": ctx.timestamp.isoformat(), "src": "cron"}

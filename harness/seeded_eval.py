"""Confirm and evaluate one seeded change (coordinator tool; not part of any registered check).

usage: seeded_eval.py <PID> <change_dir> <name> [--tests] [--checks quick,thorough] [--also C02,C05]
  1. applies <change_dir>/patch.diff to a fresh scratch worktree of /repo (outside /repo and /verif),
  2. runs demo.py on the clean tree (/repo) and on the changed tree,
  3. optionally runs the project's test suite on the changed tree,
  4. runs ./check PID (quick, then thorough if quick misses) with VERIF_REPO=<changed tree>,
  5. stores patch.diff, demo.py, meta.json (+ "result") in /verif/seeded/<name>/, removes the worktree and
     regenerates coq/gen from /repo.
"""
import json, os, shutil, subprocess, sys, time

def sh(cmd, cwd=None, timeout=3600, env=None):
    e = dict(os.environ); e.update(env or {})
    r = subprocess.run(cmd, shell=True, cwd=cwd, capture_output=True, text=True, timeout=timeout, env=e)
    return r.returncode, (r.stdout + r.stderr)

CHECK_DIR = os.environ.get("VERIF_COPY", "/verif")     # a private copy of /verif lets several evaluations run in parallel


def main():
    pid, cdir, name = sys.argv[1], sys.argv[2], sys.argv[3]
    do_tests = "--tests" in sys.argv
    tiers = ["quick", "thorough"]
    also = []
    for i, a in enumerate(sys.argv):
        if a == "--checks": tiers = sys.argv[i + 1].split(",")
        if a == "--also": also = sys.argv[i + 1].split(",")
    wt = f"/tmp/eval_{name}"
    sh(f"git -C /repo worktree remove --force {wt}")
    rc, out = sh(f"git -C /repo worktree add --detach {wt} HEAD")
    assert rc == 0, out
    res = {}
    try:
        rc, out = sh(f"git -C {wt} apply {cdir}/patch.diff")
        res["applies"] = rc == 0
        if rc != 0:
            print("PATCH DOES NOT APPLY", out); return
        rc, out = sh(f"/venv/bin/python -c 'import pynenc, pynenc.app'", cwd=wt)
        res["imports"] = rc == 0
        rc0, out0 = sh(f"timeout 300 /venv/bin/python {cdir}/demo.py", cwd="/repo", env={"PYTHONPATH": "/repo"})
        rc1, out1 = sh(f"timeout 300 /venv/bin/python {cdir}/demo.py", cwd=wt, env={"PYTHONPATH": wt})
        res["demo_clean"] = {"exit": rc0, "tail": out0.strip().split("\n")[-1][:300]}
        res["demo_changed"] = {"exit": rc1, "tail": out1.strip().split("\n")[-1][:300]}
        print("demo clean:", res["demo_clean"]); print("demo changed:", res["demo_changed"])
        if do_tests:
            t0 = time.time()
            rc, out = sh("/venv/bin/python -m pytest -q -p no:cacheprovider --timeout=900 pynenc_tests 2>&1 | tail -15", cwd=wt, timeout=3000, env={"PYTHONPATH": wt})
            tail = [l for l in out.strip().split("\n") if " passed" in l or " failed" in l or "error" in l.lower()][-3:]
            res["tests"] = {"tail": tail, "wall_s": round(time.time() - t0)}
            print("tests:", tail)
        for p in [pid] + also:
            for tier in tiers:
                t0 = time.time()
                rc, out = sh(f"./check {p} --tier {tier}", cwd=CHECK_DIR, timeout=5400, env={"VERIF_REPO": wt})
                viol = [l for l in out.split("\n") if l.startswith("VIOLATION")]
                first = [l for l in out.split("\n") if "violation:" in l or "BROKEN" in l][:3]
                key = f"{p}:{tier}"
                res[key] = {"exit": rc, "violations": len(viol), "no_failing_input": any("no-failing-input-found" in v for v in viol),
                            "first": [f[:400] for f in first], "wall_s": round(time.time() - t0)}
                print(key, res[key])
                if rc == 1:
                    break
    finally:
        sh(f"git -C /repo worktree remove --force {wt}")
        sh(f"rm -rf {CHECK_DIR}/replays/*")
        sh("/venv/bin/python -m harness.regen", cwd=CHECK_DIR, env={"PYTHONPATH": f"{CHECK_DIR}:/repo", "PYTHONHASHSEED": "0"})
    dst = f"/verif/seeded/{name}"
    os.makedirs(dst, exist_ok=True)
    for f in ("patch.diff", "demo.py"):
        shutil.copy(os.path.join(cdir, f), os.path.join(dst, f))
    meta = json.load(open(os.path.join(cdir, "meta.json")))
    prev = os.path.join(dst, "meta.json")
    history = []
    if os.path.exists(prev):
        try:
            old = json.load(open(prev))
            history = old.get("history", [])
            if "result" in old:
                history.append({"quick": old["result"]["quick"], "thorough": old["result"]["thorough"], "verif_commit": old["result"].get("verif_commit")})
            if "tests" in old.get("result", {}).get("raw", {}) and "tests" not in res:
                res["tests"] = old["result"]["raw"]["tests"]
        except Exception:
            pass
    q = res.get(f"{pid}:quick", {}); t = res.get(f"{pid}:thorough", {})
    def verdict(r):
        if not r: return "not run"
        if r["exit"] == 1: return "CAUGHT" + (" (no-failing-input-found)" if r["no_failing_input"] and r["violations"] == 1 else " with replay")
        return "missed" if r["exit"] == 0 else f"error exit {r['exit']}"
    meta["result"] = {"quick": verdict(q), "thorough": verdict(t) if t else ("n/a (quick caught it)" if q.get("exit") == 1 else "not run"),
                      "tripped": "; ".join((q.get("first") or t.get("first") or [""])[:1]), "raw": res,
                      "verif_commit": subprocess.run("git -C /verif rev-parse --short HEAD", shell=True, capture_output=True, text=True).stdout.strip()}
    meta["history"] = history
    json.dump(meta, open(os.path.join(dst, "meta.json"), "w"), indent=1)
    print("stored", dst, meta["result"]["quick"], "/", meta["result"]["thorough"])

main()

"""Coordinator tool (not part of any check): run pynenc's own test suite on a seeded change.

usage: seeded_tests.py <name> [<name> ...]     (names of /verif/seeded/<name>/)
For each: scratch worktree of /repo under /tmp, apply patch.diff, run the pinned suite, re-run the failed tests alone (they are
mostly timing-sensitive under load), write /verif/seeded/<name>/tests.json, remove the worktree and any orphaned child process.
"""
import json
import os
import re
import subprocess
import sys
import time


def sh(cmd, cwd=None, timeout=7200, env=None):
    e = dict(os.environ)
    e.update(env or {})
    r = subprocess.run(cmd, shell=True, cwd=cwd, capture_output=True, text=True, timeout=timeout, env=e)
    return r.returncode, r.stdout + r.stderr


def kill_orphans(wt):
    for pid in os.listdir("/proc"):
        if not pid.isdigit():
            continue
        try:
            if os.readlink(f"/proc/{pid}/cwd").startswith(wt):
                os.kill(int(pid), 9)
        except OSError:
            pass


def one(name):
    d = f"/verif/seeded/{name}"
    wt = f"/tmp/tst_{name}"
    sh(f"git -C /repo worktree remove --force {wt}")
    rc, out = sh(f"git -C /repo worktree add --detach {wt} HEAD")
    assert rc == 0, out
    res = {"name": name}
    try:
        rc, out = sh(f"git -C {wt} apply {d}/patch.diff")
        if rc != 0:
            res["error"] = "patch does not apply: " + out[-300:]
            return res
        t0 = time.time()
        log = f"/tmp/tst_{name}.log"
        if os.environ.get("RELOG") and os.path.exists(log):
            pass
        else:
            sh(f"nice -n 5 /venv/bin/python -m pytest -q -p no:cacheprovider --timeout=900 -rfE pynenc_tests > {log} 2>&1", cwd=wt, timeout=5400,
               env={"PYTHONPATH": wt})
        kill_orphans(wt)
        text = open(log, errors="replace").read()
        m = re.findall(r"=+ (.*(?:passed|failed|error).*) in [\d.]+s", text)
        res["summary"] = m[-1] if m else "no summary (run aborted?)"
        res["wall_s"] = round(time.time() - t0)
        failed = sorted(set(re.findall(r"^(?:FAILED|ERROR) (pynenc_tests/\S+?::.+?)(?: - .*)?$", text, re.M)))
        res["failed_in_full_run"] = failed
        still = []
        for t in failed:
            rc, out = sh(f"/venv/bin/python -m pytest -q -p no:cacheprovider --timeout=900 '{t}' 2>&1 | tail -3", cwd=wt, timeout=1800, env={"PYTHONPATH": wt})
            kill_orphans(wt)
            if " passed" not in out or " failed" in out:
                still.append(t)
        res["failed_when_rerun_alone"] = still
        res["verdict"] = "suite passes" if not still and "passed" in res["summary"] else "FAILS"
    finally:
        kill_orphans(wt)
        sh(f"git -C /repo worktree remove --force {wt}")
        json.dump(res, open(f"{d}/tests.json", "w"), indent=1)
    return res


if __name__ == "__main__":
    for n in sys.argv[1:]:
        print(json.dumps(one(n)), flush=True)

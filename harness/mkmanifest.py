"""Regenerate /verif/MANIFEST.json from the table below (python harness/mkmanifest.py)."""
from __future__ import annotations

import json
import os

VERIF = os.path.dirname(os.path.dirname(os.path.abspath(__file__)))
ALL = [f"C{n:02d}" for n in range(1, 21)]

def discover() -> dict[str, tuple[str, str, str, str]]:
    """Each harness/props/cXX.py that defines MANIFEST = {technique, text, note, design_ref} is a claimed check."""
    import glob
    import importlib
    out = {}
    # only properties the coordinator has reviewed and listed in harness/claimed.txt are claimed
    claimed = set(open(os.path.join(VERIF, "harness", "claimed.txt")).read().split())
    for f in sorted(glob.glob(os.path.join(VERIF, "harness", "props", "c[0-9][0-9].py"))):
        name = os.path.basename(f)[:-3]
        m = getattr(importlib.import_module("harness.props." + name), "MANIFEST", None)
        if m and name.upper() in claimed:
            out[name.upper()] = (m["technique"], m["text"], m["note"], m["design_ref"])
    return out


CHECKS = discover()

NOT_YET = "check not built yet in this session (work in progress; see DESIGN.md §6 for the planned model and tie)"


def main() -> None:
    checks = []
    for p in ALL:
        if p not in CHECKS:
            continue
        tech, text, note, ref = CHECKS[p]
        checks.append({
            "property_id": p,
            "quick_cmd": f"./check {p} --tier quick",
            "thorough_cmd": f"./check {p} --tier thorough",
            "evidence_file": f"/verif/evidence/{p}.json",
            "replay_cmd_template": f"./check {p} --replay {{path}}",
            "engine": "coq-proof+correspondence",
            "level_claimed": {"category": "proof", "text": text, "design_ref": ref},
            "level_note": note,
            "technique": tech,
        })
    manifest = {
        "version": 1,
        "setup_cmd": "./setup.sh",
        "hooks": {
            "guard": "PYNENC_VERIF",
            "enable": "none needed: no hook was added to /repo; all instrumentation is applied by the harness at run time "
                      "(wrapping component methods, SQLite connections, threading primitives)",
            "baseline_off_cmd": "cd /repo && /venv/bin/python -m pytest -ra -q -p no:cacheprovider --timeout=900 --continue-on-collection-errors",
            "source_commits": [],
            "add_only": True,
        },
        "engines": [{
            "name": "coq-proof+correspondence",
            "path": "/verif/check",
            "serves_properties": [c["property_id"] for c in checks],
            "kind_free_text": "Coq 8.16.1 theorems over Gallina models (coq/Model, coq/Proofs, coq/Props), models regenerated "
                              "from /repo by AST translators (harness/translate -> coq/gen) and tied to the running code by "
                              "differential correspondence (model evaluated inside Coq with vm_compute vs real pynenc objects)",
        }],
        "checks": checks,
        "notes": "coqchk -o over all 107 compiled modules of the development (2026-09-26, exit 0; full summary in coqchk_axioms.txt): no type-in-type, "
                 "no unsafe fixpoints, no assumed positivity; axioms in the closure of the loaded libraries: "
                 "Coq.Logic.FunctionalExtensionality.functional_extensionality_dep, Coq.Logic.Classical_Prop.classic, "
                 "Coq.Reals.ClassicalDedekindReals.sig_forall_dec, Coq.Reals.ClassicalDedekindReals.sig_not_dec (all reached only through "
                 "Flocq / the standard library's reals in C12's binary64 lemmas) plus the kernel's primitive int63 / float operations "
                 "and their specification axioms in Coq.Floats.FloatAxioms / Coq.Numbers.Cyclic.Int63.Uint63 (C12's bit-exact float model); "
                 "the development itself declares none (setup.sh greps for Axiom/Parameter/Conjecture/Admitted/admit and unchecked flags). "
                 "Every other property's theorems print `Closed under the global context`. "
                 "Trusted base and per-property modelling boundaries: DESIGN.md §8 and each evidence file's trusted_base. "
                 "Known findings: known_findings.txt.",
        "not_applicable": [{"property_id": p, "reason": NOT_YET} for p in ALL if p not in CHECKS],
    }
    with open(os.path.join(VERIF, "MANIFEST.json"), "w") as f:
        json.dump(manifest, f, indent=1)
    print("MANIFEST.json:", len(checks), "checks,", len(manifest["not_applicable"]), "not claimed")


if __name__ == "__main__":
    main()

"""Task functions of check C19 (sync development mode vs distributed execution).

One generic, pure, JSON-driven body interprets a *program node* (see harness/props/c19.py for the
grammar); it is exposed under one module-level function name per (flavour, max_retries, retry_for)
configuration because pynenc keys task options by module + function name.  A Task cannot be defined
in __main__, and the thread runner resolves tasks through app._tasks, so `bind(app, ...)` registers
the functions a case needs on the app of that case.

Observations are collected in the module-level registry REG (one case runs at a time; the thread
runner's worker threads live in this process and see the same object): one entry per BODY EXECUTION
with the invocation id, the per-invocation execution number, invocation.num_retries as seen by the
body, the sub-invocations it launched (flat list `launched`, and per statement in `stmts`), the log index of
the execution whose body called it inline (`parent`; only sync mode nests bodies in one thread), and how the
execution ended.

Node ids name ARGUMENT SETS: the generator may repeat a node (same id, same spec) inside one group or one
body - the same call made twice.  The elements of a parallelized list are spelled in the three forms
parallelize accepts (dict / tuple / Arguments), by position.
"""
from __future__ import annotations

import threading

MAXR = (0, 1, 2, 3)
# retry_for settings: 0 = option absent (default: RetryError only), 1 = (ValueError,), 2 = (ValueError, KeyError)
RETRY_FOR = {0: None, 1: (ValueError,), 2: (ValueError, KeyError)}
# exception kinds of the task language
KINDS = ["RetryError", "ValueError", "KeyError", "RuntimeError"]


def exc_class(kind: int):
    from pynenc.exceptions import RetryError
    return [RetryError, ValueError, KeyError, RuntimeError][kind]


def make_exc(kind: int, arg: int) -> Exception:
    """arg 0 = no arguments; arg n = ("e", n) (a JSON-able argument tuple)."""
    cls = exc_class(kind)
    return cls() if arg == 0 else cls("e", arg)


class Registry:
    def __init__(self) -> None:
        self.lock = threading.Lock()
        self.log: list[dict] = []
        self.counter: dict[str, int] = {}
        self.plain: dict[tuple[int, int], object] = {}     # (mr, rf) -> Task
        self.direct: dict[tuple[int, int], object] = {}    # (mr, rf) -> direct-task wrapper
        self.dpar: dict[tuple[int, int], object] = {}      # (mr, rf) -> direct-task wrapper with parallel_func
        self.task_of: dict[str, object] = {}               # function name -> Task (to find the running invocation)
        self.launched: list = []                           # invocation objects created by bodies
        self.tls = threading.local()                       # .cur = log index of the execution running in this thread


REG: Registry | None = None


def spell(task, j: int, member: dict):
    """the j-th element of a parallelized list, in one of the accepted spellings"""
    if task is None or j % 3 == 0:
        return {"spec": member}
    if j % 3 == 1:
        return (member,)
    return task.args(spec=member)


def _run_stmt(reg: Registry, st: list, entry: dict) -> int:
    op = st[0]
    entry["stmts"].append({"op": op, "ids": [st[1]["id"]] if op in ("call", "fire", "direct") else [m["id"] for m in st[1]]})
    if op in ("call", "fire"):
        c = st[1]
        inv = reg.plain[(c["mr"], c["rf"])](spec=c)
        reg.launched.append(inv)
        entry["launched"].append(c["id"])
        if op == "fire":
            return 0                      # result never requested
        return inv.result
    if op == "direct":
        c = st[1]
        entry["launched"].append(c["id"])
        return reg.direct[(c["mr"], c["rf"])](spec=c)
    if op == "group":
        members = st[1]
        c0 = members[0]
        task = reg.plain[(c0["mr"], c0["rf"])]
        group = task.parallelize([spell(task, j, m) for j, m in enumerate(members)])
        reg.launched.extend(group.invocations)
        entry["launched"].extend(m["id"] for m in members)
        return sum(group.results)         # order-insensitive aggregation
    if op == "dpar":
        members = st[1]
        c0 = members[0]
        entry["launched"].extend(m["id"] for m in members)
        return reg.dpar[(c0["mr"], c0["rf"])](spec={"par": members})
    raise AssertionError(op)


def _body(fname: str, spec: dict):
    reg = REG
    assert reg is not None
    inv = reg.task_of[fname].invocation
    inv_id = str(inv.invocation_id)
    with reg.lock:
        k = reg.counter[inv_id] = reg.counter.get(inv_id, 0) + 1
    entry = {"node": spec["id"], "inv": inv_id, "attempt": k, "retries_seen": inv.num_retries,
             "launched": [], "stmts": [], "end": None, "mode": type(inv).__name__,
             "parent": getattr(reg.tls, "cur", None)}
    with reg.lock:
        entry["idx"] = len(reg.log)
        reg.log.append(entry)
    outer = entry["parent"]
    reg.tls.cur = entry["idx"]
    try:
        script = spec["script"]
        act = script[k - 1] if k - 1 < len(script) else spec["dflt"]
        if act[0] == 1:
            raise make_exc(act[1], act[2])
        total = spec["base"]
        for st in spec["body"]:
            total = total + _run_stmt(reg, st, entry)
        if act[0] == 2:
            raise make_exc(act[1], act[2])
        entry["end"] = ["val", total]
        return total
    except Exception as ex:
        entry["end"] = ["exc", type(ex).__name__, list(ex.args)]
        raise
    finally:
        reg.tls.cur = outer


def _parallel_func(args: dict):
    return [spell(None, 0, m) if j % 2 == 0 else (m,) for j, m in enumerate(args["spec"]["par"])]


def _aggregate(results) -> int:
    return sum(results)


def fname(flavour: str, mr: int, rf: int) -> str:
    return f"c19_{flavour}_m{mr}_r{rf}"


def _define(flavour: str, mr: int, rf: int) -> None:
    name = fname(flavour, mr, rf)

    def f(spec):
        return _body(name, spec)

    f.__name__ = f.__qualname__ = name
    f.__module__ = __name__
    globals()[name] = f


for _fl in ("p", "d", "g"):
    for _m in MAXR:
        for _r in RETRY_FOR:
            _define(_fl, _m, _r)


def bind(app, reg: Registry, needed: set[tuple[str, int, int]]) -> None:
    """Register on `app` the (flavour, max_retries, retry_for) functions a case uses."""
    for fl, mr, rf in sorted(needed):
        name = fname(fl, mr, rf)
        func = globals()[name]
        opts: dict = {"max_retries": mr}
        if RETRY_FOR[rf] is not None:
            opts["retry_for"] = RETRY_FOR[rf]
        if fl == "p":
            t = app.task(func, **opts)
            reg.plain[(mr, rf)] = t
            reg.task_of[name] = t
        elif fl == "d":
            w = app.direct_task(func, **opts)
            reg.direct[(mr, rf)] = w
            reg.task_of[name] = w.__pynenc_task__
        else:
            w = app.direct_task(func, parallel_func=_parallel_func, aggregate_func=_aggregate, **opts)
            reg.dpar[(mr, rf)] = w
            reg.task_of[name] = w.__pynenc_task__

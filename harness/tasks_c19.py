"""Task functions of check C19 (sync development mode vs distributed execution).

One generic, pure, JSON-driven body interprets a *program node* (see harness/props/c19.py for the
grammar); it is exposed under one module-level function name per (flavour, max_retries, retry_for)
configuration because pynenc keys task options by module + function name.  A Task cannot be defined
in __main__, and the thread runner resolves tasks through app._tasks, so `bind(app, ...)` registers
the functions a case needs on the app of that case.

Observations are collected in the module-level registry REG (one case runs at a time; the thread
runner's worker threads live in this process and see the same object): one entry per BODY EXECUTION
with the invocation id, the per-invocation execution number, invocation.num_retries as seen by the
body, the sub-invocations it launched (flat list `launched`, and per statement in `stmts`), the log index of
the execution whose body called it inline (`parent`; only sync mode nests bodies in one thread), and how the
execution ended.

A node may declare two further keyword arguments of its call: `extra` (passed in the per-call parameters) and
`shift` (passed to every member of its group through parallelize's common_args); the body adds the values it
RECEIVES to its result and logs received vs declared.  Options: `decl` = "t" passes max_retries as a task-level
option (explicit zeros included), "a" leaves it to the app-level configuration; `tbatch` of the case is passed
as the task-level parallel_batch_size of every task.

Node ids name ARGUMENT SETS: the generator may repeat a node (same id, same spec) inside one group or one
body - the same call made twice.  The elements of a parallelized list are spelled in the three forms
parallelize accepts (dict / tuple / Arguments), by position.
"""
from __future__ import annotations

import threading

MAXR = (0, 1, 2, 3)
# retry_for settings: 0 = option absent (default: RetryError only), 1 = (ValueError,), 2 = (ValueError, KeyError)
RETRY_FOR = {0: None, 1: (ValueError,), 2: (ValueError, KeyError)}
# exception kinds of the task language
KINDS = ["RetryError", "ValueError", "KeyError", "RuntimeError"]


def exc_class(kind: int):
    from pynenc.exceptions import RetryError
    return [RetryError, ValueError, KeyError, RuntimeError][kind]


def make_exc(kind: int, arg: int) -> Exception:
    """arg 0 = no arguments; arg n = ("e", n) (a JSON-able argument tuple)."""
    cls = exc_class(kind)
    return cls() if arg == 0 else cls("e", arg)


# ---- large payloads: arguments / results far above any plausible size threshold of the serialisation layer.
# A node may declare `blob` = {"kind": "list" | "str", "v": 1..9}: the call passes a 60 000-element int list
# (~400 KB of JSON) or a 200 000-character string whose MIDDLE element encodes v - two blobs of one kind have the
# same serialized length and agree everywhere else; the body adds the v it RECEIVES.  `bigres`: the task returns
# its value inside a 60 000-element list (callers unwrap it), so results are large and alike, too.
BLOB_N = 60000
STR_N = 200000


def make_blob(desc):
    if not desc:
        return None
    if desc["kind"] == "list":
        b = list(range(BLOB_N))
        b[BLOB_N // 2] = 10000 + desc["v"]
        return b
    return "a" * (STR_N // 2) + str(desc["v"]) + "a" * (STR_N // 2 - 1)


def blob_value(blob) -> int:
    if blob is None:
        return 0
    try:
        if isinstance(blob, str):
            return int(blob[len(blob) // 2])
        return int(blob[len(blob) // 2]) - 10000
    except Exception:  # noqa: BLE001 - a mangled payload is an observation, not a crash
        return -1


def wrap_result(spec: dict, total: int):
    if not spec.get("bigres"):
        return total
    r = [7] * BLOB_N
    r[BLOB_N // 2] = 10000 + total
    return r


def unwrap(v):
    if isinstance(v, list) and len(v) == BLOB_N:
        return v[BLOB_N // 2] - 10000
    return v


def call_kwargs(c: dict) -> dict:
    kw = {"spec": c}
    if c.get("extra") is not None:
        kw["extra"] = c["extra"]
    if c.get("blob"):
        kw["blob"] = make_blob(c["blob"])
    return kw


def key_of(c: dict) -> tuple:
    return (c["mr"], c["rf"], c.get("decl", "t"))


class Registry:
    def __init__(self) -> None:
        self.lock = threading.Lock()
        self.log: list[dict] = []
        self.counter: dict[str, int] = {}
        self.plain: dict[tuple, object] = {}               # (mr, rf, decl) -> Task
        self.direct: dict[tuple, object] = {}              # (mr, rf, decl) -> direct-task wrapper
        self.dpar: dict[tuple, object] = {}                # (mr, rf, decl) -> direct-task wrapper with parallel_func
        self.task_of: dict[str, object] = {}               # function name -> Task (to find the running invocation)
        self.launched: list = []                           # invocation objects created by bodies
        self.tls = threading.local()                       # .cur = log index of the execution running in this thread


REG: Registry | None = None


def spell(task, j: int, member: dict, common: bool = False):
    """the j-th element of a parallelized list, in one of the accepted spellings (dicts only next to common_args)"""
    extra = member.get("extra")
    if member.get("blob"):
        return call_kwargs(member)
    if common or task is None or j % 3 == 0:
        if task is None and not common and j % 2 == 1:
            return (member,) if extra is None else (member, extra)
        return {"spec": member} if extra is None else {"spec": member, "extra": extra}
    if j % 3 == 1:
        return (member,) if extra is None else (member, extra)
    return task.args(spec=member) if extra is None else task.args(spec=member, extra=extra)


def group_params(task, members: list, shift):
    """(param_iter, common_args) of one parallelize call"""
    common = shift is not None
    return [spell(task, j, m, common) for j, m in enumerate(members)], ({"shift": shift} if common else None)


def _run_stmt(reg: Registry, st: list, entry: dict) -> int:
    op = st[0]
    entry["stmts"].append({"op": op, "ids": [st[1]["id"]] if op in ("call", "fire", "direct") else [m["id"] for m in st[1]]})
    if op in ("call", "fire", "direct"):
        c = st[1]
        kw = call_kwargs(c)
        entry["launched"].append(c["id"])
        if op == "direct":
            return unwrap(reg.direct[key_of(c)](**kw))
        inv = reg.plain[key_of(c)](**kw)
        reg.launched.append(inv)
        if op == "fire":
            return 0                      # result never requested
        return unwrap(inv.result)
    members = st[1]
    shift = st[2] if len(st) > 2 else None
    c0 = members[0]
    entry["launched"].extend(m["id"] for m in members)
    if op == "group":
        task = reg.plain[key_of(c0)]
        params, common = group_params(task, members, shift)
        group = task.parallelize(params, common) if common else task.parallelize(params)
        reg.launched.extend(group.invocations)
        return sum(unwrap(r) for r in group.results)         # order-insensitive aggregation
    if op == "dpar":
        return reg.dpar[key_of(c0)](spec={"par": members, "shift": shift})
    raise AssertionError(op)


def _body(fname: str, spec: dict, extra: int, shift: int, blob=None):
    reg = REG
    assert reg is not None
    inv = reg.task_of[fname].invocation
    inv_id = str(inv.invocation_id)
    with reg.lock:
        k = reg.counter[inv_id] = reg.counter.get(inv_id, 0) + 1
    entry = {"node": spec.get("id", 0), "inv": inv_id, "attempt": k, "retries_seen": inv.num_retries,
             "launched": [], "stmts": [], "end": None, "mode": type(inv).__name__,
             "parent": getattr(reg.tls, "cur", None),
             "args": [extra, shift, blob_value(blob)],
             "declared": [spec.get("extra") or 0, spec.get("shift") or 0, (spec.get("blob") or {}).get("v", 0)]}
    with reg.lock:
        entry["idx"] = len(reg.log)
        reg.log.append(entry)
    outer = entry["parent"]
    reg.tls.cur = entry["idx"]
    try:
        script = spec["script"]
        act = script[k - 1] if k - 1 < len(script) else spec["dflt"]
        if act[0] == 1:
            raise make_exc(act[1], act[2])
        total = spec["base"] + extra + shift + blob_value(blob)
        for st in spec["body"]:
            total = total + _run_stmt(reg, st, entry)
        if act[0] == 2:
            raise make_exc(act[1], act[2])
        entry["end"] = ["val", total]
        return wrap_result(spec, total)
    except Exception as ex:
        entry["end"] = ["exc", type(ex).__name__, list(ex.args)]
        raise
    finally:
        reg.tls.cur = outer


def _parallel_func(args: dict):
    members, shift = args["spec"]["par"], args["spec"].get("shift")
    params, common = group_params(None, members, shift)
    return (common, params) if common else params


def _aggregate(results) -> int:
    return sum(unwrap(r) for r in results)


def fname(flavour: str, mr: int, rf: int, decl: str = "t") -> str:
    return f"c19_{flavour}_m{mr}_r{rf}" + ("" if decl == "t" else "_a")


def _define(flavour: str, mr: int, rf: int, decl: str) -> None:
    name = fname(flavour, mr, rf, decl)

    def f(spec, extra=0, shift=0, blob=None):
        return _body(name, spec, extra, shift, blob)

    f.__name__ = f.__qualname__ = name
    f.__module__ = __name__
    globals()[name] = f


for _fl in ("p", "d", "g"):
    for _m in MAXR:
        for _r in RETRY_FOR:
            for _d in ("t", "a"):
                _define(_fl, _m, _r, _d)


def bind(app, reg: Registry, needed: set[tuple], tbatch=None) -> dict:
    """Register on `app` the (flavour, max_retries, retry_for, decl) functions a case uses.
    decl 't': max_retries passed as a task-level option (also when 0); 'a': not passed (app-level value applies).
    tbatch: task-level parallel_batch_size of every task (None = not passed).
    Returns the effective [max_retries, parallel_batch_size] per function, as the Task objects report them."""
    eff = {}
    for fl, mr, rf, decl in sorted(needed):
        name = fname(fl, mr, rf, decl)
        func = globals()[name]
        opts: dict = {}
        if decl == "t":
            opts["max_retries"] = mr
        if RETRY_FOR[rf] is not None:
            opts["retry_for"] = RETRY_FOR[rf]
        if tbatch is not None:
            opts["parallel_batch_size"] = tbatch
        if fl == "p":
            t = app.task(func, **opts)
            reg.plain[(mr, rf, decl)] = t
        elif fl == "d":
            w = app.direct_task(func, **opts)
            reg.direct[(mr, rf, decl)] = w
            t = w.__pynenc_task__
        else:
            w = app.direct_task(func, parallel_func=_parallel_func, aggregate_func=_aggregate, **opts)
            reg.dpar[(mr, rf, decl)] = w
            t = w.__pynenc_task__
        reg.task_of[name] = t
        eff[name] = [t.conf.max_retries, t.conf.parallel_batch_size]
    return eff

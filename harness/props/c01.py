"""C01 — lifecycle state machine; finals absorbing; both backends identical.

proof: Props/C01.v over the table generated from status.py:_CONFIG.
tie:   (1) exhaustive single-step space (15 current x 3 owners) x (14 requests x 3 requesters)
           on the pure status_record_transition, MemOrchestrator and SQLiteOrchestrator through
           the public set_invocation_status, against the model (impl_transition over the
           generated table) AND the hand-transcribed specification (doc_transition);
       (2) operation sequences (exhaustive short + seeded random) on both backends against
           Lifecycle.run, with an independent oracle on the observed traces.
"""
from __future__ import annotations

import itertools
import json
from datetime import UTC, datetime

from harness import world
from harness.common import Ctx
from harness.translate import status_table

GENERATED = [("harness.translate.status_table", "translate", "gen/StatusTable_gen.v"),
             ("harness.translate.atomicity", "translate", "gen/Atomicity_gen.v")]

MANIFEST = {
    "technique": "Coq proof over a table generated from status.py + exhaustive differential correspondence",
    "text": "Machine-checked theorems (Props/C01.v): the table regenerated from status.py:_CONFIG on every run, run through the "
            "mirror of status_record_transition, equals the hand-transcribed documented single step for ALL records/requests/"
            "requesters; finals absorbing; ownership enforced; owner-after rule; refused change leaves the system unchanged; for "
            "EVERY operation sequence the successful changes of each invocation form a documented path from REGISTERED (induction "
            "over the op list). Tie: the complete (15x3)x(14x3) single-step space is executed on the pure function, MemOrchestrator "
            "and SQLiteOrchestrator through set_invocation_status and compared with model and specification; sequences exhaustive "
            "to a short length + seeded random walks on both backends.",
    "note": "Trusted: Coq kernel; AST translator of _CONFIG (fail-closed); hand mirror of the three status.py functions (tied by the "
            "exhaustive single-step run + AST shape hash); runner universe {none,r1,r2} in the correspondence; state injection into "
            "the backends' stores for unreachable (status, owner) combinations.",
    "design_ref": "DESIGN.md §6 C01",
}

ST = status_table.STATUSES
RUNNERS = [None, "r1", "r2"]            # model: None, Some 1, Some 2
IMPORTS = ["Model.Status", "Model.StatusDef", "gen.StatusTable_gen", "Model.StatusImpl", "Model.Lifecycle"]


def coq_rid(r):
    return "None" if r is None else f"(Some {RUNNERS.index(r)})"


def coq_cur(cur):
    if cur is None:
        return "None"
    s, o = cur
    return f"(Some {{| st := {s}; owner := {coq_rid(o)}; ts := 0 |}})"


RENDER = ("(fun r => match r with TOk s o => [0; status_code s; match o with None => 0 | Some x => x end] "
          "| TErr ETransition => [1;0;0] | TErr EOwnership => [2;0;0] end)")


def decode(v):
    if v[0] == 0:
        return ("ok", ST[v[1]], RUNNERS[v[2]])
    return ("transition_error" if v[0] == 1 else "ownership_error", None, None)


def classify(ex: BaseException) -> str:
    from pynenc.exceptions import InvocationStatusOwnershipError, InvocationStatusTransitionError
    if isinstance(ex, InvocationStatusTransitionError):
        return "transition_error"
    if isinstance(ex, InvocationStatusOwnershipError):
        return "ownership_error"
    if isinstance(ex, KeyError):
        return "key_error"
    return "other:" + type(ex).__name__


def is_status_error(c: str) -> bool:
    return c in ("transition_error", "ownership_error")


# ---------------------------------------------------------------- implementation drivers
class Backend:
    """One real orchestrator with state injection for the single-step space."""

    def __init__(self, kind: str, scratch: str):
        from harness import tasks_basic
        self.kind = kind
        self.app = world.make_app(kind, scratch)
        self.task = tasks_basic.bind(self.app, tasks_basic.add_one)
        self.n = 0

    def new_invocation(self):
        from pynenc.arguments import Arguments
        from pynenc.call import Call
        from pynenc.invocation.dist_invocation import DistributedInvocation
        self.n += 1
        inv = DistributedInvocation.from_parent(Call(self.task, Arguments({"x": self.n})), None)
        self.app.orchestrator.register_new_invocations([inv])
        return inv.invocation_id

    def inject(self, inv_id, status: str, owner):
        from pynenc.invocation.status import InvocationStatus, InvocationStatusRecord
        st = InvocationStatus[status]
        ts = datetime(2020, 1, 1, 0, 0, 0, 123456, tzinfo=UTC)
        orch = self.app.orchestrator
        if self.kind == "mem":
            old = orch.invocation_status_record.get(inv_id)
            if old is not None:
                orch.status_index[old.status].discard(inv_id)
            orch.invocation_status_record[inv_id] = InvocationStatusRecord(st, owner, ts)
            orch.status_index[st].add(inv_id)
        else:
            from pynenc.util.sqlite_utils import create_sqlite_connection
            with create_sqlite_connection(orch.sqlite_db_path) as conn:
                conn.execute(
                    f"UPDATE {orch.tables.INVOCATIONS} SET status=?, status_runner_id=?, status_timestamp=? WHERE invocation_id=?",
                    (st.value, owner, ts.timestamp(), inv_id))
                conn.commit()

    def read(self, inv_id):
        try:
            r = self.app.orchestrator.get_invocation_status_record(inv_id)
        except KeyError:
            return None
        ts = r.timestamp.timestamp() if hasattr(r.timestamp, "timestamp") else float(r.timestamp)
        return (r.status.name, r.runner_id, ts)

    def set(self, inv_id, status: str, rid):
        from pynenc.invocation.status import InvocationStatus
        try:
            self.app.orchestrator.set_invocation_status(inv_id, InvocationStatus[status], world.runner_ctx(rid))
            return "ok"
        except BaseException as ex:  # noqa: BLE001 - classified, never swallowed silently
            return classify(ex)

    def flush(self):
        self.app.state_backend.wait_for_all_async_operations()
        self.app.state_backend.invocation_threads.clear()


def pure_step(cur, req, rid):
    from pynenc.invocation.status import InvocationStatus, InvocationStatusRecord, status_record_transition
    rec = None
    if cur is not None:
        rec = InvocationStatusRecord(InvocationStatus[cur[0]], cur[1], datetime(2020, 1, 1, tzinfo=UTC))
    try:
        n = status_record_transition(rec, InvocationStatus[req], rid)
        return ("ok", n.status.name, n.runner_id)
    except BaseException as ex:  # noqa: BLE001
        return (classify(ex), None, None)


def single_step_space():
    curs = [None] + [(s, o) for s in ST for o in RUNNERS]
    for cur in curs:
        reps = RUNNERS if cur is None else [None]    # (none, owner) x3 : the 15 x 3 of the statement
        for _ in reps:
            for req in ST:
                for rid in RUNNERS:
                    yield (cur, req, rid)


def run_single_steps(ctx: Ctx, scratch: str):
    cases = list(single_step_space())
    assert len(cases) == 15 * 3 * 14 * 3
    uniq = sorted(set(cases), key=cases.index)
    ctx.log(f"single-step space: {len(cases)} cases ({len(uniq)} distinct)")
    exprs_impl = [f"{RENDER} (impl_transition {coq_cur(c)} {q} {coq_rid(r)})" for c, q, r in uniq]
    exprs_doc = [f"{RENDER} (doc_transition {coq_cur(c)} {q} {coq_rid(r)})" for c, q, r in uniq]
    vals = ctx.coq_eval(IMPORTS, exprs_impl + exprs_doc, chunk=400)
    model = {k: decode(v) for k, v in zip(uniq, vals[:len(uniq)])}
    spec = {k: decode(v) for k, v in zip(uniq, vals[len(uniq):])}
    backends = {k: Backend(k, scratch) for k in ("mem", "sqlite")}
    unknown_n = itertools.count(1)
    stats = {"ok": 0, "transition_error": 0, "ownership_error": 0, "key_error": 0}
    n_eval = 0
    for case in uniq:
        cur, req, rid = case
        want = spec[case]
        # (i) the pure function
        got = pure_step(cur, req, rid)
        n_eval += 1
        if got != model[case]:
            ctx.notes.setdefault("model_vs_pure_disagreements", []).append([repr(case), got, model[case]])
        if got != want:
            report(ctx, "pure", case, got, want, None, None)
        # (ii),(iii) the orchestrators through set_invocation_status
        for kind, be in backends.items():
            n_eval += 1
            if cur is None:
                inv_id = f"unknown-{next(unknown_n)}"
                before = be.read(inv_id)
            else:
                if not hasattr(be, "_inv"):
                    be._inv = be.new_invocation()
                inv_id = be._inv
                be.inject(inv_id, cur[0], cur[1])
                before = be.read(inv_id)
                if before is None or (before[0], before[1]) != cur:
                    raise RuntimeError(f"state injection failed on {kind}: {before} != {cur}")
            out = be.set(inv_id, req, rid)
            after = be.read(inv_id)
            stats[out] = stats.get(out, 0) + 1
            if cur is None:
                # documented contract (BaseOrchestrator._atomic_status_transition): KeyError, nothing created
                got_o = (out, after)
                if got_o != ("key_error", None):
                    ctx.violation(
                        f"unknown-id:{kind}",
                        f"{kind}: set_invocation_status on an unknown invocation id ({req}) gives {out}, record afterwards {after}; "
                        "the base class documents KeyError and the SQLite backend raises it",
                        {"kind": "single_step", "backend": kind, "current": None, "request": req, "requester": rid,
                         "observed": [out, after], "expected": ["key_error", None]})
                continue
            if out == "ok":
                got = ("ok", after[0], after[1])
                ts_ok = after[2] != before[2]
            else:
                got = (out, None, None)
                ts_ok = after == before          # status, owner AND timestamp bit-identical
            if got != model[case]:
                ctx.notes.setdefault("model_vs_" + kind + "_disagreements", []).append([repr(case), got, model[case]])
            if got != want or not ts_ok:
                report(ctx, kind, case, got, want, before, after)
        if len(ctx.coverage["samples"]) < 4 and cur is not None and cur[0] in ("PENDING", "RUNNING") and rid != cur[1]:
            ctx.sample({"current": cur, "request": req, "requester": rid, "spec": want, "pure": got})
    for be in backends.values():
        be.flush()
    ctx.count(n_eval, len(uniq))
    ctx.notes["single_step"] = {"cases": len(cases), "distinct": len(uniq), "executions": n_eval,
                                "outcomes_on_backends": stats, "exhaustive": True}


def report(ctx: Ctx, where, case, got, want, before, after):
    cur, req, rid = case
    # property-level verdict: success/failure + record; the error *class* is not part of C01
    same_kind = (got[0] == "ok") == (want[0] == "ok") and (got[0] == "ok" or is_status_error(got[0])) \
        and (got[0] != "ok" or got == want) and (before is None or got[0] == "ok" or before == after)
    if same_kind:
        ctx.notes.setdefault("error_class_differences", []).append([where, repr(case), got[0], want[0]])
        return
    key = f"step:{where}:{cur[0] if cur else 'NONE'}->{req}"
    ctx.violation(key,
                  f"{where}: current={cur} request={req} by {rid}: observed {got} (record {before} -> {after}), documented {want}",
                  {"kind": "single_step", "backend": where, "current": cur, "request": req, "requester": rid,
                   "observed": got, "expected": want, "before": before, "after": after})


# ---------------------------------------------------------------- sequences
SEQ_STATUSES = ["PENDING", "RUNNING", "RETRY", "SUCCESS", "KILLED", "REROUTED"]


def gen_sequences(ctx: Ctx):
    alpha = [(i, s, r) for i in (0, 1) for s in SEQ_STATUSES for r in ("r1", "r2")]
    n_exh = 3 if ctx.thorough else 2
    seqs = [list(p) for n in range(1, n_exh + 1) for p in itertools.product(alpha, repeat=n)]
    n_rand = 3000 if ctx.thorough else 300
    full = [(i, s, r) for i in (0, 1, 2) for s in ST for r in RUNNERS]
    rng = ctx.rng
    for _ in range(n_rand):
        n = rng.randint(3, 40)
        seq = []
        # mostly-valid walk: 70% pick a request that is legal for the tracked status, 30% anything
        cur = {0: ("REGISTERED", None), 1: ("REGISTERED", None), 2: None}
        for _ in range(n):
            if rng.random() < 0.7:
                i = rng.choice((0, 1))
                s, o = cur[i]
                legal = [b for (a, b) in DOC_EDGES if a == s]
                if legal:
                    req = rng.choice(legal)
                    rid = o if (s in ("PENDING", "RUNNING", "PAUSED", "RESUMED") and rng.random() < 0.85) else rng.choice(("r1", "r2"))
                    seq.append((i, req, rid))
                    # optimistic tracking (refusals simply leave it stale; only a generator heuristic)
                    if s not in ("PENDING", "RUNNING", "PAUSED", "RESUMED") or rid == o or req.endswith("RECOVERY"):
                        no = rid if req == "PENDING" else (o if req in ("RUNNING", "PAUSED", "RESUMED") else None)
                        cur[i] = (req, no)
                    continue
            seq.append(rng.choice(full))
        seqs.append(seq)
    return seqs


DOC_EDGES: list = []


def run_sequences(ctx: Ctx, scratch: str):
    global DOC_EDGES
    edges = ctx.coq_eval(["Model.Status"], ["map (fun e => (status_code (fst e), status_code (snd e))) doc_edges"])[0]
    DOC_EDGES = [(ST[a], ST[b]) for a, b in edges]
    finals = {"SUCCESS", "FAILED", "CONCURRENCY_CONTROLLED_FINAL"}
    seqs = gen_sequences(ctx)
    # model: ids 0,1 registered up front (creator = the client's own runner context, code 3), id 2 never registered
    def coq_ops(seq):
        ops = ["ORegister 0 (Some 3)", "ORegister 1 (Some 3)"] + [f"OSet {i} {s} {coq_rid(r)}" for i, s, r in seq]
        return "[" + "; ".join(ops) + "]"
    render = ("(fun ops => let (s, outs) := run impl_transition sys0 ops in "
              "(map (fun o => match o with OutOk => 0 | OutErr ETransition => 1 | OutErr EOwnership => 2 | OutKey => 3 end) outs, "
              "map (fun i => match lookup i (recs s) with None => [99;0] | Some r => [status_code (st r); match owner r with None => 0 | Some x => x end] end) [0;1;2]))")
    vals = ctx.coq_eval(IMPORTS, [f"{render} {coq_ops(s)}" for s in seqs], chunk=250)
    code = {"ok": 0, "transition_error": 1, "ownership_error": 2, "key_error": 3}
    n_exec = 0
    lens = {}
    for kind in ("mem", "sqlite"):
        be = Backend(kind, scratch)
        for seq, (m_outs, m_final) in zip(seqs, vals):
            ids = {0: be.new_invocation(), 1: be.new_invocation(), 2: f"never-{be.n}"}
            outs, trace = [0, 0], {0: ["REGISTERED"], 1: ["REGISTERED"]}
            bad = None
            for (i, s, r) in seq:
                before = be.read(ids[i])
                out = be.set(ids[i], s, r)
                after = be.read(ids[i])
                outs.append(code.get(out, 9))
                # independent oracle on the observed trace
                if out == "ok":
                    if before is None or (before[0], s) not in DOC_EDGES or after[0] != s:
                        bad = bad or f"accepted change {before} -> {s} by {r} is not a documented edge"
                    elif before[0] in finals:
                        bad = bad or f"final status {before[0]} was left"
                    elif before[0] in ("PENDING", "RUNNING", "PAUSED", "RESUMED") and r != before[1] and not s.endswith("_RECOVERY"):
                        bad = bad or f"{before} moved to {s} by non-owner {r}"
                    else:
                        trace[i].append(s)
                elif before != after:
                    bad = bad or f"refused request ({out}) changed the record {before} -> {after}"
                elif i != 2 and not is_status_error(out):
                    bad = bad or f"refused request raised {out}, not a status error"
                elif i == 2 and out != "key_error" and "unknown-id:" + kind not in ctx._known:
                    bad = bad or f"unknown id gave {out}"
            n_exec += 1
            lens[len(seq)] = lens.get(len(seq), 0) + 1
            final = [[99, 0] if (x := be.read(ids[i])) is None else [ST.index(x[0]), RUNNERS.index(x[1]) if x[1] in RUNNERS else 3] for i in (0, 1, 2)]
            if bad:
                ctx.violation(f"seq:{kind}:{bad.split(' ')[0]}", f"{kind}: {bad}",
                              {"kind": "sequence", "backend": kind, "ops": seq, "why": bad})
            elif (outs != m_outs or final != m_final):
                # model and implementation disagree although the oracle is satisfied
                only_class = [0 if o == 0 else 1 for o in outs] == [0 if o == 0 else 1 for o in m_outs] and final == m_final
                if only_class:
                    ctx.notes.setdefault("error_class_differences", []).append([kind, "sequence", outs, m_outs])
                else:
                    ctx.violation(f"seq:{kind}:model-mismatch",
                                  f"{kind}: sequence outcome differs from the lifecycle model: impl outs={outs} final={final}, model outs={m_outs} final={m_final}",
                                  {"kind": "sequence", "backend": kind, "ops": seq, "impl": [outs, final], "model": [m_outs, m_final]})
            if kind == "mem" and len(ctx.coverage["samples"]) < 6 and len(seq) > 6:
                ctx.sample({"ops": seq[:12], "outcomes": outs[:14], "final": final})
            if n_exec % 200 == 0:
                be.flush()
        be.flush()
    nontrivial = len({json.dumps(s) for s in seqs if any(True for _ in s)})
    ctx.count(n_exec, nontrivial)
    ctx.notes["sequences"] = {"sequences": len(seqs), "executions": n_exec,
                              "length_histogram": {str(k): v for k, v in sorted(lens.items())},
                              "exhaustive_up_to_length": 3 if ctx.thorough else 2,
                              "alphabet": "2 ids x 6 statuses x 2 requesters (exhaustive part); 3 ids x 14 x 3 (random part)"}


def run_two_requesters(ctx: Ctx, scratch: str):
    """each status change is ONE step: two real requesters on one invocation, interleaved at SQL-statement (SQLite) and
    source-line (in-memory) granularity; the committed changes of the invocation must follow documented edges"""
    from harness import sched as S
    from harness.props import c02
    c02.EDGES = c02.D.doc_edges(ctx)
    total = 0
    for sc, runs in (({"n": 1, "dups": [0], "block": [], "limit": 1, "actors": 2, "run": False}, 400 if ctx.thorough else 120),
                     # a holder on its way to RUNNING, the pending-recovery task taking the invocation back, another runner claiming it
                     ({"n": 1, "dups": [], "block": [], "limit": 1, "actors": 2, "run": True, "recover": True}, 1500 if ctx.thorough else 1200)):
        for kind in ("mem", "sqlite"):
            if sc.get("recover") and kind == "mem" and not ctx.thorough:
                continue
            n = 0
            for schedule, out in S.explore(lambda p: c02.run_one(kind, scratch, sc, p), max_preemptions=2, max_runs=runs, preempt_at=c02.critical):
                n += 1
                if out["verdict"]:
                    ctx.violation(f"two-requesters:{kind}", f"{kind}: requesters racing on one invocation: {out['verdict']}",
                                  {"kind": "two_requesters", "backend": kind, "scenario": sc, "schedule": schedule, "observed": out})
                    break
            total += n
    ctx.count(total, total)
    ctx.notes["two_requesters"] = {"schedules": total, "bound": "DFS <= 2 pre-emptions around the transition"}


def main(ctx: Ctx) -> int:
    world.quiet()
    info = ctx.translate("status_table", status_table.translate, "gen/StatusTable_gen.v")
    if info.get("shape_changed"):
        ctx.log("status.py function shapes changed:", info["shape_changed"], "- relying on the exhaustive correspondence")
    from harness.translate import atomicity
    ctx.translate("atomicity", atomicity.translate, "gen/Atomicity_gen.v")
    ctx.prove("Props/C01.v")
    scratch = world.scratch_dir()
    try:
        run_single_steps(ctx, scratch)
        run_sequences(ctx, scratch)
        run_two_requesters(ctx, scratch)
    finally:
        world.rm_scratch(scratch)
    ctx.assumptions += [
        "runner universe {none, r1, r2} in the correspondence (the theorems quantify over all runner ids)",
        "timestamps compared only for (in)equality before/after a request",
        "state injection writes MemOrchestrator.invocation_status_record/status_index and the SQLite invocations row directly (the 15x3 current states include unreachable ones)",
    ]
    return ctx.finish(
        rule="single-step: complete enumeration of (15 current x 3 owners) x (14 requests x 3 requesters) on pure fn + both orchestrators; "
             "sequences: all sequences up to the stated length over the reduced alphabet + seeded mostly-valid random walks; "
             "distinct_nontrivial = distinct single-step cases + distinct non-empty sequences")


def replay(ctx: Ctx, path: str) -> int:
    world.quiet()
    rp = json.load(open(path))["replay"]
    scratch = world.scratch_dir()
    try:
        be = Backend(rp["backend"] if rp["backend"] in ("mem", "sqlite") else "mem", scratch)
        if rp["kind"] == "two_requesters":
            from harness.props import c02
            c02.EDGES = c02.D.doc_edges(ctx)
            _, out = c02.run_one(rp["backend"], scratch, rp["scenario"], rp["schedule"])
            print(json.dumps(out, indent=1, default=str))
            return 0
        if rp["kind"] == "single_step":
            cur, req, rid = rp["current"], rp["request"], rp["requester"]
            if rp["backend"] == "pure":
                print("observed", pure_step(tuple(cur) if cur else None, req, rid), "expected", rp["expected"])
                return 0
            inv = be.new_invocation() if cur else "unknown-replay"
            if cur:
                be.inject(inv, cur[0], cur[1])
            before = be.read(inv)
            out = be.set(inv, req, rid)
            print("before", before, "outcome", out, "after", be.read(inv), "expected", rp["expected"])
        else:
            ids = {0: be.new_invocation(), 1: be.new_invocation(), 2: "never"}
            for i, s, r in rp["ops"]:
                b = be.read(ids[i])
                print(i, s, r, "->", be.set(ids[i], s, r), b, be.read(ids[i]))
        be.flush()
    finally:
        world.rm_scratch(scratch)
    return 0

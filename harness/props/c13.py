"""C13 — a satisfied trigger condition launches its task exactly once.

proof: Props/C13.v over Model/Trigger.v + Model/Cron.v instantiated with the facts regenerated from
       pynenc/trigger/*.py on every run (gen/Trigger_gen.v).
tie:   (1) trigger configurations x occurrence histories on MemTrigger and SQLiteTrigger (real
           emit_event / report_* / orchestrator.set_invocation_result|exception / trigger_loop_iteration,
           virtual clock; default and small configured max_events_batch_size; bursts larger than the batch
           size and larger than 100) against Trigger.run;
       (2) two concurrent trigger_loop_iteration calls: every single pre-emption point at SQL-statement
           granularity (SQLite) / source-line granularity (in-memory), for the run claim and for the cron
           compare-and-swap, against Trigger.crun / Trigger.casrun with the generated atomicity facts;
       (3) CronCondition._is_satisfied_by and poll sequences on both stores against Cron.cron_sat / polls
           fed with an independent brute-force 5-field schedule evaluator;
       (2b) in-memory store, two threads: a reporter traced line by line inside pynenc/trigger/** x a loop
           iteration of another thread (whole, or paused at sampled lines and finished after the reporter);
       (4) 2-3 runner processes (app objects with their own last-execution caches) polling one SQLite store
           in alternating / random / block order against Cron.mr_polls.
An oracle written from the property statement is evaluated on the implementation's observations.
"""
from __future__ import annotations

import itertools
import json
import sqlite3
import sys
import threading
from datetime import UTC, datetime, timedelta

from harness import world
from harness.common import Ctx
from harness.translate import trigger as trigger_tr

GENERATED = [("harness.translate.trigger", "translate", "gen/Trigger_gen.v")]

MANIFEST = {
    "technique": "Coq proof over a trigger-loop model parameterised by facts generated from the trigger sources + differential "
                 "correspondence (histories, single-pre-emption interleavings of two loops, cron polls) on both stores",
    "text": "Machine-checked theorems (Props/C13.v) about Model/Trigger.v and Model/Cron.v instantiated with the facts read from "
            "base_trigger.py, trigger_definitions.py, argument_providers.py, mem_trigger.py, sqlite_trigger.py and conditions/*.py "
            "on every run: per-occurrence triggers launch exactly once per pending occurrence with that occurrence's arguments "
            "(full statement under the per-occurrence fact, partial for a single pending occurrence, refuted otherwise); AND "
            "triggers launch only with every condition pending and an occurrence stays pending only while a dependent trigger is "
            "unsatisfied; with an atomic claim no schedule of any number of loops launches a run id twice (instantiated for the "
            "in-memory lock; refuted for a split read/write); compare-and-swap that refuses a stale expectation fires once per "
            "stored value; cron: a poll fires only inside a window of a scheduled minute, every scheduled minute yields at most "
            "one occurrence in any poll sequence, and a poll attributed to a scheduled minute inside the window with an old enough "
            "previous firing does fire; with the stored last execution read on every poll (generated fact) any assignment of polls "
            "to runners with their own caches gives the outcomes of one runner polling alone (refuted when the cache is trusted: a "
            "tick is lost); both stores hand every pending valid condition to the iteration (generated facts; bounded read refuted: "
            "surplus unlaunched, stuck AND occurrences starve later ones); an occurrence report reaches the conditions of its own "
            "kind only (generated exact context-type filter facts; refuted for a subclass filter). Tie: histories over 1-3 "
            "conditions of mixed kinds and 1-3 AND/OR triggers on both stores, occurrences reported directly and through whole "
            "finished invocations (orchestrator.set_invocation_result / set_invocation_exception: final status + result / exception "
            "of one invocation), default and small (1-4) configured max_events_batch_size, bursts of more pending occurrences than "
            "the batch size (and 130 with the default configuration) including occurrences stuck in unsatisfied AND triggers; "
            "all single pre-emption points of two real trigger_loop_iteration calls; on the in-memory store every source line of a "
            "reporter thread (event / status report) x a loop iteration of a second thread run whole or paused at sampled lines "
            "(each occurrence launched exactly once, nothing left pending; generated fact: the pending dict is never re-bound, "
            "theorem concurrent_record_survives_clear_mem, refuted for a re-binding clear); cron expression family x settings x poll "
            "sequences against a brute-force schedule evaluator, on one trigger object per store and on 2-3 runner objects with "
            "separate caches sharing one SQLite store.",
    "note": "Trusted: Coq kernel; AST translator (fail-closed); SHA-256 run ids modelled as (trigger, set of valid-condition keys) "
            "(injectivity assumed); croniter tied to the brute-force evaluator only on the generated family; SQLite statement "
            "atomicity and `BEGIN IMMEDIATE` exclusion; CPython pre-emption between source lines; interleavings explored with one "
            "pre-emption (loop B runs to completion at every statement/line of loop A); several runners with separate caches "
            "are real app objects on one SQLite file polled sequentially (the in-memory store cannot be shared by processes).",
    "design_ref": "DESIGN.md §6 C13",
}

IMPORTS = ["Model.TriggerDef", "gen.Trigger_gen", "Model.Trigger", "Model.Cron"]
# the boolean fields of Model/TriggerDef.v:facts (read back from the model when the translator is degraded)
BOOL_FACTS = ["claim_guards_launch", "clear_after_launch", "per_occurrence", "or_runid_per_occurrence", "and_runid_joins_all",
              "args_first_match", "mem_claim_locked", "sqlite_claim_immediate", "mem_cas_locked", "sqlite_cas_immediate",
              "mem_cas_rejects_none", "sqlite_cas_rejects_none", "exc_ctx_has_invocation", "status_ctx_inv_and_status",
              "cron_window_inclusive", "cron_min_interval_strict", "cron_first_poll_checked", "cron_storage_read_always",
              "mem_source_filter_exact", "sqlite_source_filter_exact", "mem_pending_read_complete",
              "sqlite_pending_read_complete", "mem_pending_in_place"]
KINDS = ["event", "status", "result", "exception", "cron"]
STATUSES = ["RUNNING", "RETRY", "SUCCESS", "FAILED"]      # what the status conditions watch; o_aux of a status occurrence
_EXC_CACHE: dict = {}


def exc_type(aux: int):
    """aux 0 -> ValueError; any other code -> a distinct exception class ErrN"""
    if aux == 0:
        return ValueError
    if aux not in _EXC_CACHE:
        _EXC_CACHE[aux] = type(f"Err{aux}", (Exception,), {})
    return _EXC_CACHE[aux]
T0 = datetime(2031, 3, 4, 10, 0, 0, tzinfo=UTC)


# ------------------------------------------------------------------ virtual clock
class Clock:
    def __init__(self):
        self.t = T0
        self.tick = timedelta(0)

    def now(self):
        v = self.t
        self.t = self.t + self.tick
        return v


CLOCK = Clock()


class FakeDT(datetime):
    @classmethod
    def now(cls, tz=None):
        return CLOCK.now()


def patch_clock():
    import pynenc.trigger.base_trigger as bt
    import pynenc.trigger.mem_trigger as mt
    import pynenc.trigger.sqlite_trigger as st
    for m in (bt, mt, st):
        m.datetime = FakeDT


# ------------------------------------------------------------------ implementation world
class TrigWorld:
    """One real app (mem or sqlite) with the triggers of a configuration registered."""

    def __init__(self, kind: str, scratch: str, trigs: list[dict], app_id: str | None = None, register: bool = True,
                 batch: int | None = None):
        from harness import tasks_c13 as T
        from pynenc.invocation.status import InvocationStatus
        from pynenc.trigger.trigger_builder import TriggerBuilder
        self.kind = kind
        custom = {} if batch is None else {"max_events_batch_size": batch}     # a trigger configuration value
        self.app = world.make_app(kind, scratch, app_id=app_id, **custom)
        self.trg = self.app.trigger
        self.targets = [self.app.task(f) for f in (T.target, T.target_b, T.target_c)]
        self.sources = [self.app.task(f) for f in (T.source, T.source_b)]
        self.trigs = trigs
        self.launches: list = []          # (trigger index, args dict)
        self.invs: dict = {}
        cb = {0: "with_args_from_event", 1: "with_args_from_status", 2: "with_args_from_result",
              3: "with_args_from_exception"}
        fn = {0: T.args_from_event, 1: T.args_from_status, 2: T.args_from_result, 3: T.args_from_exception,
              4: T.args_from_cron}
        if register:
            for i, t in enumerate(trigs):
                b = TriggerBuilder()
                for c in t["conds"]:
                    k, idx = c % 5, c // 5
                    if k == 0:
                        b.on_event(f"e{idx}")
                    elif k == 1:
                        b.on_status(self.sources[idx], [InvocationStatus[x] for x in STATUSES])
                    elif k == 2:
                        b.on_any_result(self.sources[idx])
                    elif k == 3:
                        b.on_exception(self.sources[idx])
                    else:
                        b.add_condition(t["cron"])
                if t.get("logic"):
                    b.with_logic(t["logic"])
                if t.get("static"):
                    b.with_args_static({"x": "static", "src": "static"})
                for k in t.get("prov", []):
                    if k == 4:
                        from pynenc.trigger.arguments.argument_providers import ContextTypeArgumentProvider
                        from pynenc.trigger.conditions import CronContext
                        b.with_args_provider(ContextTypeArgumentProvider(CronContext, fn[4]))
                    else:
                        getattr(b, cb[k])(fn[k])
                self.trg.register_task_triggers(self.targets[i], [b])
        self.task_index = {t.task_id: i for i, t in enumerate(self.targets)}
        orig = self.trg.execute_task

        def rec(task_id, arguments=None, _o=orig):
            self.launches.append((self.task_index[task_id], dict(arguments or {})))
            return _o(task_id, arguments)
        self.trg.execute_task = rec

    def invocation(self, src_idx: int, j: int):
        from pynenc.arguments import Arguments
        from pynenc.call import Call
        from pynenc.invocation.dist_invocation import DistributedInvocation
        key = (src_idx, j)
        if key not in self.invs:
            inv = DistributedInvocation.from_parent(Call(self.sources[src_idx], Arguments({"n": 1000 + j, "fail": 0})), None)
            self.app.orchestrator.register_new_invocations([inv])
            self.invs[key] = inv
        return self.invs[key]

    def occurrence(self, o: dict):
        """o = {cid, src, aux, n}"""
        from pynenc.invocation.status import InvocationStatus
        k, idx = o["cid"] % 5, o["cid"] // 5
        if k == 0:
            self.trg.emit_event(f"e{idx}", {"n": o["n"]})
        elif k == 1:
            inv = self.invocation(idx, o["src"])
            self.trg.report_tasks_status([inv.invocation_id], InvocationStatus[STATUSES[o["aux"]]])
        elif k == 2:
            inv = self.invocation(idx, o["src"])
            self.drive(inv, ["PENDING", "RUNNING", "SUCCESS"])
            self.trg.report_invocation_result(inv, o["n"])
        elif k == 3:
            inv = self.invocation(idx, o["src"])
            self.drive(inv, ["PENDING", "RUNNING", "FAILED"])
            self.trg.report_invocation_failure(inv, exc_type(o["aux"])(f"boom{o['n']}"))

    def finish(self, f: dict):
        """f = {idx, src, ok, aux, n}: a running source invocation ends through the orchestrator's own entry points
        (set_invocation_result / set_invocation_exception): the status change AND the result / exception are reported
        by the real code, nothing is suppressed"""
        inv = self.invocation(f["idx"], f["src"])
        self.drive(inv, ["PENDING", "RUNNING"])
        rc = world.runner_ctx("r1")
        if f["ok"]:
            self.app.orchestrator.set_invocation_result(inv, f["n"], rc)
        else:
            self.app.orchestrator.set_invocation_exception(inv, exc_type(f["aux"])(f"boom{f['n']}"), rc)

    def drive(self, inv, statuses):
        """move a source invocation through real status changes without reporting them as occurrences"""
        from pynenc.invocation.status import InvocationStatus
        rc = world.runner_ctx("r1")
        real = self.trg.report_tasks_status
        self.trg.report_tasks_status = lambda *a, **k: None
        try:
            for s in statuses:
                if self.app.orchestrator.get_invocation_status(inv.invocation_id).name != s:
                    self.app.orchestrator.set_invocation_status(inv.invocation_id, InvocationStatus[s], rc)
        finally:
            self.trg.report_tasks_status = real

    def pending(self) -> int:
        return len(self.trg.get_valid_conditions())

    def flush(self):
        try:
            self.app.state_backend.wait_for_all_async_operations()
            self.app.state_backend.invocation_threads.clear()
        except Exception:  # noqa: BLE001 - best-effort cleanup of the async history writer
            pass


def payload_of(o: dict):
    """what the argument callbacks of tasks_c13 return as x for this occurrence"""
    k = o["cid"] % 5
    if k == 0:
        return o["n"]
    if k == 1:
        return f"{1000 + o['src']}:{STATUSES[o['aux']]}"
    if k == 2:
        return o["n"]
    return f"{1000 + o['src']}:{exc_type(o['aux']).__name__}"


def fin_occs(trigs, f: dict) -> list[dict]:
    """the occurrences the statement sees in one finished invocation, for the conditions the configuration has:
    its status change (SUCCESS / FAILED) and its result or its exception"""
    conds = {c for t in trigs for c in t["conds"]}
    base = 5 * f["idx"]
    out = []
    if base + 1 in conds:
        out.append({"cid": base + 1, "src": f["src"], "aux": 2 if f["ok"] else 3, "n": f["n"]})
    if f["ok"] and base + 2 in conds:
        out.append({"cid": base + 2, "src": f["src"], "aux": 0, "n": f["n"]})
    if not f["ok"] and base + 3 in conds:
        out.append({"cid": base + 3, "src": f["src"], "aux": f["aux"], "n": f["n"]})
    return out


def expand_ops(trigs, ops) -> list:
    """ops as the model and the oracle see them: every `fin` replaced by its elementary occurrences"""
    out = []
    for op in ops:
        if op[0] == "fin":
            out += [("occ", o) for o in fin_occs(trigs, op[1])]
        else:
            out.append(op)
    return out


# ------------------------------------------------------------------ model rendering
def coq_tdef(i: int, t: dict) -> str:
    logic = "LOr" if t.get("logic") == "or" else "LAnd"
    return ("{| t_id := %d; t_conds := [%s]; t_logic := %s; t_static := %s; t_prov := [%s] |}"
            % (i, "; ".join(str(c) for c in t["conds"]), logic, "true" if t.get("static") else "false",
               "; ".join(str(k) for k in t.get("prov", []))))


def coq_op(op) -> str:
    if op[0] == "occ":
        o = op[1]
        return "ORecord %d {| o_kind := %d; o_src := %d; o_aux := %d; o_n := %d |}" % (
            o["cid"], o["cid"] % 5, o["n"] if o["cid"] % 5 == 0 else o["src"], o["aux"], o["n"])
    if op[0] == "iter":
        return "OIter"
    return f"OAdvance {op[1]}%Z"


def coq_case(trigs, ops, to_end: bool) -> str:
    tl = "[" + "; ".join(coq_tdef(i, t) for i, t in enumerate(trigs)) + "]"
    ol = "[" + "; ".join(coq_op(o) for o in ops) + "]"
    keys = ("map (fun o => match o with ORecord c oc => c :: ctx_id gen_facts oc | _ => [] end) " + ol)
    return f"(render (run gen_facts {'true' if to_end else 'false'} {tl} {ol}), {keys})"


# ------------------------------------------------------------------ generators
def per_occurrence_trigger(t: dict) -> bool:
    return t.get("logic") == "or" or len(t["conds"]) == 1


def gen_config(rng, n_conds=None) -> list[dict]:
    universe = [0, 5, 1, 6, 2, 7, 3, 8]
    conds = rng.sample(universe, n_conds or rng.randint(1, 3))
    trigs = []
    for _ in range(rng.randint(1, 3)):
        cs = rng.sample(conds, rng.randint(1, len(conds)))
        logic = rng.choice(["or", "and", None]) if len(cs) > 1 else rng.choice([None, None, "or", "and"])
        t = {"conds": cs, "logic": logic}
        r = rng.random()
        if r < 0.15:
            t["static"] = True
        elif r < 0.3:
            pass
        else:
            ks = sorted({c % 5 for c in cs})
            rng.shuffle(ks)
            # ResultContext and ExceptionContext are StatusContexts: a status provider placed before them would take
            # their occurrences too; the generated configurations keep the status provider last
            t["prov"] = [k for k in ks if k != 1] + [k for k in ks if k == 1]
        trigs.append(t)
    return trigs


def clean_config(trigs) -> bool:
    """conditions of a multi-condition AND trigger are not shared with any other trigger"""
    for i, t in enumerate(trigs):
        if not per_occurrence_trigger(t):
            for j, u in enumerate(trigs):
                if i != j and set(t["conds"]) & set(u["conds"]):
                    return False
    return True


class Serial:
    def __init__(self):
        self.n = 0

    def next(self):
        self.n += 1
        return self.n


def fresh_occ(cid: int, ser: Serial) -> dict:
    n = ser.next()
    return {"cid": cid, "src": n, "aux": 0, "n": n}


def gen_history(rng, trigs, klass: str) -> list:
    """rounds of occurrences followed by a loop iteration.
    clean: every per-occurrence trigger sees at most one relevant new occurrence per round (and, the configuration being
           clean, nothing is left pending for it); multi: several occurrences of the same trigger pending together."""
    conds = sorted({c for t in trigs for c in t["conds"]})
    ser = Serial()
    ops = []

    def clash(cs, chosen):
        return klass == "clean" and any(per_occurrence_trigger(t) and c in t["conds"] and any(d in t["conds"] for d in chosen)
                                        for c in cs for t in trigs)
    for _ in range(rng.randint(1, 4)):
        chosen, acts = [], []
        for c in rng.sample(conds, len(conds)):
            if rng.random() < 0.6:
                reps = 2 if klass == "multi" and rng.random() < 0.6 else 1
                for _r in range(reps):
                    # status / result / exception occurrences: half of them through a whole finished invocation (the
                    # orchestrator reports the final status AND the result / exception of the same invocation)
                    if c % 5 in (1, 2, 3) and rng.random() < 0.5:
                        ok = (c % 5 == 2) if c % 5 != 1 else rng.random() < 0.5
                        n = ser.next()
                        f = {"idx": c // 5, "src": n, "ok": ok, "aux": 0 if ok else n, "n": n}
                        cs = [o["cid"] for o in fin_occs(trigs, f)]
                        if len(set(cs)) > 1 and (klass == "clean" and any(
                                per_occurrence_trigger(t) and sum(1 for x in cs if x in t["conds"]) > 1 for t in trigs)):
                            continue
                        if clash(cs, chosen):
                            continue
                        chosen += cs
                        acts.append(("fin", f))
                        continue
                    if clash([c], chosen):
                        continue
                    chosen.append(c)
                    o = fresh_occ(c, ser)
                    if c % 5 == 1:
                        o["aux"] = rng.randint(0, 1)
                    if c % 5 == 3:
                        o["aux"] = o["n"]    # a distinct exception type per occurrence (same-type failures: targeted witness)
                    acts.append(("occ", o))
        ops += acts
        ops.append(("iter",))
        if rng.random() < 0.3:
            ops.append(("adv", rng.choice([1, 10, 30])))
            ops.append(("iter",))
    return ops


def gen_burst(rng, trigs, batch: int) -> list:
    """more occurrences pending than the configured batch size when a loop iteration runs: first `batch` (or more)
    occurrences of one condition of every multi-condition AND trigger (they legitimately stay pending), then a burst
    for the per-occurrence triggers, then the missing AND partners"""
    ser = Serial()
    ops = []
    ands = [t for t in trigs if not per_occurrence_trigger(t)]
    per = sorted({c for t in trigs if per_occurrence_trigger(t) for c in t["conds"]})

    def occ(c):
        o = fresh_occ(c, ser)
        if c % 5 == 3:
            o["aux"] = o["n"]
        return ("occ", o)
    for t in ands:
        ops += [occ(t["conds"][0]) for _ in range(batch + rng.randint(0, 1))]
    if ands:
        ops.append(("iter",))
    if per:
        for _ in range(rng.randint(batch + 1, 2 * batch + 2)):
            ops.append(occ(rng.choice(per)))
        ops.append(("iter",))
    for t in ands:
        ops += [occ(c) for c in t["conds"][1:]]
    if ands:
        ops.append(("iter",))
    if per:
        ops.append(occ(rng.choice(per)))
    ops.append(("iter",))
    return ops


# ------------------------------------------------------------------ histories: run + oracle
def run_history_impl(w: TrigWorld, ops) -> dict:
    CLOCK.t, CLOCK.tick = T0, timedelta(0)
    rounds = []            # per iteration: launches made, pending count before/after
    for op in ops:
        if op[0] == "occ":
            w.occurrence(op[1])
        elif op[0] == "fin":
            w.finish(op[1])
        elif op[0] == "adv":
            CLOCK.t = CLOCK.t + timedelta(seconds=op[1])
        else:
            before = len(w.launches)
            pb = w.pending()
            w.trg.trigger_loop_iteration()
            rounds.append({"launches": w.launches[before:], "pending_before": pb, "pending_after": w.pending()})
    return {"launches": list(w.launches), "rounds": rounds,
            "pending": sorted(w.trg.get_valid_conditions().keys())}


def canon_impl(trigs, ops, res, keys) -> list:
    """implementation launches -> the model's rendering [tid, tag, key...] using the per-op keys the model computed"""
    by_payload = {}
    for op, k in zip(ops, keys):
        if op[0] == "occ":
            by_payload[(op[1]["cid"] % 5, payload_of(op[1]))] = k
    out = []
    for tid, a in res["launches"]:
        if not a:
            out.append([tid, 0])
        elif a.get("src") == "static":
            out.append([tid, 1])
        else:
            k = by_payload.get((KINDS.index(a["src"]), a["x"]))
            out.append([tid, 2] + (k if k is not None else [-1]))
    return sorted(out)


def oracle_history(trigs, ops, res) -> list[tuple[str, str]]:
    """property statement on the implementation's observations (no model involved).
    Returns (signature, message) for every deviation."""
    bad = []
    # split ops into rounds ending with an iteration
    rounds_ops, cur = [], []
    for op in ops:
        if op[0] == "iter":
            rounds_ops.append(cur)
            cur = []
        elif op[0] == "occ":
            cur.append(op[1])
    carried = {i: [] for i in range(len(trigs))}      # AND triggers: occurrences waiting for the other conditions
    for rops, robs in zip(rounds_ops, res["rounds"]):
        for i, t in enumerate(trigs):
            mine = [o for o in rops if o["cid"] in t["conds"]]
            got = [a for tid, a in robs["launches"] if tid == i]
            if per_occurrence_trigger(t):
                covered = bool(t.get("prov")) and not t.get("static")
                want = sorted(str(payload_of(o)) for o in mine)
                have = sorted(str(a.get("x")) for a in got)
                shape = ("or" if t.get("logic") == "or" else "single") + ("-multi" if len(mine) > 1 else "")
                if len(got) != len(mine):
                    bad.append((f"{shape}:count:{len(mine)}->{len(got)}" if len(mine) <= 1 else
                                f"{shape}:count:k->{'1' if len(got) == 1 else ('0' if not got else 'other')}",
                                f"trigger {i} {t}: {len(mine)} occurrence(s) this round, {len(got)} launch(es) {got}"))
                elif covered and want != have:
                    bad.append((f"{shape}:args", f"trigger {i} {t}: occurrences {want} launched with {have}"))
            else:
                carried[i] += mine
                have_all = all(any(o["cid"] == c for o in carried[i]) for c in t["conds"])
                if have_all:
                    if len(got) != 1:
                        bad.append((f"and:count:all-present->{len(got)}", f"AND trigger {i} {t}: every condition pending, {len(got)} launches"))
                    carried[i] = []
                elif got:
                    bad.append(("and:launched-without-all", f"AND trigger {i} {t}: launched {got} with only {[o['cid'] for o in carried[i]]} pending"))
    # consumption: in a clean configuration nothing stays pending except occurrences waiting in an AND trigger
    expect_pending = sum(len({(o["cid"], o["n"]) for o in v}) for v in carried.values())
    if clean_config(trigs) and len(res["pending"]) != expect_pending:
        bad.append(("consume", f"{len(res['pending'])} valid conditions pending at the end, {expect_pending} expected"))
    return bad


KNOWN_MULTI = {
    "or-multi:args": "or-multi:args",
    "single-multi:count:k->1": "single-multi:count:k->1",
}


BIG_BURST = 130          # more than any plausible built-in batch / page size (the configuration default is 100)


def run_histories(ctx: Ctx, scratch: str):
    rng = ctx.rng
    cases = []             # (class, triggers, ops, configured max_events_batch_size or None)
    n_clean = 400 if ctx.thorough else 60
    n_multi = 200 if ctx.thorough else 30
    n_burst = 120 if ctx.thorough else 10
    ev = lambda n: ("occ", {"cid": 0, "src": n, "aux": 0, "n": n})      # noqa: E731
    # fixed witnesses first
    cases.append(("multi", [{"conds": [0], "logic": "or", "prov": [0]}], [ev(1), ev(2), ("iter",), ("iter",)], None))
    cases.append(("multi", [{"conds": [0], "logic": None, "prov": [0]}], [ev(1), ev(2), ("iter",), ("iter",)], None))
    cases.append(("clean", [{"conds": [0, 1], "logic": "and", "prov": [0, 1]}],
                  [ev(1), ("iter",), ("occ", {"cid": 1, "src": 2, "aux": 0, "n": 2}), ("iter",), ("iter",)], None))
    # one invocation ends: its final status and its result / exception are two occurrences of two different conditions
    cases.append(("clean", [{"conds": [1], "logic": None, "prov": [1]}, {"conds": [2], "logic": None, "prov": [2]}],
                  [("fin", {"idx": 0, "src": 1, "ok": True, "aux": 0, "n": 1}), ("iter",), ("iter",)], None))
    cases.append(("clean", [{"conds": [1], "logic": "or", "prov": [1]}, {"conds": [3], "logic": None, "prov": [3]}],
                  [("fin", {"idx": 0, "src": 1, "ok": False, "aux": 1, "n": 1}), ("iter",), ("iter",)], None))
    # bursts: small configured batch size; and, with the default configuration, more occurrences than any built-in bound
    cases.append(("burst", [{"conds": [0], "logic": "or", "prov": [0]}], [ev(i) for i in range(1, 6)] + [("iter",), ("iter",)], 2))
    cases.append(("burst", [{"conds": [0], "logic": "or", "prov": [0]}, {"conds": [5, 10], "logic": "and", "prov": [0]}],
                  [("occ", {"cid": 5, "src": i, "aux": 0, "n": i}) for i in (1, 2)] + [("iter",), ev(3), ("iter",),
                   ("occ", {"cid": 10, "src": 4, "aux": 0, "n": 4}), ("iter",), ("iter",)], 2))
    cases.append(("burst", [{"conds": [0], "logic": "or", "prov": [0]}],
                  [ev(i) for i in range(1, BIG_BURST + 1)] + [("iter",), ("iter",)], None))
    if ctx.thorough:
        cases.append(("burst", [{"conds": [0], "logic": None, "prov": [0]}, {"conds": [5, 10], "logic": "and", "prov": [0]}],
                      [("occ", {"cid": 5, "src": i, "aux": 0, "n": i}) for i in range(1, BIG_BURST + 1)]
                      + [("iter",), ev(BIG_BURST + 1), ("iter",), ("occ", {"cid": 10, "src": BIG_BURST + 2, "aux": 0, "n": BIG_BURST + 2}),
                         ("iter",), ("iter",)], None))
    fixed = len(cases)

    def small_batch(i):     # every other generated case runs with a small configured batch size
        return rng.choice([1, 2, 3]) if i % 2 else None
    while sum(1 for c in cases if c[0] == "clean") < n_clean:
        tr = gen_config(rng)
        if clean_config(tr):
            cases.append(("clean", tr, gen_history(rng, tr, "clean"), small_batch(len(cases))))
    while sum(1 for c in cases if c[0] == "multi") < n_multi:
        tr = gen_config(rng)
        if clean_config(tr):
            cases.append(("multi", tr, gen_history(rng, tr, "multi"), small_batch(len(cases))))
    while sum(1 for c in cases if c[0] == "burst") < n_burst:
        tr = gen_config(rng)
        if clean_config(tr):
            bsz = rng.choice([1, 2, 3, 4])
            cases.append(("burst", tr, gen_burst(rng, tr, bsz), bsz))
    exprs = []
    xops_of = []
    for klass, tr, ops, bsz in cases:
        xops = expand_ops(tr, ops)
        xops_of.append(xops)
        exprs.append(coq_case(tr, xops, False))
        exprs.append(coq_case(tr, xops, True))
    vals = ctx.coq_eval(IMPORTS, exprs, chunk=120)
    stats = {"clean": 0, "multi": 0, "burst": 0, "launches": 0, "and_triggers": 0, "or_triggers": 0, "single_triggers": 0,
             "finished_invocations": 0, "small_batch_cases": 0, "max_pending_before_an_iteration": 0}
    n_exec = 0
    sigs = {}
    for ci, (klass, tr, ops, bsz) in enumerate(cases):
        xops = xops_of[ci]
        for bi, kind in enumerate(("mem", "sqlite")):
            m_launch, m_pending, keys = vals[2 * ci + bi]
            w = TrigWorld(kind, scratch, tr, batch=bsz)
            res = run_history_impl(w, ops)
            w.flush()
            n_exec += 1
            impl = canon_impl(tr, xops, res, keys)
            model = sorted(m_launch)
            rp = {"kind": "history", "backend": kind, "trigs": tr, "ops": ops, "class": klass, "batch": bsz}
            if impl != model or len(res["pending"]) != len(m_pending):
                short = impl if len(impl) <= 12 else f"{len(impl)} launches"
                mshort = model if len(model) <= 12 else f"{len(model)} launches"
                ctx.violation(f"history:{kind}:model-mismatch",
                              f"{kind}: trigger history (class {klass}, max_events_batch_size={bsz or 'default'}) differs from the "
                              f"model: impl launches {short} pending {len(res['pending'])}, model launches {mshort} pending {len(m_pending)}",
                              {**rp, "impl": impl[:40], "model": model[:40]})
            for sig, msg in oracle_history(tr, xops, res):
                sigs[sig] = sigs.get(sig, 0) + 1
                key = f"history:{sig}" if klass != "multi" or sig not in KNOWN_MULTI else KNOWN_MULTI[sig]
                if klass == "burst":
                    key = f"burst:{sig}"
                ctx.violation(key, f"{kind}: (class {klass}, max_events_batch_size={bsz or 'default'}) {msg[:600]}", {**rp, "why": msg[:600]})
            if kind == "mem":
                stats[klass] += 1
                stats["launches"] += len(res["launches"])
                stats["finished_invocations"] += sum(1 for o in ops if o[0] == "fin")
                stats["small_batch_cases"] += 1 if bsz else 0
                stats["max_pending_before_an_iteration"] = max([stats["max_pending_before_an_iteration"]]
                                                               + [r["pending_before"] for r in res["rounds"]])
                for t in tr:
                    stats["or_triggers" if t.get("logic") == "or" else
                          ("single_triggers" if len(t["conds"]) == 1 else "and_triggers")] += 1
                if ci in (0, 2, 3) or (klass == "clean" and ci >= fixed and len(ctx.coverage["samples"]) < 5 and len(res["launches"]) > 2):
                    ctx.sample({"class": klass, "trigs": tr, "batch": bsz,
                                "ops": [o if o[0] == "iter" or o[0] == "adv" else [o[0], o[1].get("cid", o[1].get("idx")), o[1]["n"]] for o in ops][:10],
                                "launches": res["launches"][:6]})
    ctx.count(n_exec, len({json.dumps([c[1], c[2], c[3]], sort_keys=True) for c in cases}))
    stats["oracle_signatures"] = sigs
    ctx.notes["histories"] = {"cases": len(cases), "executions": n_exec, **stats}


# ------------------------------------------------------------------ targeted findings (sequential)
def run_targeted(ctx: Ctx, scratch: str):
    """small witnesses of the known defect classes; the model must agree and the oracle names the signature"""
    out = {}
    for kind in ("mem", "sqlite"):
        to_end = kind == "sqlite"
        # (a) two invocations failing with the same exception type
        tr = [{"conds": [3], "logic": "or", "prov": [3]}]
        ops = [("occ", {"cid": 3, "src": 1, "aux": 0, "n": 1}), ("occ", {"cid": 3, "src": 2, "aux": 0, "n": 2}), ("iter",)]
        out[f"exc:{kind}"] = (tr, ops, "exception-context-omits-invocation",
                              "failures of two invocations with the same exception type are one pending occurrence")
        # (b) the same invocation re-entering a status after the first occurrence was processed
        tr = [{"conds": [1], "logic": "or", "prov": [1]}]
        ops = [("occ", {"cid": 1, "src": 1, "aux": 0, "n": 1}), ("iter",), ("occ", {"cid": 1, "src": 1, "aux": 0, "n": 2}), ("iter",)]
        out[f"reentry:{kind}"] = (tr, ops, "status-reentry-swallowed",
                                  "second entry of the same invocation into the same status within the claim expiry launches nothing")
        # (c) an unsatisfied AND trigger keeps the occurrence pending; the OR trigger fires again after the claim expiry
        tr = [{"conds": [0], "logic": "or", "prov": [0]}, {"conds": [0, 5], "logic": "and", "prov": [0]}]
        ops = [("occ", {"cid": 0, "src": 1, "aux": 0, "n": 1}), ("iter",), ("adv", 30), ("iter",), ("adv", 31), ("iter",)]
        out[f"expiry:{kind}"] = (tr, ops, "refire-after-claim-expiry",
                                 "occurrence kept pending by an unsatisfied AND trigger is launched again once the 60 s claim expires")
    exprs = [coq_case(tr, ops, k.endswith("sqlite")) for k, (tr, ops, _, _) in out.items()]
    vals = ctx.coq_eval(IMPORTS, exprs)
    n = 0
    for (name, (tr, ops, sig, what)), (m_launch, m_pending, keys) in zip(out.items(), vals):
        kind = name.split(":")[1]
        w = TrigWorld(kind, scratch, tr)
        res = run_history_impl(w, ops)
        w.flush()
        n += 1
        impl = canon_impl(tr, ops, res, keys)
        if impl != sorted(m_launch) or len(res["pending"]) != len(m_pending):
            ctx.violation(f"targeted:{kind}:model-mismatch",
                          f"{kind}: {name}: impl launches {impl} pending {len(res['pending'])}; model {sorted(m_launch)} / {len(m_pending)}",
                          {"kind": "history", "backend": kind, "trigs": tr, "ops": ops, "impl": impl, "model": sorted(m_launch)})
        occs = [o[1] for o in ops if o[0] == "occ"]
        n_first = sum(1 for tid, a in res["launches"] if tid == 0)
        if n_first != len(occs):
            ctx.violation(sig, f"{kind}: {what}: {len(occs)} occurrence(s), {n_first} launch(es) {res['launches']}",
                          {"kind": "history", "backend": kind, "trigs": tr, "ops": ops, "why": what})
        elif name.startswith("exc") and sorted(str(a["x"]) for _, a in res["launches"]) != sorted(str(payload_of(o)) for o in occs):
            ctx.violation(sig, f"{kind}: {what}", {"kind": "history", "backend": kind, "trigs": tr, "ops": ops, "why": what})
    ctx.count(n, 3)
    ctx.notes["targeted_witnesses"] = sorted(out)


# ------------------------------------------------------------------ two concurrent loops
class Injector:
    """Runs `other()` once, at the k-th instrumented point of the calling loop, if no lock / write transaction
    held by the paused loop excludes it."""

    def __init__(self, k: int, other, can_run):
        self.k, self.other, self.can_run = k, other, can_run
        self.count = 0
        self.fired = None       # None: point not reached; "ran" | "excluded"
        self.where = None
        self.active = True

    def point(self, label: str):
        if not self.active:
            return
        idx = self.count
        self.count += 1
        if idx == self.k and self.fired is None:
            self.where = label
            self.active = False
            if self.can_run():
                self.other()
                self.fired = "ran"
            else:
                self.fired = "excluded"
            self.active = True


class ConnProxy:
    def __init__(self, conn, hook):
        self._c, self._hook = conn, hook

    def execute(self, sql, parameters=(), /):
        self._hook(" ".join(sql.split())[:60])
        return self._c.execute(sql, parameters)

    def __getattr__(self, name):
        return getattr(self._c, name)

    def __enter__(self):
        self._c.__enter__()
        return self

    def __exit__(self, *a):
        return self._c.__exit__(*a)


def sqlite_two_loops(scratch: str, trigs, setup, k: int, mode: str = "loop"):
    """loop A = trigger_loop_iteration of app A paused before its k-th SQL statement while loop B (a second app object
    on the same database) runs a whole iteration.  Returns (launches A+B, info)."""
    import pynenc.trigger.sqlite_trigger as st
    real = st.sqlite_conn
    a = TrigWorld("sqlite", scratch, trigs)
    setup(a)
    b = TrigWorld("sqlite", scratch, trigs, app_id=a.app.app_id, register=False)
    db = a.trg.sqlite_db_path

    def can_run():
        probe = sqlite3.connect(db, timeout=0)
        try:
            probe.execute("BEGIN IMMEDIATE")
            probe.execute("ROLLBACK")
            return True
        except sqlite3.OperationalError:
            return False
        finally:
            probe.close()

    def b_action():
        if mode == "loop":
            b.trg.trigger_loop_iteration()
        else:                       # concurrent occurrence reporting from another process
            b.occurrence({"cid": 0, "src": 2, "aux": 0, "n": 2})

    def other():
        st.sqlite_conn = real
        try:
            b_action()
        finally:
            st.sqlite_conn = wrapped

    inj = Injector(k, other, can_run)

    def wrapped(path):
        return ConnProxy(real(path), inj.point)
    st.sqlite_conn = wrapped
    raised = None
    try:
        a.trg.trigger_loop_iteration()
    except Exception as ex:  # noqa: BLE001 - recorded as an observation
        raised = f"{type(ex).__name__}"
    finally:
        st.sqlite_conn = real
    if inj.fired in (None, "excluded"):     # never reached / blocked by A's lock or transaction: B runs after A
        b_action()
    if mode == "report":
        a.trg.trigger_loop_iteration()
    a.flush()
    return a.launches + b.launches, {"points": inj.count, "fired": inj.fired, "where": inj.where, "raised": raised}


def mem_two_loops(scratch: str, trigs, setup, k: int, mode: str = "loop"):
    """loop A traced line by line inside mem_trigger.py / base_trigger.py; at the k-th line loop B runs a whole
    iteration in another thread unless A holds one of the store's locks."""
    a = TrigWorld("mem", scratch, trigs)
    setup(a)
    trg = a.trg
    locks = [trg._cron_lock, trg._claim_lock, trg._trigger_run_lock]

    def in_thread(fn):
        box = {}
        th = threading.Thread(target=lambda: box.setdefault("r", fn()))
        th.start()
        th.join()
        return box.get("r")

    def can_run():
        def probe():
            got = []
            ok = True
            for lk in locks:
                if lk.acquire(blocking=False):
                    got.append(lk)
                else:
                    ok = False
            for lk in got:
                lk.release()
            return ok
        return in_thread(probe)

    def b_action():
        if mode == "loop":
            trg.trigger_loop_iteration()
        else:
            a.occurrence({"cid": 0, "src": 2, "aux": 0, "n": 2})

    inj = Injector(k, lambda: in_thread(b_action), can_run)
    files = ("pynenc/trigger/mem_trigger.py", "pynenc/trigger/base_trigger.py")
    skip = {"execute_task", "rec"}

    def tracer(frame, event, arg):
        co = frame.f_code
        if not co.co_filename.endswith(files) or co.co_name in skip:
            return None
        if event == "line":
            inj.point(f"{co.co_filename.rsplit('/', 1)[1]}:{co.co_name}:{frame.f_lineno}")
        return tracer
    raised = None
    sys.settrace(tracer)
    try:
        trg.trigger_loop_iteration()
    except Exception as ex:  # noqa: BLE001 - recorded: a loop that dies is an observation, not a harness error
        raised = f"{type(ex).__name__}"
    finally:
        sys.settrace(None)
    if inj.fired in (None, "excluded"):     # never reached / blocked by A's lock or transaction: B runs after A
        b_action()
    if mode == "report":
        trg.trigger_loop_iteration()
    a.flush()
    return list(a.launches), {"points": inj.count, "fired": inj.fired, "where": inj.where, "raised": raised}


# ------------------------------------------------------------------ a reporter thread against a loop iteration (in-memory)
TRACED = "/pynenc/trigger/"


def mem_reporter_vs_loop(scratch: str, trigs, setup, occ2: dict, i: int, j: int | None):
    """Two threads of one process on the in-memory store.  The reporter (main thread, traced line by line inside
    pynenc/trigger/**) reports occurrence `occ2`; before its i-th line a trigger_loop_iteration starts in a second thread:
    j None  -> it runs to completion while the reporter is paused;
    j >= 0  -> it runs up to its j-th traced line (the first one at or after j where it holds no store lock), pauses there,
               the reporter finishes, then the iteration finishes.
    i = -1: no pre-emption (reporter, then the iteration).  A final iteration runs afterwards, so that everything
    still pending is launched.  Returns (launches, info)."""
    a = TrigWorld("mem", scratch, trigs)
    setup(a)
    trg = a.trg
    locks = [trg._cron_lock, trg._claim_lock, trg._trigger_run_lock]
    skip = {"execute_task", "rec"}
    info = {"rep_points": 0, "loop_points": 0, "fired": None, "where": None, "loop_where": None, "raised": None,
            "loop_raised": None}
    paused, resume, finished = threading.Event(), threading.Event(), threading.Event()
    box = {"thread": None}

    def loop_body():
        cnt = [0]

        def ltracer(frame, event, arg):
            co = frame.f_code
            if TRACED not in co.co_filename or co.co_name in skip:
                return None
            if event == "line":
                k = cnt[0]
                cnt[0] += 1
                if j is not None and k >= j and not paused.is_set():
                    free = []
                    ok = True
                    for lk in locks:
                        if lk.acquire(blocking=False):
                            free.append(lk)
                        else:
                            ok = False
                    for lk in free:
                        lk.release()
                    if ok:
                        info["loop_where"] = f"{co.co_filename.rsplit('/', 1)[1]}:{co.co_name}:{frame.f_lineno}"
                        paused.set()
                        resume.wait()
            return ltracer
        sys.settrace(ltracer)
        try:
            trg.trigger_loop_iteration()
        except Exception as ex:  # noqa: BLE001 - an iteration that dies is an observation
            info["loop_raised"] = f"{type(ex).__name__}: {ex}"[:120]
        finally:
            sys.settrace(None)
            info["loop_points"] = cnt[0]
            finished.set()
            paused.set()

    def start_loop():
        th = threading.Thread(target=loop_body)
        box["thread"] = th
        th.start()
        if j is None:
            th.join()
        else:
            paused.wait()          # paused at its j-th line, or already finished

    def holds_lock():
        res = {}

        def probe():
            got = [lk for lk in locks if lk.acquire(blocking=False)]
            res["ok"] = len(got) == len(locks)
            for lk in got:
                lk.release()
        t = threading.Thread(target=probe)
        t.start()
        t.join()
        return not res["ok"]

    cnt = [0]

    def rtracer(frame, event, arg):
        co = frame.f_code
        if TRACED not in co.co_filename or co.co_name in skip:
            return None
        if event == "line":
            k = cnt[0]
            cnt[0] += 1
            if k == i and info["fired"] is None:
                info["where"] = f"{co.co_filename.rsplit('/', 1)[1]}:{co.co_name}:{frame.f_lineno}"
                if holds_lock():
                    info["fired"] = "excluded"
                else:
                    info["fired"] = "ran"
                    start_loop()
        return rtracer
    sys.settrace(rtracer)
    try:
        a.occurrence(occ2)
    except Exception as ex:  # noqa: BLE001 - recorded
        info["raised"] = f"{type(ex).__name__}: {ex}"[:120]
    finally:
        sys.settrace(None)
    info["rep_points"] = cnt[0]
    if box["thread"] is None:
        j = None
        start_loop()
    else:
        resume.set()
        box["thread"].join()
    pend_mid = a.pending()
    trg.trigger_loop_iteration()
    a.flush()
    info["pending_before_final_iteration"] = pend_mid
    info["pending_end"] = a.pending()
    return list(a.launches), info


def run_reporter_vs_loop(ctx: Ctx, scratch: str, facts: dict):
    """every line of the reporter x (the whole iteration | sampled lines of the iteration); oracle: each of the two
    occurrences is launched exactly once (the second possibly by the following iteration), nothing stays pending"""
    scen = {
        "event": ([{"conds": [0], "logic": "or", "prov": [0]}],
                  {"cid": 0, "src": 1, "aux": 0, "n": 1}, {"cid": 0, "src": 2, "aux": 0, "n": 2}),
        "status": ([{"conds": [1], "logic": None, "prov": [1]}, {"conds": [0, 5], "logic": "and", "prov": [0]}],
                   {"cid": 1, "src": 1, "aux": 0, "n": 1}, {"cid": 1, "src": 2, "aux": 1, "n": 2}),
    }
    summary = {}
    n_runs = 0
    for name, (tr, o1, o2) in scen.items():
        def setup(w, _o1=o1, _o2=o2):
            CLOCK.t, CLOCK.tick = T0, timedelta(0)
            if _o2["cid"] % 5 != 0:
                w.invocation(_o2["cid"] // 5, _o2["src"])
            w.occurrence(_o1)
        want = sorted(str(payload_of(o)) for o in (o1, o2))
        launches, info = mem_reporter_vs_loop(scratch, tr, setup, o2, -1, None)
        n_runs += 1
        rp_n = info["rep_points"]
        _, info2 = mem_reporter_vs_loop(scratch, tr, setup, o2, 0, 10**9)
        lp_n = info2["loop_points"]
        n_runs += 1
        step_j = 5 if ctx.thorough else 41
        js = [None] + list(range(0, lp_n, step_j))
        bad, excluded, raised = [], 0, 0
        for i in [-1] + list(range(rp_n)):
            for j in (js if i >= 0 else [None]):
                launches, info = mem_reporter_vs_loop(scratch, tr, setup, o2, i, j)
                n_runs += 1
                if info["fired"] == "excluded":
                    excluded += 1
                if info["loop_raised"] or info["raised"]:
                    raised += 1
                have = sorted(str(a.get("x")) for _, a in launches)
                if have != want or info["pending_end"] != 0:
                    bad.append((i, j, info, have))
                if info["fired"] == "excluded":
                    break
        summary[name] = {"reporter_points": rp_n, "iteration_points": lp_n, "iteration_pause_points_used": len(js) - 1,
                         "excluded_by_lock": excluded, "runs_with_an_exception": raised, "wrong": len(bad)}
        if bad:
            i, j, info, have = bad[0]
            lost = len(have) < len(want)
            key = "mem-report-vs-loop:" + ("lost" if lost else "extra" if len(have) > len(want) else "wrong")
            ctx.violation(key,
                          f"mem, two threads: a reporter ({name} occurrence) pre-empted at {info['where']} (its line {i}) while a "
                          f"trigger loop iteration of another thread " + ("runs to completion" if j is None else
                          f"runs up to {info['loop_where']} (its line {j}) and finishes after the reporter")
                          + f": launches {have} for occurrences {want}, {info['pending_end']} pending at the end"
                          + (f", iteration raised {info['loop_raised']}" if info["loop_raised"] else "")
                          + f" ({len(bad)} of the explored schedules deviate)",
                          {"kind": "report_vs_loop", "scenario": name, "i": i, "j": j, "expected": want, "observed": have})
            if facts.get("mem_pending_in_place", True) and lost:
                ctx.violation("mem-report-vs-loop:model-mismatch",
                              "mem: the generated fact says the pending store is only mutated in place, yet a concurrently recorded "
                              f"occurrence was lost at {info['where']}",
                              {"kind": "report_vs_loop", "scenario": name, "i": i, "j": j, "expected": want, "observed": have})
    ctx.count(n_runs, sum(v["reporter_points"] * (v["iteration_pause_points_used"] + 1) for v in summary.values()))
    ctx.notes["reporter_vs_loop"] = summary


def run_two_loops(ctx: Ctx, scratch: str, facts: dict):
    """claim: one pending event for an OR trigger (+ a second trigger on the same condition); both loops must launch
    each (trigger, occurrence) once in total.  Cron compare-and-swap: one scheduled minute, both loops poll inside its
    window; the tick must become one occurrence (one launch)."""
    from pynenc.trigger.conditions.cron import CronCondition
    trigs = [{"conds": [0], "logic": "or", "prov": [0]}, {"conds": [0], "logic": None, "static": True}]

    def setup_claim(w):
        CLOCK.t, CLOCK.tick = T0, timedelta(0)
        w.occurrence({"cid": 0, "src": 1, "aux": 0, "n": 1})

    cron_trigs = [{"conds": [4], "logic": "or", "prov": [4], "cron": CronCondition("* * * * *")}]

    def setup_cron(prev):
        def f(w):
            CLOCK.t, CLOCK.tick = T0 + timedelta(seconds=5), timedelta(milliseconds=1)
            if prev:
                cid = cron_trigs[0]["cron"].condition_id
                w.trg.store_last_cron_execution(cid, T0 - timedelta(minutes=3), None)
        return f

    summary = {}
    n_runs = 0
    report_trigs = [{"conds": [0], "logic": "or", "static": True}]
    scenarios = [("claim", trigs, setup_claim, 2), ("cron-first", cron_trigs, setup_cron(False), 1),
                 ("cron-next", cron_trigs, setup_cron(True), 1), ("report", report_trigs, setup_claim, 2)]
    for name, tr, setup, want in scenarios:
        for kind in ("sqlite", "mem"):
            base_runner = sqlite_two_loops if kind == "sqlite" else mem_two_loops

            def runner(sc, tr_, setup_, k_, _r=base_runner, _m=("report" if name == "report" else "loop")):
                return _r(sc, tr_, setup_, k_, _m)
            doubles, excluded, raised = [], 0, []
            launches, info = runner(scratch, tr, setup, -1)      # sequential A then B; counts A's pre-emption points
            n_runs += 1
            points = info["points"]
            if len(launches) != want:
                doubles.append((-1, "sequential", len(launches)))
            k = 0
            while k < points:
                launches, info = runner(scratch, tr, setup, k)
                n_runs += 1
                if info["fired"] == "excluded":
                    excluded += 1
                if info.get("raised"):
                    raised.append((k, info["where"], info["raised"]))
                if len(launches) != want:
                    doubles.append((k, info["where"], len(launches)))
                k += 1
                if not ctx.thorough and kind == "mem" and points and points > 160 and k % 2:
                    k += 1       # quick tier: every other line of the long in-memory trace
            CLOCK.tick = timedelta(0)
            summary[f"{name}:{kind}"] = {"points": points, "excluded_by_lock_or_txn": excluded,
                                         "schedules_with_wrong_launch_count": len(doubles),
                                         "first": doubles[0] if doubles else None,
                                         "loop_a_raised": len(raised), "first_raise": raised[0] if raised else None}
            if doubles:
                k0, where, got = doubles[0]
                if name == "report":
                    key = f"{kind}-report-during-loop"
                    what = (f"{kind}: an occurrence reported while a trigger loop iteration is running is lost or launched twice: "
                            f"reported at {where} (point {k0}) -> {got} launches for 2 occurrences")
                    predicted = False
                elif name == "claim":
                    key = f"{kind}-claim-not-atomic"
                    what = (f"{kind}: two concurrent trigger loops both claim the same run id: loop B run at {where} "
                            f"(point {k0}) -> {got} launches for 2 (trigger, occurrence) pairs")
                    predicted = not facts.get("sqlite_claim_immediate" if kind == "sqlite" else "mem_claim_locked", True)
                elif name == "cron-first":
                    key = f"{kind}-cron-cas-accepts-none"
                    what = (f"{kind}: first cron tick fires in both loops (compare-and-swap with expected None always succeeds): "
                            f"loop B run at {where} (point {k0}) -> {got} launches for one scheduled minute")
                    predicted = not facts.get(f"{kind}_cas_rejects_none", True)
                else:
                    key = f"{kind}-cron-cas-not-atomic"
                    what = (f"{kind}: cron compare-and-swap read and write are separable: loop B run at {where} (point {k0}) "
                            f"-> {got} launches for one scheduled minute")
                    predicted = not facts.get("sqlite_cas_immediate" if kind == "sqlite" else "mem_cas_locked", True)
                if any(g < want for _, _, g in doubles):
                    key += ":lost"
                ctx.violation(key, what, {"kind": "two_loops", "scenario": name, "backend": kind, "k": k0, "where": where,
                                          "expected_launches": want, "observed": got})
                if not predicted:
                    ctx.violation(f"two-loops:{name}:{kind}:model-mismatch",
                                  f"{kind}: {name}: the generated atomicity facts predict exactly-once but the implementation "
                                  f"launched {got} at {where}", {"kind": "two_loops", "scenario": name, "backend": kind, "k": k0,
                                                                "where": where, "expected_launches": want, "observed": got})
            else:
                fact = {"report": "claim_guards_launch",
                        "claim": "sqlite_claim_immediate" if kind == "sqlite" else "mem_claim_locked",
                        "cron-first": f"{kind}_cas_rejects_none",
                        "cron-next": "sqlite_cas_immediate" if kind == "sqlite" else "mem_cas_locked"}[name]
                if not facts.get(fact, True):
                    ctx.notes.setdefault("facts_false_but_no_schedule_found", []).append(f"{name}:{kind}:{fact}")
    ctx.count(n_runs, sum(v["points"] or 0 for v in summary.values()))
    ctx.notes["two_loops"] = summary


# ------------------------------------------------------------------ cron
def parse_field(f: str, lo: int, hi: int) -> set[int]:
    out = set()
    for part in f.split(","):
        step = 1
        if "/" in part:
            part, s = part.split("/")
            step = int(s)
        if part == "*":
            a, b = lo, hi
        elif "-" in part:
            a, b = (int(x) for x in part.split("-"))
        else:
            a = int(part)
            b = hi if step != 1 else a
        out |= set(range(a, b + 1, step))
    return out


def brute_scheduled(expr: str, dt: datetime) -> bool:
    """independent 5-field evaluator (minute hour dom month dow; dom/dow are OR-ed when both are restricted)"""
    mi, ho, dom, mon, dow = expr.split()
    if dt.minute not in parse_field(mi, 0, 59) or dt.hour not in parse_field(ho, 0, 23) \
            or dt.month not in parse_field(mon, 1, 12):
        return False
    d_ok = dt.day in parse_field(dom, 1, 31)
    w_ok = ((dt.weekday() + 1) % 7) in {x % 7 for x in parse_field(dow, 0, 7)}
    if dom != "*" and dow != "*":
        return d_ok or w_ok
    return d_ok and w_ok


EPOCH = datetime(1970, 1, 1, tzinfo=UTC)


def us(dt: datetime) -> int:
    d = dt - EPOCH
    return (d.days * 86400 + d.seconds) * 10**6 + d.microseconds


def sched_minutes(expr: str, lo: datetime, hi: datetime) -> list[int]:
    m = lo.replace(second=0, microsecond=0)
    out = []
    while m <= hi:
        if brute_scheduled(expr, m):
            out.append(us(m) // 60_000_000)
        m += timedelta(minutes=1)
    return out


def gen_expr(rng) -> str:
    def minute():
        r = rng.random()
        if r < 0.2:
            return "*"
        if r < 0.45:
            return f"*/{rng.choice([2, 3, 5, 7, 15])}"
        if r < 0.65:
            return ",".join(str(x) for x in sorted(rng.sample(range(60), rng.randint(1, 4))))
        if r < 0.85:
            a = rng.randint(0, 50)
            return f"{a}-{a + rng.randint(1, 9)}"
        a = rng.randint(0, 30)
        return f"{a}-{a + rng.randint(5, 25)}/{rng.choice([2, 3, 4])}"
    hour = rng.choice(["*", "*", "10", "9-11", "*/2", "10,11"])
    dom = rng.choice(["*", "*", "*", "4", "1-7"])
    mon = rng.choice(["*", "*", "3", "1-6"])
    dow = rng.choice(["*", "*", "*", "2", "1-5"]) if dom == "*" else "*"
    return f"{minute()} {hour} {dom} {mon} {dow}"


def gen_polls(rng, start: datetime) -> list[datetime]:
    style = rng.choice(["regular", "jitter", "burst", "gaps", "boundary"])
    t = start + timedelta(seconds=rng.randint(0, 59), microseconds=rng.choice([0, 0, 250000, 999999]))
    if style == "boundary":      # polls exactly on minute starts: differences of exactly 60 s, 120 s, ... (window / interval edges)
        t = start
    out = []
    for _ in range(rng.randint(6, 14)):
        out.append(t)
        if style == "regular":
            t += timedelta(seconds=rng.choice([10, 20, 30, 60]))
        elif style == "jitter":
            t += timedelta(seconds=30 + rng.randint(-8, 8), microseconds=rng.randint(0, 999999))
        elif style == "boundary":
            t += timedelta(seconds=rng.choice([60, 60, 120, 50, 70, 10]))
        elif style == "burst":
            t += timedelta(seconds=rng.choice([0, 1, 1, 2, 55, 61]), milliseconds=rng.choice([0, 1, 500]))
        else:
            t += timedelta(seconds=rng.choice([15, 45, 90, 200, 400]))
    return out


def spec_fires(expr, conf, ts: datetime, last: datetime | None) -> tuple[bool, datetime | None]:
    """the statement, evaluated with the brute-force schedule: the poll is attributed to the latest scheduled minute
    p <= ts; it fires iff ts lies in p's window (and tolerance under strict timing), the previous firing is at
    least min_interval old and was before p."""
    window, min_iv, tol, strict = conf
    m = ts.replace(second=0, microsecond=0)
    p = None
    for i in range(window // 60 + 2):
        if brute_scheduled(expr, m - timedelta(minutes=i)):
            p = m - timedelta(minutes=i)
            break
    if p is None:
        return False, None
    d = (ts - p).total_seconds()
    eff = min(window, tol) if strict else window
    if d > eff:
        return False, p
    if last is not None and ((ts - last).total_seconds() < min_iv or last >= p):
        return False, p
    return True, p


def run_cron(ctx: Ctx, scratch: str):
    from pynenc.trigger.conditions.cron import CronCondition, CronContext
    rng = ctx.rng
    n_cases = 1500 if ctx.thorough else 220
    confs = [(60, 50, 30, False), (60, 50, 30, True), (120, 50, 30, False), (300, 100, 90, True), (90, 0, 30, False),
             (60, 120, 30, False), (180, 61, 120, True)]
    small = [(30, 20, 10, False), (10, 5, 5, True), (45, 50, 30, False)]
    base = datetime(2031, 3, 4, 9, 50, 0, tzinfo=UTC)
    exprs, meta = [], []
    for ci in range(n_cases):
        expr = gen_expr(rng)
        conf = rng.choice(confs if rng.random() < 0.8 else small)
        polls = gen_polls(rng, base + timedelta(minutes=rng.randint(0, 90)))
        lo = polls[0] - timedelta(seconds=conf[0] + 180)
        ms = sched_minutes(expr, lo, polls[-1])
        last0 = None if rng.random() < 0.5 else polls[0] - timedelta(seconds=rng.choice([1, 30, 49, 50, 51, 70, 119, 120, 400]))
        c = "{| cw_window_s := %d; cw_min_interval_s := %d; cw_tolerance_s := %d; cw_strict := %s |}" % (
            conf[0], conf[1], conf[2], "true" if conf[3] else "false")
        sch = "(sched_of [%s])" % "; ".join(str(m) for m in ms)
        tss = "[%s]" % "; ".join(str(us(t)) for t in polls)
        l0 = "None" if last0 is None else f"(Some {us(last0)})"
        exprs.append(f"map b2n (snd (polls {sch} gen_facts {c} {l0} {tss}))")
        meta.append((expr, conf, polls, last0))
    vals = ctx.coq_eval(IMPORTS, exprs, chunk=80, scope="Z_scope")
    stats = {"fired": 0, "polls": 0, "small_window_cases": 0, "styles": {}, "strict": 0}
    n_eval = 0
    for (expr, conf, polls, last0), model in zip(meta, vals):
        cond = CronCondition(expr, check_window_seconds=conf[0], min_interval_seconds=conf[1],
                             precision_tolerance_seconds=conf[2], strict_timing=conf[3])
        last = last0
        impl, spec, bad = [], [], None
        fired_minutes = []
        for ts in polls:
            got = cond.is_satisfied_by(CronContext(timestamp=ts, last_execution=last))
            want, p = spec_fires(expr, conf, ts, last)
            n_eval += 1
            impl.append(1 if got else 0)
            spec.append(1 if want else 0)
            if got != want and bad is None:
                in_minute_past_window = got and p is not None and p == ts.replace(second=0, microsecond=0) \
                    and (ts - p).total_seconds() > (min(conf[0], conf[2]) if conf[3] else conf[0])
                sig = "cron-window-ignored-inside-scheduled-minute" if in_minute_past_window else \
                    ("cron:fires-outside-window" if got else "cron:misses-poll-in-window")
                bad = (sig, f"cron `{expr}` window={conf[0]}s min_interval={conf[1]}s tolerance={conf[2]}s strict={conf[3]}: poll at "
                            f"{ts.isoformat()} (scheduled minute {p}, last {last}) -> fired={got}, statement says {want}",
                       {"kind": "cron_sat", "expr": expr, "conf": conf, "ts": ts.isoformat(), "last": last.isoformat() if last else None,
                        "observed": got, "expected": want})
            if got:
                fired_minutes.append(p)
                last = ts
        if bad:
            ctx.violation(*bad)
        dup = [m for m in set(fired_minutes) if m is not None and fired_minutes.count(m) > 1]
        if dup:
            ctx.violation("cron:minute-fired-twice", f"cron `{expr}` {conf}: scheduled minute {dup[0]} yielded two occurrences",
                          {"kind": "cron_polls", "expr": expr, "conf": conf, "polls": [t.isoformat() for t in polls],
                           "last": last0.isoformat() if last0 else None})
        if impl != model:
            ctx.violation("cron:model-mismatch",
                          f"cron `{expr}` {conf}: poll outcomes {impl} differ from the model {model} (brute-force schedule)",
                          {"kind": "cron_polls", "expr": expr, "conf": conf, "polls": [t.isoformat() for t in polls],
                           "last": last0.isoformat() if last0 else None, "impl": impl, "model": model})
        stats["fired"] += sum(impl)
        stats["polls"] += len(polls)
        stats["strict"] += 1 if conf[3] else 0
        stats["small_window_cases"] += 1 if conf[0] < 60 else 0
        if len(ctx.coverage["samples"]) < 6 and sum(impl) >= 2:
            ctx.sample({"cron": expr, "conf": conf, "polls": [t.isoformat() for t in polls[:6]], "fired": impl[:6]})
    # the same poll sequences through the real stores (check_time_based_triggers -> compare-and-swap -> record -> launch)
    n_store = 60 if ctx.thorough else 10
    store_cases = [m for m in meta if m[3] is None][:n_store // 2] + [m for m in meta if m[3] is not None][:n_store // 2]
    sexprs = []
    for expr, conf, polls, last0 in store_cases:
        lo = polls[0] - timedelta(seconds=conf[0] + 180)
        c = "{| cw_window_s := %d; cw_min_interval_s := %d; cw_tolerance_s := %d; cw_strict := %s |}" % (
            conf[0], conf[1], conf[2], "true" if conf[3] else "false")
        sch = "(sched_of [%s])" % "; ".join(str(m) for m in sched_minutes(expr, lo, polls[-1]))
        l0 = "None" if last0 is None else f"(Some {us(last0)})"
        sexprs.append(f"map b2n (store_polls {sch} gen_facts {c} {l0} [%s])" % "; ".join(str(us(t)) for t in polls))
    svals = ctx.coq_eval(IMPORTS, sexprs, chunk=40, scope="Z_scope")
    for (expr, conf, polls, last0), model in zip(store_cases, svals):
        for kind in ("mem", "sqlite"):
            cond = CronCondition(expr, check_window_seconds=conf[0], min_interval_seconds=conf[1],
                                 precision_tolerance_seconds=conf[2], strict_timing=conf[3])
            w = TrigWorld(kind, scratch, [{"conds": [4], "logic": "or", "prov": [4], "cron": cond}])
            if last0 is not None:
                w.trg.store_last_cron_execution(cond.condition_id, last0, None)
            got, last = [], last0
            for ts in polls:
                before = len(w.launches)
                CLOCK.t, CLOCK.tick = ts, timedelta(0)
                w.trg.trigger_loop_iteration()
                fired = len(w.launches) - before
                got.append(fired)
                n_eval += 1
                want, p = spec_fires(expr, conf, ts, last)
                if fired != (1 if want else 0):
                    rp = {"kind": "cron_store", "backend": kind, "expr": expr, "conf": conf,
                          "polls": [t.isoformat() for t in polls], "last": last0.isoformat() if last0 else None}
                    if fired == 1 and last is None and not cond.is_satisfied_by(CronContext(timestamp=ts, last_execution=None)):
                        ctx.violation(f"cron-first-poll-unconditional:{kind}",
                                      f"{kind}: cron `{expr}`: with no last execution stored the first poll ({ts.isoformat()}) becomes an "
                                      "occurrence although CronCondition.is_satisfied_by refuses it (no scheduled minute within the window)", rp)
                    elif not (fired == 1 and p is not None and p == ts.replace(second=0, microsecond=0)):
                        ctx.violation(f"cron-store:{kind}:{'extra' if fired else 'missing'}",
                                      f"{kind}: cron `{expr}` {conf}: poll {ts.isoformat()} (last {last}) launched {fired}, statement says {want}", rp)
                if fired:
                    last = ts
            w.flush()
            if got != model:
                ctx.violation(f"cron-store:{kind}:model-mismatch",
                              f"{kind}: cron `{expr}` {conf}: launches per poll {got}, model {model}",
                              {"kind": "cron_store", "backend": kind, "expr": expr, "conf": conf,
                               "polls": [t.isoformat() for t in polls], "last": last0.isoformat() if last0 else None,
                               "impl": got, "model": model})
    ctx.count(n_eval, len({(m[0], m[1]) for m in meta}))
    ctx.notes["cron"] = {"cases": n_cases, "store_runs_per_backend": n_store, **stats}


# ------------------------------------------------------------------ several runners, one store, cron
def runner_polls_impl(scratch: str, expr: str, conf, last0, polls, n_runners: int):
    """n runner processes = n app objects (each with its own trigger object and its own last-execution cache) on one
    SQLite database; poll i is one trigger_loop_iteration of runner polls[i][0] at time polls[i][1].
    Returns the launches per poll (summed over all runners, attributed to the poll during which they happened)."""
    from pynenc.trigger.conditions.cron import CronCondition
    cond = CronCondition(expr, check_window_seconds=conf[0], min_interval_seconds=conf[1],
                         precision_tolerance_seconds=conf[2], strict_timing=conf[3])
    trigs = [{"conds": [4], "logic": "or", "prov": [4], "cron": cond}]
    ws = [TrigWorld("sqlite", scratch, trigs)]
    for _ in range(n_runners - 1):
        ws.append(TrigWorld("sqlite", scratch, trigs, app_id=ws[0].app.app_id, register=False))
    if last0 is not None:
        ws[0].trg.store_last_cron_execution(cond.condition_id, last0, None)
    got = []
    for r, ts in polls:
        before = sum(len(w.launches) for w in ws)
        CLOCK.t, CLOCK.tick = ts, timedelta(0)
        ws[r].trg.trigger_loop_iteration()
        got.append(sum(len(w.launches) for w in ws) - before)
    ws[0].flush()
    return got, cond


def gen_runner_case(rng):
    expr = rng.choice(["* * * * *", "* * * * *", "*/2 * * * *", "*/3 * * * *", "0-59/2 10-11 * * *", gen_expr(rng)])
    conf = rng.choice([(60, 50, 30, False), (60, 50, 30, False), (120, 50, 30, False), (90, 0, 30, False), (60, 50, 30, True)])
    n_run = rng.choice([2, 2, 3])
    t = datetime(2031, 3, 4, 10, 0, 0, tzinfo=UTC) + timedelta(minutes=rng.randint(0, 30), seconds=rng.randint(1, 25))
    style = rng.choice(["alternate", "random", "blocks", "rotate"])
    polls = []
    for i in range(rng.randint(8, 14)):
        r = {"alternate": i % 2, "random": rng.randrange(n_run), "blocks": (i // 2) % n_run, "rotate": i % n_run}[style]
        polls.append((r, t))
        t += timedelta(seconds=rng.choice([20, 30, 60, 60, 60, 90, 120]), milliseconds=rng.choice([0, 0, 137]))
    last0 = None if rng.random() < 0.6 else polls[0][1] - timedelta(seconds=rng.choice([30, 70, 200, 400]))
    return expr, conf, last0, polls, n_run


def check_runner_case(ctx: Ctx, scratch: str, case, model) -> int:
    expr, conf, last0, polls, n_run = case
    got, cond = runner_polls_impl(scratch, expr, conf, last0, polls, n_run)
    rp = {"kind": "cron_runners", "expr": expr, "conf": list(conf), "last": last0.isoformat() if last0 else None,
          "polls": [[r, t.isoformat()] for r, t in polls], "runners": n_run}
    last = last0
    for (r, ts), fired in zip(polls, got):
        want, p = spec_fires(expr, conf, ts, last)
        if fired != (1 if want else 0):
            # known: inside the scheduled minute the window / tolerance is not consulted (cron-window-ignored-...)
            if not (fired == 1 and p is not None and p == ts.replace(second=0, microsecond=0)):
                ctx.violation(f"cron-runners:sqlite:{'extra' if fired > (1 if want else 0) else 'missing'}",
                              f"sqlite, {n_run} runners with their own last-execution caches on one store: cron `{expr}` {conf}: poll "
                              f"{ts.isoformat()} by runner {r} (scheduled minute {p}, last firing {last}) launched {fired}, the "
                              f"statement says {1 if want else 0}; polls {[(a, b.strftime('%H:%M:%S')) for a, b in polls]} -> launches {got}", rp)
        if fired:
            last = ts
    if model is not None and [min(g, 1) for g in got] != model:
        ctx.violation("cron-runners:sqlite:model-mismatch",
                      f"sqlite, {n_run} runners: cron `{expr}` {conf}: launches per poll {got}, model {model}",
                      {**rp, "impl": got, "model": model})
    return len(polls)


def coq_runner_case(case) -> str:
    expr, conf, last0, polls, n_run = case
    lo = polls[0][1] - timedelta(seconds=conf[0] + 180)
    c = "{| cw_window_s := %d; cw_min_interval_s := %d; cw_tolerance_s := %d; cw_strict := %s |}" % (
        conf[0], conf[1], conf[2], "true" if conf[3] else "false")
    sch = "(sched_of [%s])" % "; ".join(str(m) for m in sched_minutes(expr, lo, polls[-1][1]))
    l0 = "None" if last0 is None else f"(Some {us(last0)})"
    ps = "; ".join(f"({r}%nat, {us(t)})" for r, t in polls)
    caches = "; ".join("None" for _ in range(n_run))
    return f"map b2n (mr_polls {sch} gen_facts {c} {l0} [{caches}] [{ps}])"


def run_cron_runners(ctx: Ctx, scratch: str):
    rng = ctx.rng
    m10 = datetime(2031, 3, 4, 10, 0, 10, tzinfo=UTC)
    cases = [("* * * * *", (60, 50, 30, False), None, [(i % 2, m10 + timedelta(minutes=i)) for i in range(6)], 2),
             ("*/2 * * * *", (60, 50, 30, False), m10 - timedelta(minutes=2),
              [([0, 1, 1, 0, 0, 1, 0, 1][i], m10 + timedelta(minutes=i)) for i in range(8)], 2)]
    for _ in range(200 if ctx.thorough else 14):
        cases.append(gen_runner_case(rng))
    vals = ctx.coq_eval(IMPORTS, [coq_runner_case(c) for c in cases], chunk=40, scope="Z_scope")
    n = 0
    fired = 0
    for case, model in zip(cases, vals):
        n += check_runner_case(ctx, scratch, case, model)
        fired += sum(model)
    ctx.count(n, len(cases))
    ctx.notes["cron_runners"] = {"cases": len(cases), "polls": n, "model_fired": fired,
                                 "runners": {k: sum(1 for c in cases if c[4] == k) for k in (2, 3)}}
    ctx.sample({"cron_runners": cases[0][0], "polls": [[r, t.isoformat()] for r, t in cases[0][3]], "model": vals[0]})


# ------------------------------------------------------------------ main / replay
def main(ctx: Ctx) -> int:
    world.quiet()
    patch_clock()
    info = ctx.translate("trigger", trigger_tr.translate, "gen/Trigger_gen.v")
    if info.get("shape_changed"):
        ctx.log("trigger function shapes changed:", info["shape_changed"], "- relying on the correspondence")
    ctx.prove("Props/C13.v")
    facts = info.get("facts")
    if facts is None:       # degraded translator: read the default facts back from the model
        names = BOOL_FACTS
        vals = ctx.coq_eval(IMPORTS, ["map b2n [" + "; ".join(f"f_{n} gen_facts" for n in names) + "]"])[0]
        facts = {n: bool(v) for n, v in zip(names, vals)}
    scratch = world.scratch_dir()
    try:
        run_histories(ctx, scratch)
        ctx.log("histories done")
        run_targeted(ctx, scratch)
        ctx.log("targeted witnesses done")
        run_two_loops(ctx, scratch, facts)
        ctx.log("two-loop interleavings done")
        run_reporter_vs_loop(ctx, scratch, facts)
        ctx.log("reporter thread x loop iteration done")
        run_cron(ctx, scratch)
        ctx.log("cron done")
        run_cron_runners(ctx, scratch)
        ctx.log("cron with several runners done")
    finally:
        world.rm_scratch(scratch)
    ctx.assumptions += [
        "run ids (SHA-256 of trigger id + valid-condition ids) are modelled as the pair (trigger, set of valid-condition keys): no collisions",
        "croniter agrees with the brute-force 5-field evaluator (checked on the generated family only)",
        "two concurrent loops are explored with a single pre-emption: loop B runs a whole iteration (or, scenario `report`, another "
        "occurrence is reported) at each SQL statement (SQLite) / source line (in-memory) of loop A, unless A holds the store lock / "
        "a write transaction there",
        "virtual clock: pynenc.trigger.{base,mem,sqlite}_trigger.datetime replaced by a subclass whose now() is driven by the harness",
        "occurrences are reported through the trigger component's public entry points (emit_event, report_tasks_status, "
        "report_invocation_result, report_invocation_failure) or by ending a real invocation through "
        "orchestrator.set_invocation_result / set_invocation_exception (op `fin`); real invocations of registered tasks; no runner is started",
        "several runners = several app objects (own trigger object and last-execution cache) on one SQLite database, polled one after "
        "the other under the virtual clock; max_events_batch_size is the only trigger option varied (default, 1-4)",
    ]
    ctx.trusted += ["oracle (Section variable in Model/Cron.v): the schedule predicate on minutes, instantiated by the brute-force evaluator",
                    "SQLite: a statement is atomic; BEGIN IMMEDIATE excludes other writers; INSERT OR REPLACE re-inserts the row at the end"]
    return ctx.finish(
        rule="histories: seeded configurations (1-3 conditions of 4 kinds, 1-3 triggers AND/OR/default, static/none/context argument "
             "providers) x rounds of occurrences (direct reports or whole finished invocations) + loop iterations, classes clean / "
             "multi-pending / burst (more pending than the configured batch size; 130 with the default), every other case with "
             "max_events_batch_size 1-3, on both stores; targeted witnesses "
             "of the known classes; two loops: every single pre-emption point for 4 scenarios x 2 stores; reporter thread x loop "
             "iteration (in-memory): every reporter line x (whole iteration + every 41st / 5th iteration line) for 2 scenarios; cron: seeded expressions x 10 "
             "settings x poll sequences (regular/jitter/burst/gaps), each poll one evaluation; cron with 2-3 runners on one SQLite "
             "store: seeded expressions x 5 settings x poll orders (alternate/random/blocks/rotate); distinct_nontrivial = distinct "
             "(configuration, history, batch size) triples + pre-emption points + distinct (expression, settings) pairs + runner cases")


def replay(ctx: Ctx, path: str) -> int:
    from pynenc.trigger.conditions.cron import CronCondition, CronContext
    world.quiet()
    patch_clock()
    rp = json.load(open(path))["replay"]
    scratch = world.scratch_dir()
    try:
        if rp["kind"] == "history":
            w = TrigWorld(rp["backend"], scratch, rp["trigs"], batch=rp.get("batch"))
            ops = [tuple(o) for o in rp["ops"]]
            res = run_history_impl(w, ops)
            w.flush()
            print(f"store {rp['backend']}, max_events_batch_size {rp.get('batch') or 'default'}")
            for i, r in enumerate(res["rounds"]):
                ls = r["launches"] if len(r["launches"]) <= 8 else f"{len(r['launches'])} launches, first {r['launches'][:3]}"
                print(f"iteration {i}: pending before {r['pending_before']} launches {ls} pending after {r['pending_after']}")
            print("oracle:", [(a, b[:300]) for a, b in oracle_history(rp["trigs"], expand_ops(rp["trigs"], ops), res)])
        elif rp["kind"] == "two_loops":
            trigs = [{"conds": [0], "logic": "or", "prov": [0]}, {"conds": [0], "logic": None, "static": True}]
            cron_trigs = [{"conds": [4], "logic": "or", "prov": [4], "cron": CronCondition("* * * * *")}]

            def setup(w):
                if rp["scenario"] in ("claim", "report"):
                    CLOCK.t, CLOCK.tick = T0, timedelta(0)
                    w.occurrence({"cid": 0, "src": 1, "aux": 0, "n": 1})
                else:
                    CLOCK.t, CLOCK.tick = T0 + timedelta(seconds=5), timedelta(milliseconds=1)
                    if rp["scenario"] == "cron-next":
                        w.trg.store_last_cron_execution(cron_trigs[0]["cron"].condition_id, T0 - timedelta(minutes=3), None)
            runner = sqlite_two_loops if rp["backend"] == "sqlite" else mem_two_loops
            if rp["scenario"] == "report":
                launches, info = runner(scratch, [{"conds": [0], "logic": "or", "static": True}], setup, rp["k"], "report")
            else:
                launches, info = runner(scratch, trigs if rp["scenario"] == "claim" else cron_trigs, setup, rp["k"])
            print("loop B run at", info, "-> launches", launches, "expected", rp["expected_launches"])
        elif rp["kind"] == "report_vs_loop":
            scen = {"event": ([{"conds": [0], "logic": "or", "prov": [0]}],
                              {"cid": 0, "src": 1, "aux": 0, "n": 1}, {"cid": 0, "src": 2, "aux": 0, "n": 2}),
                    "status": ([{"conds": [1], "logic": None, "prov": [1]}, {"conds": [0, 5], "logic": "and", "prov": [0]}],
                               {"cid": 1, "src": 1, "aux": 0, "n": 1}, {"cid": 1, "src": 2, "aux": 1, "n": 2})}
            tr, o1, o2 = scen[rp["scenario"]]

            def setup(w):
                CLOCK.t, CLOCK.tick = T0, timedelta(0)
                if o2["cid"] % 5 != 0:
                    w.invocation(o2["cid"] // 5, o2["src"])
                w.occurrence(o1)
            launches, info = mem_reporter_vs_loop(scratch, tr, setup, o2, rp["i"], rp["j"])
            print("reporter paused at", info["where"], "iteration paused at", info["loop_where"], "->", info)
            print("launches", launches, "expected payloads", rp["expected"])
        elif rp["kind"] == "cron_runners":
            polls = [(r, datetime.fromisoformat(t)) for r, t in rp["polls"]]
            last0 = datetime.fromisoformat(rp["last"]) if rp["last"] else None
            got, _ = runner_polls_impl(scratch, rp["expr"], tuple(rp["conf"]), last0, polls, rp["runners"])
            last = last0
            for (r, ts), fired in zip(polls, got):
                print(ts.isoformat(), "runner", r, "last firing", last, "-> launches", fired, "statement:",
                      spec_fires(rp["expr"], tuple(rp["conf"]), ts, last))
                if fired:
                    last = ts
        elif rp["kind"] == "cron_sat":
            conf = rp["conf"]
            cond = CronCondition(rp["expr"], check_window_seconds=conf[0], min_interval_seconds=conf[1],
                                 precision_tolerance_seconds=conf[2], strict_timing=conf[3])
            ts = datetime.fromisoformat(rp["ts"])
            last = datetime.fromisoformat(rp["last"]) if rp["last"] else None
            print("is_satisfied_by ->", cond.is_satisfied_by(CronContext(timestamp=ts, last_execution=last)),
                  "statement:", spec_fires(rp["expr"], tuple(conf), ts, last))
        elif rp["kind"] == "cron_store":
            conf = rp["conf"]
            cond = CronCondition(rp["expr"], check_window_seconds=conf[0], min_interval_seconds=conf[1],
                                 precision_tolerance_seconds=conf[2], strict_timing=conf[3])
            w = TrigWorld(rp["backend"], scratch, [{"conds": [4], "logic": "or", "prov": [4], "cron": cond}])
            last = datetime.fromisoformat(rp["last"]) if rp["last"] else None
            if last is not None:
                w.trg.store_last_cron_execution(cond.condition_id, last, None)
            for t in rp["polls"]:
                ts = datetime.fromisoformat(t)
                before = len(w.launches)
                CLOCK.t, CLOCK.tick = ts, timedelta(0)
                w.trg.trigger_loop_iteration()
                fired = len(w.launches) - before
                print(t, "last", last, "-> launches", fired, "statement:", spec_fires(rp["expr"], tuple(conf), ts, last))
                if fired:
                    last = ts
            w.flush()
        else:
            conf = rp["conf"]
            cond = CronCondition(rp["expr"], check_window_seconds=conf[0], min_interval_seconds=conf[1],
                                 precision_tolerance_seconds=conf[2], strict_timing=conf[3])
            last = datetime.fromisoformat(rp["last"]) if rp["last"] else None
            for t in rp["polls"]:
                ts = datetime.fromisoformat(t)
                got = cond.is_satisfied_by(CronContext(timestamp=ts, last_execution=last))
                print(t, "last", last, "->", got, "statement:", spec_fires(rp["expr"], tuple(conf), ts, last))
                if got:
                    last = ts
    finally:
        world.rm_scratch(scratch)
    return 0

"""C04 — recovery re-queues stuck PENDING/RUNNING work, never steals live work, survives lost races.

proof: Props/C04.v (scan exactness incl. the inclusive boundaries and never-heartbeated owners; index scan =
       relational scan; the recovery run re-queues every still-stuck scanned invocation exactly once more,
       whatever happened to the others) over gen/RecoveryFacts_gen.v.
tie:   AST/SQL facts + histories of claims/starts/heartbeats (own and parent-reported)/clock advances on both
       real orchestrators in virtual time; at every scan the real result is compared with the Coq scan of the
       state read out of the backend and with the property predicate; recovery runs execute the real core
       task bodies, with owners that move on between the scan and the transitions.
"""
from __future__ import annotations

import json

from harness import world
from harness.common import Ctx
from harness.translate import recovery_facts, status_table
from harness.vclock import VirtualClock, us

GENERATED = [("harness.translate.recovery_facts", "translate", "gen/RecoveryFacts_gen.v")]
MANIFEST = {
    "technique": "Coq proof of scan exactness and of the recovery run (induction over the scanned ids) over generated facts + differential correspondence in virtual time",
    "text": "Theorems (Props/C04.v) about the scans and the recovery run instantiated with facts regenerated from "
            "mem_orchestrator.py / sqlite_orchestrator.py / core_tasks.py: an invocation is selected iff PENDING and entered "
            "<= now-limit (inclusive), resp. RUNNING, owned, owner without any heartbeat >= now-timeout (never-heartbeated owners "
            "selected; parent-reported heartbeats are the same table); the in-memory index scan equals the SQL LEFT JOIN scan; fresh "
            "work is never selected; for every set of scanned ids and EVERY state the run meets (owners may have moved on) each "
            "scanned invocation still in the scanned status ends REROUTED, unowned and queued exactly once more and nothing else "
            "changes; aborting on the first lost race is refuted by a witness. Tie: translator facts + seeded histories with "
            "timestamps placed at / 1us before / 1us after the cut-offs on both backends (virtual clock), real core task bodies "
            "with interference between scan and transition.",
    "note": "Trusted: virtual clock patches time()/datetime.now in the orchestrator/status modules; state read-out uses backend "
            "internals (dicts / tables); float seconds on the microsecond grid map exactly to the model's integer microseconds; "
            "heartbeat table has one row per runner; ABA (scanned stale, re-claimed fresh, then overridden) is a documented "
            "limitation outside the statement proved.",
    "design_ref": "DESIGN.md §6 C04",
}
ST = status_table.STATUSES
IMPORTS = ["Model.Status", "Model.Recovery", "gen.RecoveryFacts_gen"]
RUNNERS = ["r1", "r2", "r3", "c1"]       # c1 = child worker of r1 (heartbeats reported by the parent)


def rcode(r):
    return "None" if r is None else f"(Some {RUNNERS.index(r) + 1 if r in RUNNERS else 9}%nat)"


class Sys:
    """one real app + read-out helpers"""

    def __init__(self, kind, scratch, limit, dead_min, clock):
        from harness import tasks_basic
        self.kind, self.clock = kind, clock
        self.app = world.make_app(kind, scratch, max_pending_seconds=limit, runner_considered_dead_after_minutes=dead_min)
        self.task = tasks_basic.bind(self.app, tasks_basic.add_one)
        self.ids: list[str] = []
        self.limit, self.timeout = limit, dead_min * 60

    def register(self):
        from pynenc.arguments import Arguments
        from pynenc.call import Call
        from pynenc.invocation.dist_invocation import DistributedInvocation
        inv = DistributedInvocation.from_parent(Call(self.task, Arguments({"x": len(self.ids)})), None)
        self.app.orchestrator.register_new_invocations([inv])
        self.ids.append(inv.invocation_id)

    def set(self, i, status, rid):
        from pynenc.invocation.status import InvocationStatus
        try:
            self.app.orchestrator.set_invocation_status(self.ids[i], InvocationStatus[status], world.runner_ctx(rid))
            return True
        except Exception:
            return False

    def record(self, i):
        r = self.app.orchestrator.get_invocation_status_record(self.ids[i])
        ts = r.timestamp.timestamp() if hasattr(r.timestamp, "timestamp") else float(r.timestamp)
        return (r.status.name, r.runner_id, us(ts))

    def records(self):
        return [self.record(i) for i in range(len(self.ids))]

    def heartbeats(self):
        o = self.app.orchestrator
        if self.kind == "mem":
            return sorted((r, us(t)) for r, t in o.runner_last_heartbeat.items())
        from pynenc.util.sqlite_utils import create_sqlite_connection
        with create_sqlite_connection(o.sqlite_db_path) as conn:
            return sorted((r, us(t)) for r, t in conn.execute(f"SELECT runner_id, last_heartbeat FROM {o.tables.RUNNER_HEARTBEATS}").fetchall())

    def queue(self):
        b = self.app.broker
        if self.kind == "mem":
            return [self.ids.index(x) for x in b._queue]
        from pynenc.util.sqlite_utils import create_sqlite_connection
        with create_sqlite_connection(b.sqlite_db_path) as conn:
            return [self.ids.index(x[0]) for x in conn.execute(f"SELECT invocation_id FROM {b.tables.QUEUE} ORDER BY created_at, id").fetchall()]

    def flush(self):
        self.app.state_backend.wait_for_all_async_operations()


def coq_store(recs):
    return "[" + "; ".join(f"({i}%nat, {{| rst := {s}; rown := {rcode(o)}; rts := {t} |}})" for i, (s, o, t) in enumerate(recs)) + "]"


def coq_hb(hb):
    return "[" + "; ".join(f"({RUNNERS.index(r) + 1 if r in RUNNERS else 9}%nat, {t})" for r, t in hb) + "]"


def gen_history(rng, limit, timeout):
    """ops over 5 invocations / 4 runners; clock steps land exactly on, 1us before and 1us after cut-offs"""
    ops = []
    steps = [0.0, 0.25, 1.0, limit - 0.000001, limit, limit + 0.000001, limit / 2,
             timeout - 0.000001, timeout, timeout + 0.000001, timeout / 2, timeout / 12, timeout * 0.95]
    for _ in range(rng.randint(6, 30)):
        r = rng.random()
        if r < 0.18:
            ops.append(("claim", rng.randrange(5), rng.choice(RUNNERS)))
        elif r < 0.30:
            ops.append(("start", rng.randrange(5)))
        elif r < 0.36:
            ops.append(("finish", rng.randrange(5), rng.choice(["SUCCESS", "RETRY", "KILLED"])))
        elif r < 0.50:
            ops.append(("hb" if rng.random() < 0.7 else "hb_svc", rng.sample(RUNNERS[:3], rng.randint(1, 2))))
        elif r < 0.56:
            ops.append(("parent_hb", rng.choice([["c1"], []])))
        elif r < 0.74:
            ops.append(("adv", rng.choice(steps)))
        elif r < 0.84:
            ops.append(("scan_pending",))
        elif r < 0.92:
            ops.append(("scan_running",))
        elif r < 0.96:
            ops.append(("recover_pending", rng.random() < 0.6))
        else:
            ops.append(("recover_running", rng.random() < 0.6))
    ops += [("scan_pending",), ("scan_running",), ("recover_pending", True), ("recover_running", True)]
    return ops


_PARENTS: dict = {}


def ParentStub(app, alive):  # noqa: N802 - kept as a factory under its old name
    """a REAL (minimal, concrete) BaseRunner of `app` whose live children are `alive`: drives the real
    BaseRunner._report_child_runner_heartbeats with every attribute BaseRunner.__init__ sets up"""
    from pynenc.runner.base_runner import BaseRunner

    class ParentRunner(BaseRunner):
        alive_children: list = []

        @staticmethod
        def mem_compatible() -> bool:
            return True

        @property
        def max_parallel_slots(self) -> int:
            return 1

        def _on_start(self):
            pass

        def _on_stop(self):
            pass

        def _on_stop_runner_loop(self):
            pass

        def _waiting_for_results(self, *a, **k):
            pass

        def runner_loop_iteration(self):
            pass

        def get_active_child_runner_ids(self):
            return list(self.alive_children)
    key = id(app)
    if key not in _PARENTS:
        _PARENTS.clear()
        _PARENTS[key] = ParentRunner(app)
    _PARENTS[key].alive_children = list(alive)
    return _PARENTS[key]


def run_core_task(sysm: Sys, which: str, interfere):
    """Run the real core task body with the app/runner context it expects; `interfere` is applied after the
    scan returned and before the first transition (owners moving on)."""
    from pynenc import context, core_tasks
    app = sysm.app
    fn = getattr(core_tasks, which)
    orch = app.orchestrator
    scan_name = "get_pending_invocations_for_recovery" if "pending" in which else "get_running_invocations_for_recovery"
    real_scan = getattr(orch, scan_name)
    scanned: list = []

    def scan_then_interfere():
        ids = list(real_scan())
        scanned.extend(ids)
        interfere()
        yield from ids
    setattr(orch, scan_name, scan_then_interfere)
    context.set_current_app(app)
    old = context.get_runner_context(app.app_id)
    context.set_runner_context(app.app_id, world.runner_ctx("recovery-runner"))
    exc = None
    try:
        fn()
    except BaseException as ex:  # noqa: BLE001
        exc = ex
    finally:
        delattr(orch, scan_name) if scan_name in orch.__dict__ else None
        if old is not None:
            context.set_runner_context(app.app_id, old)
        else:
            context.clear_runner_context(app.app_id)
    return [sysm.ids.index(x) for x in scanned], exc


def run_history(ctx: Ctx, kind, scratch, ops, limit, dead_min, queries, tag):
    from pynenc.runner.base_runner import BaseRunner
    clock = VirtualClock()
    with clock:
        s = Sys(kind, scratch, limit, dead_min, clock)
        for _ in range(5):
            s.register()
            clock.advance(0.25)
        true_hb: dict = {}                      # what the history itself says: runner -> time of its last heartbeat (own or reported)
        for k, op in enumerate(ops):
            name = op[0]
            if name in ("hb", "hb_svc", "parent_hb"):
                for r_ in op[1]:
                    true_hb[r_] = us(clock.now)
            if name == "claim":
                s.set(op[1], "PENDING", op[2])
            elif name == "start":
                rec = s.record(op[1])
                s.set(op[1], "RUNNING", rec[1])
            elif name == "finish":
                rec = s.record(op[1])
                s.set(op[1], op[2], rec[1])
            elif name == "hb":
                s.app.orchestrator.register_runner_heartbeats(op[1])
            elif name == "hb_svc":
                s.app.orchestrator.register_runner_heartbeats(op[1], can_run_atomic_service=True)
            elif name == "parent_hb":
                BaseRunner._report_child_runner_heartbeats(ParentStub(s.app, op[1]))
            elif name == "adv":
                clock.advance(op[1])
            elif name in ("scan_pending", "scan_running"):
                recs, hb, now = s.records(), s.heartbeats(), us(clock.now)
                if name == "scan_pending":
                    got = sorted(s.ids.index(x) for x in s.app.orchestrator.get_pending_invocations_for_recovery())
                    want = sorted(i for i, (st, o, t) in enumerate(recs) if st == "PENDING" and t <= now - us(limit))
                    fact = "mem_pending_le" if kind == "mem" else "sqlite_pending_le"
                    expr = f"pending_scan {fact} {now} {us(limit)} {coq_store(recs)}"
                else:
                    got = sorted(s.ids.index(x) for x in s.app.orchestrator.get_running_invocations_for_recovery())
                    cutoff = now - us(s.timeout)
                    stored = dict(hb)
                    lost = sorted(r_ for r_, t_ in true_hb.items() if stored.get(r_) != t_)
                    if lost:
                        ctx.violation(f"heartbeat:{kind}:not-recorded",
                                      f"{kind}: heartbeats sent in this history are not what the backend holds: runner(s) {lost}: sent at "
                                      f"{[true_hb[r_] for r_ in lost]}, stored {[stored.get(r_) for r_ in lost]} (now={now}us)",
                                      {"kind": "history", "backend": kind, "ops": ops[:k + 1], "limit": limit, "dead_min": dead_min,
                                       "observed": hb, "expected": sorted(true_hb.items())})
                    fresh = {r for r, t in true_hb.items() if t >= cutoff}
                    want = sorted(i for i, (st, o, t) in enumerate(recs) if st == "RUNNING" and o is not None and o not in fresh)
                    expr = (f"mem_running_scan mem_hb_ge {now} {us(s.timeout)} {coq_hb(hb)} {coq_store(recs)}" if kind == "mem" else
                            f"sql_running_scan sqlite_hb_ge sqlite_never_hb_selected {now} {us(s.timeout)} {coq_hb(hb)} {coq_store(recs)}")
                queries.append((expr, got, {"tag": tag, "step": k, "op": name, "backend": kind}))
                if got != want:
                    boundary = [i for i in set(got) ^ set(want)]
                    ctx.violation(f"scan:{kind}:{name}",
                                  f"{kind}: {name} returned {got}, the statement selects {want} (now={now}us limit={us(limit)}us "
                                  f"timeout={us(s.timeout)}us records={recs} heartbeats={hb}; differing ids {boundary})",
                                  {"kind": "history", "backend": kind, "ops": ops[:k + 1], "limit": limit, "dead_min": dead_min,
                                   "observed": got, "expected": want})
            else:  # recover_pending / recover_running
                which = "recover_pending_invocations" if name == "recover_pending" else "recover_running_invocations"
                src = "PENDING" if name == "recover_pending" else "RUNNING"
                via = src + "_RECOVERY"
                before_q = s.queue()
                state = {}

                def interfere(op=op, src=src, state=state):
                    # the owner of the first scanned-looking invocation moves on (lost race for the recovery)
                    if op[1]:
                        for i, (st, o, t) in enumerate(s.records()):
                            if st == src and o is not None:
                                nxt = "RUNNING" if src == "PENDING" else "SUCCESS"
                                if s.set(i, nxt, o):
                                    state["moved"] = i
                                    break
                    state["recs"] = s.records()
                scanned, exc = run_core_task(s, which, interfere)
                recs0 = state.get("recs", s.records())
                recs1, q1, now = s.records(), s.queue(), us(clock.now)
                # property oracle
                for i in scanned:
                    if recs0[i][0] == src:
                        ok = recs1[i][0] == "REROUTED" and recs1[i][1] is None and q1.count(i) == before_q.count(i) + 1
                        if not ok:
                            ctx.violation(f"recover:{kind}:stranded-after-lost-race" if state.get("moved") is not None else f"recover:{kind}:not-requeued",
                                          f"{kind}: {which}: invocation #{i} was scanned and still {src} when the run started, but ends "
                                          f"{recs1[i][:2]} with {q1.count(i) - before_q.count(i)} new queue entries"
                                          + (f" (the run raised {type(exc).__name__} after losing the race for #{state.get('moved')})" if exc else ""),
                                          {"kind": "history", "backend": kind, "ops": ops[:k + 1], "limit": limit, "dead_min": dead_min,
                                           "scanned": scanned, "moved_on": state.get("moved"), "before": recs0, "after": recs1,
                                           "queue_before": before_q, "queue_after": q1, "raised": repr(exc)})
                for i in range(len(recs1)):
                    if i not in scanned and (recs1[i] != recs0[i] or q1.count(i) != before_q.count(i)):
                        ctx.violation(f"recover:{kind}:touched-unscanned",
                                      f"{kind}: {which} changed invocation #{i} which the scan had not selected: {recs0[i]} -> {recs1[i]}",
                                      {"kind": "history", "backend": kind, "ops": ops[:k + 1], "limit": limit, "dead_min": dead_min})
                # model correspondence: same run on the same pre-state
                expr = (f"(fun w => (map (fun i => match rlookup i (rrecs w) with Some r => (status_code (rst r), match rown r with None => 0%nat | Some x => x end) | None => (99%nat,0%nat) end) (seq 0 {len(recs0)}), rqueue w)) "
                        f"(recover_run recovery_tolerates_lost_race {now} {via} (Some 9%nat) [{'; '.join(str(i) + '%nat' for i in scanned)}] "
                        f"{{| rrecs := {coq_store(recs0)}; rqueue := [{'; '.join(str(i) + '%nat' for i in before_q)}] |}})")
                got = ([(ST.index(st), (RUNNERS.index(o) + 1 if o in RUNNERS else 9) if o is not None else 0) for st, o, t in recs1], q1)
                queries.append((expr, got, {"tag": tag, "step": k, "op": name, "backend": kind, "interfered": state.get("moved")}))
        s.flush()


def loop_liveness(kind: str, scratch: str, dead_min: float = 0.2, gate_min: float = 0.5, loop_s: float = 1.0, iterations: int = 75) -> dict:
    """The REAL BaseRunner.run loop (a minimal concrete runner whose only child is alive and RUNNING an invocation) in virtual
    time: at every iteration the running-recovery scan must not select the live child's invocation, although the death
    time-out (12 s) is shorter than the atomic-service gate (30 s) — it is longer than the loop period (1 s)."""
    import pynenc.runner.base_runner as br
    from pynenc.invocation.status import InvocationStatus as St
    from harness import tasks_basic
    clock = VirtualClock()
    with clock:
        app = world.make_app(kind, scratch, runner_considered_dead_after_minutes=dead_min, atomic_service_check_interval_minutes=gate_min)
        task = tasks_basic.bind(app, tasks_basic.add_one)
        child = world.runner_ctx("child-1")
        inv = task(1)
        got = list(app.orchestrator.get_invocations_to_run(1, child))
        assert [g.invocation_id for g in got] == [inv.invocation_id]
        app.orchestrator.set_invocation_status(inv.invocation_id, St.RUNNING, child)
        seen: list = []

        class LoopRunner(br.BaseRunner):
            @staticmethod
            def mem_compatible() -> bool:
                return True

            @property
            def max_parallel_slots(self) -> int:
                return 1

            def _on_start(self):
                self._register_new_child_runner_context(child)
                self.n = 0

            def _on_stop(self):
                pass

            def _on_stop_runner_loop(self):
                pass

            def _waiting_for_results(self, *a, **k):
                pass

            def get_active_child_runner_ids(self):
                return ["child-1"]

            def runner_loop_iteration(self):
                self.n += 1
                sel = [str(x) for x in self.app.orchestrator.get_running_invocations_for_recovery()]
                if inv.invocation_id in sel:
                    seen.append((self.n, round(clock.now - t0, 3)))
                if self.n >= iterations:
                    self.running = False

        class T:
            @staticmethod
            def time():
                return clock.now

            @staticmethod
            def sleep(x):
                clock.advance(max(float(x), loop_s))
        real_time = br.time
        br.time = T
        t0 = clock.now
        exc = None
        try:
            r = LoopRunner(app)
            r.run()
        except BaseException as ex:  # noqa: BLE001
            exc = repr(ex)
        finally:
            br.time = real_time
        return {"backend": kind, "iterations": iterations, "dead_after_s": dead_min * 60, "gate_s": gate_min * 60, "loop_s": loop_s,
                "live_child_selected_at": seen[:5], "exc": exc}


def main(ctx: Ctx) -> int:
    world.quiet()
    info = ctx.translate("recovery_facts", recovery_facts.translate, "gen/RecoveryFacts_gen.v")
    ctx.notes["facts"] = info.get("facts")
    ctx.prove("Props/C04.v")
    scratch = world.scratch_dir()
    queries: list = []
    n_hist = 160 if ctx.thorough else 24
    opcount: dict = {}
    try:
        for h in range(n_hist):
            limit = ctx.rng.choice([0.5, 5.0, 60.0])
            dead_min = ctx.rng.choice([0.25, 1.0, 10.0])
            ops = gen_history(ctx.rng, limit, dead_min * 60)
            if h < 3:
                # corpus: the cut-offs exactly, 1us before and 1us after, for an owner's own heartbeat, a parent-reported one and a claim
                limit, dead_min = [0.5, 5.0, 60.0][h], [0.25, 1.0, 10.0][h]
                t, e = dead_min * 60, 0.000001
                ops = [("claim", 0, RUNNERS[0]), ("start", 0), ("claim", 1, "c1"), ("start", 1), ("hb", [RUNNERS[0]]), ("parent_hb", ["c1"]),
                       ("adv", t - e), ("scan_running",), ("adv", e), ("scan_running",), ("adv", e), ("scan_running",),
                       ("hb", [RUNNERS[0]]), ("parent_hb", ["c1"]), ("claim", 2, RUNNERS[1]), ("adv", limit - e), ("scan_pending",),
                       ("adv", e), ("scan_pending",), ("scan_running",), ("adv", e), ("scan_pending",),
                       ("recover_pending", True), ("recover_running", True), ("scan_pending",), ("scan_running",),
                       # an owner that has been silent for longer than the time-out but STARTED an invocation only a moment ago: the
                       # start of an invocation is not a sign of life of its runner
                       ("hb", [RUNNERS[2]]), ("adv", t - 1.0), ("claim", 3, RUNNERS[2]), ("start", 3), ("adv", 2.0), ("scan_running",),
                       ("claim", 4, "c1"), ("start", 4), ("adv", t), ("scan_running",), ("recover_running", True), ("scan_running",),
                       # every heartbeat counts, whatever eligibility flag it carries and however soon it follows the previous one
                       ("hb_svc", [RUNNERS[0]]), ("claim", 0, RUNNERS[0]), ("start", 0), ("adv", t * 0.9), ("hb", [RUNNERS[0]]), ("adv", t * 0.5),
                       ("scan_running",), ("hb", [RUNNERS[1]]), ("claim", 2, RUNNERS[1]), ("start", 2), ("adv", t / 12), ("hb", [RUNNERS[1]]),
                       ("adv", t * 0.95), ("scan_running",), ("recover_running", True), ("scan_running",)]
            for o in ops:
                opcount[o[0]] = opcount.get(o[0], 0) + 1
            for kind in ("mem", "sqlite"):
                run_history(ctx, kind, scratch, ops, limit, dead_min, queries, h)
            if h < 2:
                ctx.sample({"limit_s": limit, "dead_after_min": dead_min, "ops": ops[:14]})
        # the parent's real main loop keeps its live children's evidence of life fresh
        for kind in ("mem", "sqlite"):
            out = loop_liveness(kind, scratch)
            ctx.notes.setdefault("loop_liveness", {})[kind] = out
            if out["live_child_selected_at"] or out["exc"]:
                ctx.violation("loop:live-child-selected",
                              f"{kind}: real BaseRunner.run loop, live child RUNNING an invocation, death time-out {out['dead_after_s']} s > loop period "
                              f"{out['loop_s']} s: the running-recovery scan selected the live child's invocation at (iteration, seconds) "
                              f"{out['live_child_selected_at']} (exception {out['exc']})",
                              {"kind": "loop-liveness", "backend": kind, "observed": out})
    finally:
        world.rm_scratch(scratch)
    scans = [q for q in queries if q[2]["op"].startswith("scan")]
    runs = [q for q in queries if not q[2]["op"].startswith("scan")]
    vals = ctx.coq_eval(IMPORTS, [q[0] for q in scans], chunk=120, scope="Z_scope") + \
        ctx.coq_eval(IMPORTS, [q[0] for q in runs], chunk=120, scope="Z_scope")
    queries = scans + runs
    nontriv = 0
    for (expr, got, meta), m in zip(queries, vals):
        if meta["op"].startswith("scan"):
            mm = sorted(m)
            nontriv += 1 if mm else 0
            if mm != got:
                ctx.violation(f"model:{meta['backend']}:{meta['op']}",
                              f"{meta['backend']}: {meta['op']} = {got} but the Coq scan of the same state = {mm}",
                              {"kind": "model-mismatch", "meta": meta, "expr": expr, "observed": got, "model": mm})
        else:
            mrecs = [tuple(x) for x in m[0]]
            nontriv += 1
            if (mrecs, sorted(m[1])) != (got[0], sorted(got[1])):   # reroute order follows set iteration order
                key = f"model:{meta['backend']}:{meta['op']}"
                ctx.violation(key, f"{meta['backend']}: state after {meta['op']} differs from the Coq recovery run: impl {got}, model {(mrecs, m[1])}",
                              {"kind": "model-mismatch", "meta": meta, "expr": expr, "observed": got, "model": [mrecs, m[1]]})
    ctx.count(len(queries), nontriv)
    ctx.notes["histories"] = {"histories": n_hist, "backends": 2, "scan_and_recovery_observations": len(queries),
                              "op_histogram": opcount, "nonempty_scans_or_runs": nontriv}
    ctx.assumptions += ["virtual clock; timestamps on the microsecond grid", "5 invocations, runners r1..r3 + child c1",
                        "interference = one owner moves on between the scan and the first transition"]
    return ctx.finish(rule="seeded histories (claims, starts, finishes, own and parent-reported heartbeats, clock steps exactly at / 1us "
                           "around the cut-offs, 3x3 timeout settings) on both backends; every scan and every recovery run is one "
                           "evaluation compared with the property predicate and with the Coq model on the read-out state; "
                           "non-trivial = non-empty scan result or a recovery run")


def replay(ctx: Ctx, path: str) -> int:
    world.quiet()
    rp = json.load(open(path))["replay"]
    scratch = world.scratch_dir()
    try:
        if rp.get("kind") == "loop-liveness":
            print(json.dumps(loop_liveness(rp["backend"], scratch), indent=1, default=str))
            return 0
        q: list = []
        ops = [tuple(o) for o in rp["ops"]]
        run_history(ctx, rp["backend"], scratch, ops, rp["limit"], rp["dead_min"], q, "replay")
        for v in ctx.violations + ctx.known_hits:
            print("REPRODUCED:", v["what"])
        if not (ctx.violations or ctx.known_hits):
            print("not reproduced")
    finally:
        world.rm_scratch(scratch)
    return 0

"""C15 — arguments/results round-trip unchanged; call identity canonical; client data store content-addressed.

proof: Props/C15.v over gen/Roundtrip_gen.v (regenerated from call.py, arguments.py, identifiers/*, the
       client data store base class and the JSON serializer on every run).
tie:   (A) compute_args_id: the model's text (Eval vm_compute of `encode gen_enc`), UTF-8 + SHA-256, must equal the
           real id byte for byte; pairs of argument dicts (equal / permuted / one key / one value / adversarial
           separators) checked by an oracle on the real ids;
       (B) Arguments.from_call vs `bind gen_bind` on every spelling of every call of six signatures, error
           spellings included; oracle: all spellings of one call share one real call_id, different calls differ;
       (C) CallId/TaskId key <-> from_key vs the model, guards and their refutation witnesses on the real classes;
       (D) operation sequences (serialize / resolve here / resolve on ANOTHER store instance over the same backend /
           in-place mutation / purge() by this instance / purge() by another instance) on the real Mem and SQLite
           client data stores vs `run_obs gen_cds` for a grid of thresholds x disable flags x LRU sizes; equal content
           is serialized again after purges and evictions; oracle: a text returned by serialize (no purge since)
           resolves - here and on the other instance - to the value it was created from; equal content <=> equal
           reference; the witnesses of the Coq refutation theorems are run as traces first;
       (E) end to end (client -> state backend -> LazyCall on the worker side -> result/exception back) for the three
           serializers x both stores x thresholds x disable_cache_args, warm and cold LRU; then app.purge() and the
           same content again, read by a second app instance on the same database (SQLite) / with a cold LRU (Mem);
       (F) JSON tree layer: json.loads(serialize(v)) and deserialize(serialize(v)) vs preprocess / reconstruct;
       (G) call ids of long values (300 .. 70000 serialized chars; str / list / dict / tuple / bytes) that differ in ONE place
           (first / middle / last / around powers of two / appended / dropped) under every configuration that keeps a
           big value inline (store disabled, disable_cache_args, above max_size, below min_size) and the default;
           oracle: call ids equal <=> serialized arguments equal; the same pairs directly on compute_args_id (part A);
       (H) values that are == (and hash alike) but not the same value (0.0/-0.0, 1/1.0/True, IntEnum/int, StrEnum/str,
           2**53/float) inside every externalisable shape (scalar, list, tuple, frozenset, set, dict key/value, object,
           bytes/bytearray), serialized one after the other through ONE store instance, both orders: each comes back
           as itself, references equal <=> content equal, call ids equal <=> serialized arguments equal.
"""
from __future__ import annotations

import hashlib
import inspect
import itertools
import json
import math
import sqlite3

from harness import tasks_c15 as T
from harness import world
from harness.common import Ctx
from harness.translate import roundtrip

GENERATED = [("harness.translate.roundtrip", "translate", "gen/Roundtrip_gen.v")]

MANIFEST = {
    "technique": "Coq proofs over constants/structure generated from the source + byte-exact and trace-level differential correspondence",
    "text": "Machine-checked theorems (Props/C15.v) over definitions regenerated from the source on every run: the text "
            "compute_args_id hashes is an injective, order-independent function of the argument map for arbitrary code points "
            "(JSON string quoting proved to be a prefix code); call_id equal <=> task equal and argument maps equal (modulo a "
            "collision of the SHA-256 oracle); every spelling of a call (positional prefix / keywords in any order / defaults "
            "omitted) binds to the same map; CallId/TaskId key round trip and injectivity under their guards; for EVERY trace of "
            "serialisations, resolutions and in-place mutations and every threshold/disable/LRU configuration the text returned by "
            "serialize resolves to the value it was created from (partial: guard `quiet`; the generated fact decides whether the "
            "current tree is refuted by LRU aliasing or fully covered) - traces include purges by this and by another store instance "
            "before the serialisation, the reference resolves on this instance and on any other instance over the same backend as long "
            "as no purge follows, and the theorem is instantiated with the generated fact that _maybe_store writes the backend row "
            "unconditionally (a process-local 'already stored' shortcut is refuted in Coq and breaks the proof); "
            "references are a function of content; inline <=> size tests; "
            "LRU bounded; the whole key/value text reaches the args-id hash (generated fact gen_args_text_whole; a slice breaks the proof); JSON envelope round trip for all nested values of the domain, with refutation witnesses for every guard. "
            "Tie: fail-closed AST translator of seven source files + differential runs of model (vm_compute) and real code.",
    "note": "Oracles (Section variables / hypotheses): SHA-256 (collision-free on the contents that occur; never equals 'no_args'), "
            "the serializers' text layer (json/pickle/jsonpickle: deser(ser v) = v, output never starts with the reserved prefix), UTF-8. "
            "Trusted: translator harness/translate/roundtrip.py; hand-written models of inspect.Signature.bind, OrderedDict LRU, "
            "str.rsplit/rpartition, json string escaping (tied by the correspondence). Domain guards (reserved keys / reserved "
            "prefix / dots and colons in identifiers) are necessary: refutation witnesses are proved in Coq and re-checked on the "
            "real classes on every run. The no-purge guard between serialize and resolve is necessary (purge() drops every stored "
            "value by design; witness proved in Coq and run as a trace). 'Another instance' is a second Pynenc app with the same app_id on "
            "the same SQLite file; for the process-local Mem store it is the same instance with an emptied LRU, and the purge by another "
            "instance is not applicable there.",
    "design_ref": "DESIGN.md §6 C15",
}

IMPORTS = ["Model.ArgsId", "Model.Bind", "Model.CDS", "Model.JsonEnv", "gen.Roundtrip_gen"]
ALIAS_KEYS = ("cds-alias:client-object", "cds-alias:resolved-object")


def cs(s: str) -> str:
    return "[" + "; ".join(str(ord(c)) for c in s) + "]"


def b64(v) -> str:
    import base64
    import pickle
    return base64.b64encode(pickle.dumps(v)).decode()


def from_codes(l) -> str:
    return "".join(chr(int(x)) for x in l)


def ev(ctx: Ctx, exprs, chunk=200):
    return ctx.coq_eval(IMPORTS, exprs, chunk=chunk, scope="N_scope")


# =============================================================================== A. args id
ALPHA = ["a", "b", "c", "=", ";", '"', "\\", "\n", "\t", "\x00", "\x1f", "\x7f", " ", ":", "{", ",",
         "é", "€", "\U0001d11e", " ", "B", "_"]


def rstr(rng, lo=0, hi=5):
    return "".join(rng.choice(ALPHA) for _ in range(rng.randint(lo, hi)))


ADVERSARIAL = [
    ({"a": "1;b=2"}, {"a": "1", "b": "2"}),
    ({"a": '1";"b"="2'}, {"a": "1", "b": "2"}),
    ({"a": '1\\";\\"b\\"=\\"2'}, {"a": "1", "b": "2"}),
    ({"a=b": "c"}, {"a": "b=c"}),
    ({'a"="b': "c"}, {"a": 'b"="c'}),
    ({"a": "b;c=d"}, {"a": "b", "c": "d"}),
    ({"ab": "c"}, {"a": "bc"}),
    ({"a": "bc"}, {"a": "b", "c": ""}),
    ({"a": ""}, {}),
    ({"": ""}, {}),
    ({"": "a"}, {"a": ""}),
    ({"a": "1", "b": "2"}, {"b": "2", "a": "1"}),
    ({"a": "1", "b": "2"}, {"a": "2", "b": "1"}),
    ({"a": "x", "B": "y", "_": "z", "aa": "w"}, {"aa": "w", "_": "z", "B": "y", "a": "x"}),
    ({"a\x00": "1", "a": "2"}, {"a": "2", "a\x00": "1"}),
    ({"é": "1", "z": "2", "\U0001d11e": "3"}, {"\U0001d11e": "3", "é": "1", "z": "2"}),
    ({"a": "\\"}, {"a": "\\\\"}),
    ({"a": "\n"}, {"a": "\\n"}),
    ({"a": "\x1f"}, {"a": "\\u001f"}),
    ({"a": "\x7f"}, {"a": "\\u007f"}),
    ({"no_args": "no_args"}, {}),
]


def gen_pairs(ctx: Ctx):
    rng = ctx.rng
    pairs = [("adversarial", a, b) for a, b in ADVERSARIAL]
    n = 600 if ctx.thorough else 90
    for _ in range(n):
        d = {}
        for _ in range(rng.randint(0, 4)):
            d[rstr(rng, 0, 3)] = rstr(rng)
        items = list(d.items())
        kind = rng.choice(["equal", "permuted", "key", "value", "split", "merge"])
        if kind == "equal":
            d2 = dict(items)
        elif kind == "permuted":
            rng.shuffle(items)
            d2 = dict(items)
        elif kind == "key" and items:
            i = rng.randrange(len(items))
            items[i] = (items[i][0] + rng.choice(ALPHA), items[i][1])
            d2 = dict(items)
        elif kind == "value" and items:
            i = rng.randrange(len(items))
            items[i] = (items[i][0], items[i][1] + rng.choice(ALPHA))
            d2 = dict(items)
        elif kind == "split" and items:
            # move the tail of a value into a new key, written with the separators in between
            i = rng.randrange(len(items))
            k, v = items[i]
            k2, v2 = rstr(rng, 1, 2), rstr(rng, 0, 2)
            d2 = dict(items)
            d[k] = v + ";" + k2 + "=" + v2
            d2[k] = v
            d2.setdefault(k2, v2)
        else:
            d2 = dict(items)
            d2[rstr(rng, 0, 2)] = rstr(rng, 0, 2)
        pairs.append((kind, dict(d), d2))
    for L in (1100, 4200):            # long values, byte-exact against the model text as well
        base = "".join(rng.choice(ALPHA) for _ in range(L))
        pairs.append(("value", {"k": base}, {"k": base[:-1] + ("a" if base[-1] != "a" else "b")}))
    return pairs


def long_variants(base: str, rng, n_pos=6):
    """texts that differ from `base` in ONE place: first / middle / last character, random positions, one character
    appended, last character dropped (-> (where, text))"""
    L = len(base)

    def flip(i):
        return base[:i] + ("#" if base[i] != "#" else "%") + base[i + 1:]
    out = [("first", flip(0)), ("middle", flip(L // 2)), ("last", flip(L - 1)), ("appended", base + "z"), ("dropped", base[:-1])]
    out += [(f"at {i}/{L}", flip(i)) for i in sorted(rng.sample(range(L), min(n_pos, L)))]
    # around powers of two (a hashed / compared prefix is usually cut at such a bound)
    out += [(f"at {i}/{L}", flip(i)) for b in (256, 1024, 4096, 16384, 65536) for i in (b - 1, b) if i < L]
    return out


def long_lengths(ctx: Ctx):
    return [300, 1500, 4100, 9000, 70000] + ([300000] if ctx.thorough else [])


def long_args_pairs(ctx: Ctx):
    rng = ctx.rng
    pairs = []
    for L in long_lengths(ctx):
        base = "".join(rng.choice("abcdefghij \"\\\n;=é") for _ in range(L))
        for where, text in long_variants(base, rng):
            pairs.append((f"long:{L}:{where}", {"k": base}, {"k": text}))
            pairs.append((f"long:{L}:{where}", {"a": "1", "k": base, "z": ""}, {"a": "1", "k": text, "z": ""}))
        pairs.append((f"long-key:{L}", {base: "v"}, {base[:-1] + "!": "v"}))
        pairs.append((f"long:{L}:equal", {"k": base, "b": "2"}, {"b": "2", "k": base}))
    return pairs


def model_args_id(ctx: Ctx, dicts: list[dict], empty_id: str):
    exprs = ["encode gen_enc [" + "; ".join(f"({cs(k)}, {cs(v)})" for k, v in d.items()) + "]" for d in dicts]
    texts = ev(ctx, exprs)
    out = []
    for d, t in zip(dicts, texts):
        out.append(empty_id if not d else hashlib.sha256(from_codes(t).encode("utf-8")).hexdigest())
    return out


def run_args_id(ctx: Ctx):
    from pynenc.call import compute_args_id
    pairs = gen_pairs(ctx)
    dicts = []
    seen = {}
    for _, a, b in pairs:
        for d in (a, b):
            key = json.dumps(list(d.items()))
            if key not in seen:
                seen[key] = len(dicts)
                dicts.append(d)
    empty_id = from_codes(ev(ctx, ["empty_id gen_enc"])[0])
    model = model_args_id(ctx, dicts, empty_id)
    impl = [compute_args_id(dict(d)) for d in dicts]
    mism = [[list(d.items()), m, i] for d, m, i in zip(dicts, model, impl) if m != i]
    if mism:
        ctx.notes["args_id_model_vs_impl_mismatches"] = {"count": len(mism), "first": mism[:3]}
    lens = {len(i) for d, i in zip(dicts, impl) if d}
    kinds: dict = {}
    for kind, a, b in pairs:
        ia, ib = compute_args_id(dict(a)), compute_args_id(dict(b))
        kinds[kind] = kinds.get(kind, 0) + 1
        if (ia == ib) != (a == b):
            if max([0] + [len(x) for d in (a, b) for kv in d.items() for x in kv]) > 200:
                ctx.violation("args-id:collision" if a != b else "args-id:order",
                              f"argument maps with a long ({max(len(v) for v in a.values())} chars) value that {'differ in one character' if a != b else 'are equal'} get the ids {ia[:16]} / {ib[:16]}",
                              {"kind": "args_id_pair", "d1": list(a.items()), "d2": list(b.items()), "observed": [ia, ib],
                               "expected": "different ids" if a != b else "equal ids"})
            elif a == b:
                ctx.violation("args-id:order", f"the same argument map written in two orders gets two ids: {list(a.items())} / {list(b.items())}",
                              {"kind": "args_id_pair", "d1": list(a.items()), "d2": list(b.items()), "observed": [ia, ib], "expected": "equal ids"})
            else:
                ctx.violation("args-id:collision", f"two different argument maps get the same id {ia}: {list(a.items())} / {list(b.items())}",
                              {"kind": "args_id_pair", "d1": list(a.items()), "d2": list(b.items()), "observed": [ia, ib], "expected": "different ids"})
    # long values / keys that differ in one place only (oracle on the real ids; two of them also byte-exact vs the model above)
    lp = long_args_pairs(ctx)
    for kind, a, b in lp:
        ia, ib = compute_args_id(dict(a)), compute_args_id(dict(b))
        cls = kind.split(":")[0] + ":" + kind.split(":")[1]
        kinds[cls] = kinds.get(cls, 0) + 1
        if (ia == ib) != (a == b):
            short = lambda d: [[k[:30] + ("..." if len(k) > 30 else ""), f"<{len(v)} chars>" if len(v) > 30 else v] for k, v in d.items()]  # noqa: E731
            ctx.violation("args-id:collision" if a != b else "args-id:order",
                          f"two argument maps that differ in one place ({kind}) get the ids {ia[:16]} / {ib[:16]}: {short(a)}",
                          {"kind": "args_id_pair", "d1": list(a.items()), "d2": list(b.items()), "observed": [ia, ib],
                           "expected": "different ids" if a != b else "equal ids"})
    ctx.count(len(lp), len(lp))
    ctx.sample({"args": list(pairs[1][1].items()), "other": list(pairs[1][2].items()),
                "ids": [compute_args_id(pairs[1][1])[:16], compute_args_id(pairs[1][2])[:16]]})
    # a truncated digest: model-guided birthday search on the real function
    if lens and max(lens) < 64:
        n_hex = max(lens)
        ctx.notes["args_id_digest_hex_chars"] = n_hex
        if n_hex <= 10:
            table = {}
            for n in range(1 << 21):
                i = compute_args_id({"a": str(n)})
                if i in table:
                    ctx.violation("args-id:collision", f"truncated digest: {{'a': '{table[i]}'}} and {{'a': '{n}'}} share the id {i}",
                                  {"kind": "args_id_pair", "d1": [["a", str(table[i])]], "d2": [["a", str(n)]], "observed": [i, i],
                                   "expected": "different ids"})
                    break
                table[i] = n
    ctx.count(len(dicts) + len(pairs), len(dicts))
    ctx.notes["args_id"] = {"dicts": len(dicts), "pairs": len(pairs), "pair_kinds": kinds,
                            "byte_exact_agreements": len(dicts) - len(mism), "digest_hex_chars": sorted(lens)}


# =============================================================================== B. bind / spellings
NAMES = {"a": 1, "b": 2, "c": 3, "d": 4, "x": 5, "y": 6, "zz": 9}
RNAMES = {v: k for k, v in NAMES.items()}


def sig_of(func):
    out = []
    for p in inspect.signature(func).parameters.values():
        assert p.kind in (p.POSITIONAL_OR_KEYWORD, p.KEYWORD_ONLY)
        out.append((p.name, p.kind == p.KEYWORD_ONLY, None if p.default is p.empty else p.default))
    return out


def coq_sig(sig):
    return "[" + "; ".join(
        f"{{| pname := {NAMES[n]}; kwonly := {'true' if k else 'false'}; pdefault := {'None' if d is None else f'(Some {d})'} |}}"
        for n, k, d in sig) + "]"


def spellings(rng, sig, args, cap_orders=3):
    n_pos = sum(1 for _, k, _ in sig if not k)
    for j in range(n_pos + 1):
        rest = list(range(j, len(sig)))
        omittable = [i for i in rest if sig[i][2] is not None and args[i] == sig[i][2]]
        for r in range(len(omittable) + 1):
            for om in itertools.combinations(omittable, r):
                kw = [i for i in rest if i not in om]
                orders = list(itertools.permutations(kw)) if len(kw) <= 3 else \
                    [tuple(kw), tuple(reversed(kw)), tuple(rng.sample(kw, len(kw)))]
                for o in orders[:6] if len(kw) <= 3 else orders[:cap_orders]:
                    yield (list(args[:j]), [(sig[i][0], args[i]) for i in o])


def error_spellings(sig, args):
    names = [n for n, _, _ in sig]
    full_kw = [(n, a) for n, a in zip(names, args)]
    yield (list(args) + [99], [])                              # too many positional
    yield ([], full_kw + [("zz", 1)])                          # unexpected keyword
    if sig and not sig[0][1]:
        yield ([args[0]], full_kw)                             # multiple values
    req = [i for i, (_, _, d) in enumerate(sig) if d is None]
    if req:
        yield ([], [kv for i, kv in enumerate(full_kw) if i != req[0]])   # missing required
    kwo = [i for i, (_, k, _) in enumerate(sig) if k]
    if kwo:
        yield (list(args[:kwo[0] + 1]), full_kw[kwo[0] + 1:])  # keyword-only given positionally


def run_bind(ctx: Ctx):
    from pynenc.arguments import Arguments
    from pynenc.call import Call
    rng = ctx.rng
    app = world.make_app("mem", None, serializer_cls="JsonSerializer")
    tasks = {f.__name__: app.task(f) for f in T.SIGNATURES + [T.g2]}
    cases = []          # (func name, args tuple, pos, kws, valid?)
    for f in T.SIGNATURES:
        sig = sig_of(f)
        universes = [[d] * (d is not None) + [10 + i, 20 + i] for i, (_, _, d) in enumerate(sig)]
        allargs = list(itertools.product(*universes))
        if len(allargs) > (40 if ctx.thorough else 10):
            allargs = rng.sample(allargs, 40 if ctx.thorough else 10)
        for args in allargs:
            for pos, kws in spellings(rng, sig, args):
                cases.append((f.__name__, args, pos, kws, True))
            for pos, kws in error_spellings(sig, args):
                cases.append((f.__name__, args, pos, kws, False))
    sigs = {f.__name__: sig_of(f) for f in T.SIGNATURES}
    exprs = [f"bind gen_bind {coq_sig(sigs[fn])} [{'; '.join(map(str, pos))}] [{'; '.join(f'({NAMES[k]}, {v})' for k, v in kws)}]"
             for fn, _, pos, kws, _ in cases]
    model = ev(ctx, exprs, chunk=300)
    ids: dict = {}       # (func, args) -> call id key
    by_id: dict = {}
    n_valid = n_err = 0
    mism = []
    for (fn, args, pos, kws, valid), m in zip(cases, model):
        func = getattr(T, fn)
        try:
            got = dict(Arguments.from_call(func, *pos, **dict(kws)).kwargs)
            err = None
        except TypeError as ex:
            got, err = None, str(ex)
        want = None if m is None else {RNAMES[int(k)]: int(v) for k, v in m}
        if got != want:
            mism.append([fn, pos, kws, got, want])
        full = dict(zip([n for n, _, _ in sigs[fn]], args))
        if valid:
            n_valid += 1
            if got != full:
                ctx.violation(f"bind:spelling:{fn}", f"{fn}: spelling pos={pos} kws={kws} of the call {full} binds to {got} ({err})",
                              {"kind": "spelling", "func": fn, "pos": pos, "kws": kws, "expected": full, "observed": got})
                continue
            cid = Call(tasks[fn], Arguments.from_call(func, *pos, **dict(kws))).call_id
            key = (cid.task_id.key, cid.args_id)
            first = ids.setdefault((fn, args), (key, pos, kws))
            if first[0] != key:
                ctx.violation(f"call-id:spelling:{fn}",
                              f"{fn}: two spellings of the call {full} get different call ids: pos={first[1]} kws={first[2]} / pos={pos} kws={kws}",
                              {"kind": "spelling_pair", "func": fn, "a": [first[1], first[2]], "b": [pos, kws], "observed": [first[0], key]})
            other = by_id.setdefault(key, (fn, args))
            if other != (fn, args):
                ctx.violation("call-id:collision", f"different calls share a call id: {other} / {(fn, args)}",
                              {"kind": "spelling_pair", "func": fn, "a": [list(other[1]), []], "b": [list(args), []], "observed": [key, key]})
        else:
            n_err += 1
            if got is not None and got == full and fn != "f0":
                pass        # an error spelling may legitimately be accepted by Python only if it is a valid call; none of ours is
            if (got is None) != (want is None):
                pass        # recorded in mism
    # same arguments, different task -> different identity
    a2 = Call(tasks["f2"], Arguments.from_call(T.f2, 1, 2)).call_id
    b2 = Call(tasks["g2"], Arguments.from_call(T.g2, 1, 2)).call_id
    if a2 == b2 or a2.args_id != b2.args_id:
        ctx.violation("call-id:task", f"f2(1,2) and g2(1,2): call ids {a2} / {b2}",
                      {"kind": "spelling_pair", "func": "f2", "a": [[1, 2], []], "b": [[1, 2], []], "observed": [str(a2), str(b2)]})
    if mism:
        ctx.notes["bind_model_vs_impl_mismatches"] = {"count": len(mism), "first": mism[:3]}
    ctx.sample({"func": cases[5][0], "pos": cases[5][2], "kws": cases[5][3], "model": model[5]})
    ctx.count(len(cases), len(ids) + n_err)
    ctx.notes["bind"] = {"spellings": n_valid, "error_spellings": n_err, "distinct_calls": len(ids),
                         "agreements": len(cases) - len(mism), "signatures": [f.__name__ for f in T.SIGNATURES]}


# =============================================================================== C. keys
def run_keys(ctx: Ctx):
    from pynenc.identifiers.call_id import CallId
    from pynenc.identifiers.task_id import TaskId
    rng = ctx.rng
    mods = ["m", "pkg.mod", "a.b.c", "harness.tasks_c15", "mé.x", "_p", "a:b"]
    funcs = ["f", "ident", "f_2", "été", "g"]
    aids = ["no_args", hashlib.sha256(b"x").hexdigest(), "0" * 64]
    good = [(m, f, a) for m in mods for f in funcs for a in aids]
    if not ctx.thorough:
        good = rng.sample(good, 40)
    good += [(getattr(T, n).__module__, n, "no_args") for n in ("f0", "f3", "ident")]
    bad = [("m", "a.b", "no_args"), ("m", "f", "x:y"), ("", "f", "no_args"), ("m", "", "no_args"), ("m", "f.", "no_args")]

    def impl(m, f, a):
        key = CallId(TaskId(m, f), a).key
        try:
            c = CallId.from_key(key)
            return [c.task_id.module, c.task_id.func_name, c.args_id]
        except ValueError:
            return None
    cases = good + bad
    exprs = [f"call_from_key gen_keys (call_key gen_keys (({cs(m)}, {cs(f)}), {cs(a)}))" for m, f, a in cases]
    model = ev(ctx, exprs)
    mism = []
    witnesses = []
    for (m, f, a), mo in zip(cases, model):
        got = impl(m, f, a)
        want = None if mo is None else [from_codes(x) for x in mo]      # Coq prints ((m, f), a) as (m, f, a)
        if got != want:
            mism.append([[m, f, a], got, want])
        guard = bool(m) and bool(f) and "." not in f and ":" not in a
        if guard and got != [m, f, a]:
            ctx.violation("key-roundtrip", f"CallId.from_key(CallId(TaskId({m!r},{f!r}),{a!r}).key) = {got}",
                          {"kind": "key", "module": m, "func": f, "args_id": a, "observed": got, "expected": [m, f, a]})
        if not guard:
            witnesses.append({"input": [m, f, a], "real_from_key": got, "round_trips": got == [m, f, a]})
    if mism:
        ctx.notes["keys_model_vs_impl_mismatches"] = {"count": len(mism), "first": mism[:3]}
    ctx.count(len(cases), len(cases))
    ctx.notes["keys"] = {"cases": len(cases), "agreements": len(cases) - len(mism), "guard_witnesses_on_real_classes": witnesses}


# =============================================================================== D. client data store traces
def ser_list(v):
    return json.dumps(list(v))


VALUES = [[1], [1, 2], [1, 3], [2, 1], [1, 2, 3], [1, 2, 4], [3, 3, 3], [1, 2, 3, 4], [], [5, 6, 7, 8, 9, 1]]


def cds_configs(ctx: Ctx):
    L = len(ser_list([1, 2, 3]))     # 9
    grid = [(dis, mn, mx, cap) for dis in (False, True) for mn in (0, 1, L - 1, L, L + 1, 1024)
            for mx in (0, L, L + 3) for cap in (1, 2, 1024)]
    if ctx.thorough:
        return grid
    must = [(False, 0, 0, 1024), (False, L, 0, 2), (False, L + 1, 0, 1), (False, 0, L, 2), (True, 0, 0, 2), (False, 1024, 0, 2)]
    rest = [g for g in grid if g not in must]
    return must + ctx.rng.sample(rest, 10)


def gen_cds_seq(rng, n_ops):
    """ops: ('ser', value, disable) | ('res', index of an earlier ser op | 'stale') | ('mut', address index, new value)
            | ('cold', index | 'stale')   resolve on ANOTHER store instance over the same backend (a worker)
            | ('purge',)                  purge() of this instance
            | ('xpurge',)                 purge() of another instance on the same backend (shared backends only)
    Values repeat on purpose (equal content before and after a purge / an eviction) and resolutions prefer the
    newest reference: a reference must resolve from the moment serialize returned it."""
    ops = []
    n_ser = 0
    n_obj = 0       # upper bound of live addresses (each ser and each res may create one)
    used: list = []

    def pick_ref():
        if rng.random() >= 0.93:
            return "stale"
        return n_ser - 1 if rng.random() < 0.45 else rng.randrange(n_ser)
    follow = None     # after a purge: prefer serializing earlier content again, then reading the new reference back
    for _ in range(n_ops):
        r = rng.random()
        if follow == "reser" and used and rng.random() < 0.6:
            r, again = 0.0, True
        elif follow == "read" and rng.random() < 0.6:
            r, again = rng.choice((0.4, 0.6)), False
        else:
            again = bool(used) and rng.random() < 0.45
        if n_ser == 0 or r < 0.34:
            v = list(rng.choice(used)) if again else list(rng.choice(VALUES))
            used.append(v)
            ops.append(("ser", v, rng.random() < 0.12))
            n_ser += 1
            n_obj += 1
            follow = "read" if follow == "reser" else None
        elif r < 0.58:
            ops.append(("res", n_ser - 1 if follow == "read" else pick_ref()))
            n_obj += 1
            follow = None
        elif r < 0.76:
            ops.append(("cold", n_ser - 1 if follow == "read" else pick_ref()))
            n_obj += 1
            follow = None
        elif r < 0.88:
            ops.append(("mut", rng.randrange(n_obj), list(rng.choice(VALUES))))
        elif r < 0.95:
            ops.append(("purge",))
            follow = "reser"
        else:
            ops.append(("xpurge",))
            follow = "reser"
    return ops


# the witnesses of the refutation theorems of Props/C15.v and their natural (LRU eviction) variants, as traces
def cds_witness_runs(L):
    big, big2 = [1, 2, 3], [1, 2, 4]
    out = []
    for kind in ("sqlite", "mem"):
        # cds_lru_of_objects_refuted: the client mutates the object it serialized / a resolver mutates what it was handed
        out.append((kind, (False, 0, 0, 4), [("ser", big, False), ("mut", 0, [9]), ("res", 0)]))
        out.append((kind, (False, 0, 0, 1), [("ser", big, False), ("ser", [4], False), ("res", 0), ("mut", 2, [9]), ("res", 0)]))
        for mn, cap in ((0, 4), (L, 1), (L, 1024)):
            conf = (False, mn, 0, cap)
            # cds_skip_known_own_purge_refuted: the same content again after this instance's purge(), read by a worker
            out.append((kind, conf, [("ser", big, False), ("cold", 0), ("purge",), ("ser", big, False), ("cold", 1), ("res", 1)]))
            # ... read by this instance once its LRU has dropped the entry
            out.append((kind, conf, [("ser", big, False), ("ser", big2, False), ("purge",), ("ser", big, False), ("ser", big2, False),
                                     ("res", 2), ("res", 3), ("cold", 2)]))
            # cds_skip_known_refuted: the backend is purged by another instance in between
            out.append((kind, conf, [("ser", big, False), ("xpurge",), ("ser", big, False), ("cold", 1), ("ser", big2, False),
                                     ("res", 1), ("res", 2)]))
            # cds_purge_drops_references (guard, not a defect): a reference created BEFORE the purge is gone afterwards
            out.append((kind, conf, [("ser", big, False), ("purge",), ("res", 0), ("cold", 0), ("ser", big, False), ("res", 0)]))
    return out


def store_contents(cds) -> dict:
    if hasattr(cds, "_storage"):
        return dict(cds._storage)
    with sqlite3.connect(cds.sqlite_db_path) as conn:
        return {k: (v.decode("utf-8") if isinstance(v, bytes) else v)
                for k, v in conn.execute(f"SELECT data_key, data_value FROM {cds.tables.STORE}")}


def run_cds_impl(ctx: Ctx, kind, scratch, conf, ops, prefix, report=True):
    """Runs ops on a real client data store. Returns (observations, model op strings, final store contents, lru contents)."""
    from collections import OrderedDict
    from pynenc.serializer.json_serializer import JsonSerializer
    dis, mn, mx, cap = conf
    custom = dict(serializer_cls="JsonSerializer", disable_client_data_store=dis,
                  min_size_to_cache=mn, max_size_to_cache=mx, local_cache_size=cap)
    app = world.make_app(kind, scratch, **custom)
    cds = app.client_data_store
    shared = kind == "sqlite"     # the backend is shared between store instances (another app on the same database)

    def peer_store():
        """the client data store of ANOTHER app instance over the same backend (a worker process / a second client)"""
        peer = world.make_app(kind, scratch, app_id=app.app_id, **custom)
        assert peer is not app and peer.client_data_store is not cds
        return peer.client_data_store

    def cold_resolve(text):
        if shared:
            return peer_store().resolve(text)
        # process-local backend: the other "instance" is this one once its LRU has dropped everything
        saved, cds._deserialized_cache = cds._deserialized_cache, OrderedDict()
        try:
            return cds.resolve(text)
        finally:
            cds._deserialized_cache = saved
    tracked: list = []            # address -> live python object
    origin: list = []             # address -> 'client' | 'resolved'
    outs: list = []               # per ser op: (real text, canonical model text)
    created: dict = {}            # real text -> serialized content at creation
    ref_of: dict = {}             # content -> real reference
    valid: set = set()            # texts returned by serialize since the last purge (these MUST resolve)
    obs, mops = [], []
    for step, op in enumerate(ops):
        if op[0] == "ser":
            obj = list(op[1])
            text = JsonSerializer.serialize(obj)
            tracked.append(obj)
            origin.append("client")
            out = cds.serialize(obj, disable_cache=op[2])
            if cds.is_reference(out):
                canon = prefix + ":" + text
                if ref_of.setdefault(text, out) != out and report:
                    ctx.violation("cds-ref:not-content-addressed", f"{kind}: equal content {text!r} got two references {ref_of[text]} / {out}",
                                  {"kind": "cds_seq", "backend": kind, "conf": conf, "ops": ops[:step + 1], "why": "equal content, different reference"})
                clash = [t for t, r in ref_of.items() if r == out and t != text]
                if clash and report:
                    ctx.violation("cds-ref:collision", f"{kind}: different contents {clash[0]!r} / {text!r} share the reference {out}",
                                  {"kind": "cds_seq", "backend": kind, "conf": conf, "ops": ops[:step + 1], "why": "different content, same reference"})
            else:
                canon = out
            created.setdefault(out, text)
            valid.add(out)
            outs.append((out, canon))
            obs.append([0] + [ord(c) for c in canon])
            mops.append(f"OSer {cs(text)} {'true' if op[2] else 'false'}")
        elif op[0] in ("res", "cold"):
            cold = op[0] == "cold"
            real, canon = (prefix + ":zzz", prefix + ":zzz") if op[1] == "stale" else outs[op[1]]
            mops.append(f"{'OResCold' if cold else 'ORes'} {cs(canon)}")
            where = "on another store instance over the same backend" if cold and shared else \
                "on this instance with an empty LRU" if cold else "on this instance"
            try:
                obj = cold_resolve(real) if cold else cds.resolve(real)
            except KeyError:
                obs.append([2])
                if real in valid and report:
                    ctx.violation("cds-resolve:missing-on-peer" if cold else "cds-resolve:missing",
                                  f"{kind}: the reference serialize returned for {created[real]} (no purge since) does not resolve {where}: KeyError",
                                  {"kind": "cds_seq", "backend": kind, "conf": conf, "ops": ops[:step + 1], "why": f"KeyError {where}",
                                   "expected": created[real], "observed": "KeyError"})
                continue
            addr = next((i for i, t in enumerate(tracked) if t is obj), None)
            alias = addr is not None
            if not alias:
                tracked.append(obj)
                origin.append("resolved")
                addr = len(tracked) - 1
            now = JsonSerializer.serialize(obj)
            obs.append([1, addr] + [ord(c) for c in now])
            if real in created and now != created[real] and report:
                key = ("cds-alias:client-object" if origin[addr] == "client" else "cds-alias:resolved-object") if alias \
                    else "cds-resolve:wrong-content"
                ctx.violation(key, f"{kind}: serialize returned {real[:40]!r} for the value {created[real]}, resolve {where} now yields {now} "
                                   f"({'the cached live object, mutated in place since' if alias else 'a fresh object'})",
                              {"kind": "cds_seq", "backend": kind, "conf": conf, "ops": ops[:step + 1],
                               "expected": created[real], "observed": now})
        elif op[0] == "purge":
            cds.purge()
            valid.clear()
            mops.append("OPurge")
            obs.append([3])
        elif op[0] == "xpurge":
            if shared:                      # a process-local backend cannot be purged by anybody else: the op is dropped
                peer_store().purge()
                valid.clear()
                mops.append("OPurgeExt")
                obs.append([3])
        else:
            a = op[1] % max(1, len(tracked))
            if tracked:
                tracked[a][:] = op[2]
                mops.append(f"OMut {a} {cs(ser_list(op[2]))}")
                obs.append([3])
            else:
                mops.append("OMut 0 []")
                obs.append([3])
    sha_to_text = {hashlib.sha256(t.encode()).hexdigest(): t for t in created.values()}
    store = sorted(sha_to_text.get(k.split(":", 1)[1], "?" + k) + "|" + v for k, v in store_contents(cds).items())
    lru = [sha_to_text.get(k.split(":", 1)[1], "?" + k) for k in cds._deserialized_cache.keys()]
    return obs, mops, store, lru


def _reser_after_purge(ops) -> bool:
    seen, dropped = set(), set()
    for o in ops:
        if o[0] == "ser" and not o[2]:
            if json.dumps(o[1]) in dropped:
                return True
            seen.add(json.dumps(o[1]))
        elif o[0] in ("purge", "xpurge"):
            dropped |= seen
    return False


def run_cds(ctx: Ctx, scratch: str):
    rng = ctx.rng
    prefix = from_codes(ev(ctx, ["ref_prefix gen_cds"])[0])
    confs = cds_configs(ctx)
    n_seq = 6 if ctx.thorough else 3
    runs = []
    # the witnesses of the refutation theorems first (model-guided candidates): in-place mutation of a cached
    # object, equal content serialized again after a purge by this / another instance, read back cold and warm
    runs += cds_witness_runs(len(ser_list([1, 2, 3])))
    for conf in confs:
        for _ in range(n_seq):
            ops = gen_cds_seq(rng, rng.randint(6, 16))
            for kind in ("mem", "sqlite"):
                runs.append((kind, conf, ops))
    results = [run_cds_impl(ctx, kind, scratch, conf, ops, prefix) for kind, conf, ops in runs]
    exprs = []
    for (kind, conf, ops), (obs, mops, store, lru) in zip(runs, results):
        dis, mn, mx, cap = conf
        exprs.append(
            "(fun r => (fst r, (store (snd r), map fst (lru (snd r))))) "
            f"(run_obs str (fun s => s) (fun s => s) (fun _ => None) (fun s => s) gen_cds {{| disabled := {'true' if dis else 'false'}; min_size := {mn}; "
            f"max_size := {mx}; lru_cap := {cap} |}} (st0 str) [{'; '.join(mops)}])")
    model = ev(ctx, exprs, chunk=60)
    mism = []
    routed = {"inline": 0, "external": 0, "alias_hits": 0, "keyerror": 0}
    plen = len(prefix) + 1
    for (kind, conf, ops), (obs, mops, store, lru), (m_obs, (m_store, m_lru)) in zip(runs, results, model):
        m_obs = [[int(x) for x in o] for o in m_obs]
        m_store_c = sorted(from_codes(k)[plen:] + "|" + from_codes(v) for k, v in m_store)
        m_lru_c = [from_codes(k)[plen:] for k in m_lru]
        n_alloc = 0
        for o in obs:
            if o[0] == 0:
                routed["external" if from_codes(o[1:]).startswith(prefix) else "inline"] += 1
                n_alloc += 1
            elif o[0] == 1:
                if o[1] < n_alloc:
                    routed["alias_hits"] += 1       # resolve handed out an object that was already live
                else:
                    n_alloc += 1
            elif o[0] == 2:
                routed["keyerror"] += 1
        if obs != m_obs or store != m_store_c or lru != m_lru_c:
            first = next((i for i, (x, y) in enumerate(zip(obs, m_obs)) if x != y), None)
            mism.append({"backend": kind, "conf": conf, "ops": ops, "first_diff_at": first,
                         "impl": obs[first] if first is not None else [store, lru],
                         "model": m_obs[first] if first is not None else [m_store_c, m_lru_c]})
    if mism:
        ctx.notes["cds_model_vs_impl_mismatches"] = {"count": len(mism), "first": mism[:2]}
        # model and code disagree: is it the code that breaks the property?  (the oracle above already ran)
    ctx.sample({"backend": runs[0][0], "conf": runs[0][1], "ops": runs[0][2][:8], "observations": [from_codes(o[1:])[:30] if o[0] == 0 else o[:2] for o in results[0][0][:8]]})
    ctx.count(sum(len(r[2]) for r in runs), len({json.dumps([r[1], r[2]]) for r in runs}))
    ctx.notes["cds"] = {"configs": len(confs), "traces": len(runs), "ops": sum(len(r[2]) for r in runs),
                        "agreements": len(runs) - len(mism), "routing": routed,
                        "op_kinds": {k: sum(1 for r in runs for o in r[2] if o[0] == k) for k in ("ser", "res", "cold", "mut", "purge", "xpurge")},
                        "traces_with_reserialisation_after_purge": sum(1 for r in runs if _reser_after_purge(r[2])),
                        "thresholds": sorted({c[1] for c in confs}), "max_sizes": sorted({c[2] for c in confs}),
                        "lru_caps": sorted({c[3] for c in confs})}
    # reference-like strings: the guard of the theorem, re-checked on the real store
    app = world.make_app("mem", None, serializer_cls="JsonSerializer", min_size_to_cache=0)
    s = prefix + "hello"
    out = app.client_data_store.serialize(s)
    try:
        back = app.client_data_store.resolve(out)
    except KeyError:
        back = "<KeyError>"
    ctx.notes["guards_necessary"] = ctx.notes.get("guards_necessary", []) + [
        {"guard": "a str value must not start with the reserved client-data prefix (documented pass-through of reference keys)",
         "witness": s, "serialize": out, "resolve": back, "round_trips": back == s}]


# =============================================================================== E. end to end, all serializers
def canon(v):
    import enum
    if v is None or isinstance(v, bool):
        return ("atom", repr(v))
    if isinstance(v, enum.Enum):
        return ("enum", type(v).__module__, type(v).__qualname__, v.name, canon(v.value))
    if isinstance(v, int):
        return ("int", v)
    if isinstance(v, float):
        return ("float", "nan" if math.isnan(v) else v.hex())
    if isinstance(v, str):
        return ("str", v)
    if isinstance(v, bytes):
        return ("bytes", v.hex())
    if isinstance(v, BaseException):
        return ("exc", type(v).__module__, type(v).__qualname__, canon(list(v.args)))
    if isinstance(v, T.Money):
        return ("Money", canon(v.amount), canon(v.currency))
    if isinstance(v, T.Point):
        return ("Point", canon(v.x), canon(v.y))
    if isinstance(v, list):
        return ("list", tuple(canon(x) for x in v))
    if isinstance(v, tuple):
        return ("tuple", tuple(canon(x) for x in v))
    if isinstance(v, (set, frozenset)):
        return (type(v).__name__, tuple(sorted(map(canon, v), key=repr)))
    if isinstance(v, dict):
        return ("dict", tuple(sorted(((canon(k), canon(x)) for k, x in v.items()), key=repr)))
    return ("other", type(v).__qualname__, repr(v))


SCALARS = [None, True, False, 0, 1, -1, 2 ** 63, -(2 ** 70), 0.0, -0.0, 1.5, 1e308, 5e-324, float("inf"), float("-inf"), float("nan"),
           "", "a", "café € \U0001d11e", 'q"uo\\te', "line\nbreak\ttab\x00\x1f\x7f", "  ", "x" * 1500, "=;:"]


def enum_containers():
    """every enum member (plain Enum, IntEnum - an int -, StrEnum - a str -) inside containers whose OTHER items are all scalars /
    all enums / mixed with containers: a container-level shortcut must not lose the member's class (deterministic, every run)"""
    out = []
    for e in (T.Level.HIGH, T.Mode.FAST, T.Color.RED, T.Level.LOW, T.Mode.SLOW, T.Color.BLUE):
        out += [[e], [e, e], [1, e], ["a", e, 2.5, None, True], [[e]], {"k": [e]}, {"k": e, "n": 1}, [e, [1], {}], [0, "x", [2, e]]]
    out += [[1, 2.5, "a", None, True], [T.Level.LOW, T.Mode.SLOW, T.Color.RED], {"a": [1, "b"], "c": [T.Level.HIGH, 9]}]
    return out


def aliased_values():
    """values in which the SAME inner list / dict object is reachable twice or more: under dict keys whose insertion order
    is not the sorted order, inside lists, at different depths, two aliased objects interleaved, an alias inside an aliased
    object (JSON domain; equality of the decoded value with the original is the oracle, identity of the aliases is not)"""
    out = []
    for mk in (lambda: [1], lambda: {"k": [1]}, lambda: [], lambda: {}, lambda: [[2], {"q": "r"}], lambda: {"b": 1, "a": [2, 3]}):
        x = mk()
        out.append({"z": x, "m": [5], "a": x})
        x = mk()
        out.append({"a": x, "m": [5], "z": x})                       # sorted insertion order (control)
        x = mk()
        out.append([x, [5], x])
        x = mk()
        out.append({"z": {"q": x}, "n": [5], "b": [x, {"y": 0}], "a": x})     # three depths
        x = mk()
        out.append([{"z": x, "c": [x]}, {"d": 1}, {"b": x}])
        x = mk()
        out.append({"z": x, "y": x, "x": x, "c": [7], "b": x, "a": {"p": 1}})  # many references, other containers in between
    hi, lo = [100], [0]
    out.append({"y": hi, "x": lo, "b": hi, "a": lo})
    hi, lo = {"v": [100]}, {"v": [0]}
    out.append({"y": hi, "x": lo, "b": hi, "a": lo})
    hi, lo = [100], {"v": 0}
    out.append([{"z": hi, "k": lo}, [lo, hi], {"b": lo, "a": hi}])
    inner = [1]
    mid = {"z": inner, "a": inner}
    out.append({"z": mid, "m": [5], "a": mid, "0": inner})           # an alias inside an aliased object
    inner = {"k": "v"}
    mid = [inner, [9], inner]
    out.append({"q": mid, "p": {"zz": inner, "aa": mid}, "a": [mid]})
    s = "shared-string" * 3
    out.append({"z": s, "m": [s], "a": s})                           # immutable leaves shared (never a back-reference)
    return out


def aliased_extra():      # pickle / jsonpickle only: tuples, sets, objects
    out = []
    t = (1, [2])
    out.append({"z": t, "m": [5], "a": t})
    x = [1]
    out.append(({"z": x, "a": (x, [5])}, x))
    x = {"k": [1]}
    out.append(T.Point(x, x))
    x = [1]
    out.append({"z": T.Point(x, 2), "m": [5], "a": x})
    p = T.Point(1, [2])
    out.append({"z": p, "m": [5], "a": p})
    x = [3]
    out.append({"z": {1, 2}, "y": x, "b": (x,), "a": x})
    return out


def json_values(rng, n):
    leaves = SCALARS + [T.Color.RED, T.Color.BLUE, T.Level.HIGH, T.Mode.FAST, T.Money(3, "EUR"), T.Money(1.5, "€")]

    def tree(depth):
        r = rng.random()
        if depth == 0 or r < 0.45:
            return rng.choice(leaves)
        if r < 0.72:
            return [tree(depth - 1) for _ in range(rng.randint(0, 3))]
        return {rstr(rng, 0, 3): tree(depth - 1) for _ in range(rng.randint(0, 3))}
    out = list(leaves) + aliased_values() + enum_containers() + [[], {}, [[]], {"": {}}, [1, [2, [3, [4]]]], {"k": [T.Color.RED, {"z": T.Level.LOW}]}]
    out += [tree(4) for _ in range(n)]
    return out


def exc_values():
    return [ValueError("boom"), KeyError("k"), RuntimeError(), TypeError("a", 2, None), ZeroDivisionError("division by zero"),
            T.AppError("custom", 3), T.AppError(), OSError(2, "No such file"), ValueError("café \U0001d11e", [1, "x"])]


def extra_values():      # pickle / jsonpickle only
    return aliased_extra() + [(1, 2), (1, (2, [3])), {1, 2, 3}, frozenset({"a"}), b"\x00\xffbytes", T.Point(1, 2.5), {"t": (1, 2)}, [(), set()],
            (T.Level.HIGH,), (1, T.Mode.FAST, "a"), (T.Color.RED, (T.Level.LOW, 2)), {"t": (T.Mode.SLOW, 1.5)}, frozenset({T.Level.HIGH, 1})]


def run_e2e(ctx: Ctx, scratch: str):
    from pynenc.arguments import Arguments
    from pynenc.call import Call
    from pynenc.invocation.dist_invocation import DistributedInvocation
    rng = ctx.rng
    sers = ["JsonSerializer", "PickleSerializer", "JsonPickleSerializer"]
    n_rand = 60 if ctx.thorough else 14
    combos = [(s, k, mn, dca, dis) for s in sers for k in ("mem", "sqlite") for mn in (0, 1024, 10 ** 9)
              for dca in ((), ("x",), ("*",)) for dis in (False, True)]
    if not ctx.thorough:
        must = [(s, k, mn, (), False) for s in sers for k in ("mem", "sqlite") for mn in (0, 1024)]
        rest = [c for c in combos if c not in must]
        combos = must + rng.sample(rest, 8)
    stats = {"arguments": 0, "results": 0, "exceptions": 0, "external_args": 0, "inline_args": 0,
             "arguments_after_purge": 0, "results_after_purge": 0}
    per_ser: dict = {}
    for ser, kind, mn, dca, dis in combos:
        app = world.make_app(kind, scratch, serializer_cls=ser, min_size_to_cache=mn, disable_client_data_store=dis)
        task = app.task(T.two, disable_cache_args=dca) if dca else app.task(T.two)
        cds = app.client_data_store
        vals = json_values(rng, n_rand) + exc_values()
        if ser != "JsonSerializer":
            vals += extra_values()
        if not ctx.thorough and ser != "JsonSerializer":
            vals = vals[:len(SCALARS) + 6] + aliased_values() + enum_containers()[:12] + exc_values() + extra_values()
        per_ser[ser] = per_ser.get(ser, 0) + len(vals)

        def report(what, v, got, extra, after_purge=False):
            ctx.violation(f"roundtrip:{ser}:{what}" + ("" if after_purge else f":{canon(v)[0]}"),
                          f"{ser}/{kind} min_size={mn} disable_cache_args={dca} disabled={dis}: {what} {repr(v)[:200]} comes back as {repr(got)[:300]} {extra}",
                          {"kind": "roundtrip", "serializer": ser, "backend": kind, "min_size": mn, "disable_cache_args": list(dca),
                           "disabled": dis, "what": what, "value_repr": repr(v), "value_pickle_b64": b64(v), "observed": repr(got),
                           "after_purge": after_purge})
        for idx, v in enumerate(vals):
            is_exc = isinstance(v, BaseException)
            y = vals[(idx * 7 + 3) % len(vals)]
            cold = idx % 2 == 0
            # arguments: client -> storage -> worker (LazyCall)
            try:
                call = Call(task, Arguments.from_call(T.two, v, y=y))
                inv = DistributedInvocation.from_parent(call, None)
                sargs = call.serialized_arguments
                app.state_backend.upsert_invocations([inv])
                if cold:
                    cds._deserialized_cache.clear()        # what a separate worker process starts with
                inv2 = app.state_backend.get_invocation(inv.invocation_id)
                got = inv2.call.arguments.kwargs
                stats["arguments"] += 1
                for sv in sargs.values():
                    stats["external_args" if cds.is_reference(sv) else "inline_args"] += 1
                if canon(got) != canon({"x": v, "y": y}):
                    bad = "x" if canon(got.get("x")) != canon(v) else "y"
                    report("argument", v if bad == "x" else y, got.get(bad), f"(worker-side kwargs, {'cold' if cold else 'warm'} LRU)")
                if inv2.call.call_id != call.call_id:
                    report("call_id", v, inv2.call.call_id, f"expected {call.call_id}")
                if set(sargs) != {"x", "y"}:
                    report("argument-names", v, sorted(sargs), "")
            except Exception as ex:  # noqa: BLE001 - a supported value must not raise on its way
                # attribute the failure to the argument that does not survive on its own
                culprit = v
                for cand in (v, y):
                    try:
                        text = cds.serialize(cand)
                        cds._deserialized_cache.clear()
                        if canon(cds.resolve(text)) != canon(cand):
                            culprit = cand
                            break
                    except Exception:  # noqa: BLE001
                        culprit = cand
                        break
                report("argument", culprit, f"<{type(ex).__name__}: {ex}>", f"(raised while binding two(x={v!r}, y={y!r}))"[:300])
                continue
            # result / exception: worker -> storage -> client
            try:
                if is_exc:
                    app.state_backend.set_exception(inv.invocation_id, v)
                    if cold:
                        cds._deserialized_cache.clear()
                    back = app.state_backend.get_exception(inv.invocation_id)
                    stats["exceptions"] += 1
                else:
                    app.state_backend.set_result(inv.invocation_id, v)
                    if cold:
                        cds._deserialized_cache.clear()
                    back = app.state_backend.get_result(inv.invocation_id)
                    stats["results"] += 1
                if canon(back) != canon(v):
                    report("exception" if is_exc else "result", v, back, "")
            except Exception as ex:  # noqa: BLE001
                report("exception" if is_exc else "result", v, f"<{type(ex).__name__}: {ex}>", "(raised)")
        app.state_backend.wait_for_all_async_operations()
        # second round: the deployment is purged (between two batches), the SAME content is sent again and is picked
        # up by another instance over the same backend (SQLite: a second app on the database; Mem: cold LRU)
        app.purge()
        again = [v for v in vals if not isinstance(v, BaseException)][:4] + ["x" * 1500, {"k": ["y" * 1200, 1.5, None, True]}]
        if kind == "sqlite":
            worker = world.make_app(kind, scratch, app_id=app.app_id, serializer_cls=ser, min_size_to_cache=mn, disable_client_data_store=dis)
            worker.task(T.two, disable_cache_args=dca) if dca else worker.task(T.two)
        else:
            worker = app
        for rnd in (0, 1):          # round 0 after the purge of already-sent content; round 1: plain repetition
            for idx, v in enumerate(again):
                y = again[(idx + 1) % len(again)]
                try:
                    call = Call(task, Arguments.from_call(T.two, v, y=y))
                    inv = DistributedInvocation.from_parent(call, None)
                    app.state_backend.upsert_invocations([inv])
                    app.state_backend.wait_for_all_async_operations()
                    if worker is app:
                        cds._deserialized_cache.clear()
                    got = worker.state_backend.get_invocation(inv.invocation_id).call.arguments.kwargs
                    stats["arguments_after_purge"] += 1
                    if canon(got) != canon({"x": v, "y": y}):
                        bad = "x" if canon(got.get("x")) != canon(v) else "y"
                        report("argument-after-purge", v if bad == "x" else y, got.get(bad), "(worker-side kwargs, second instance)", after_purge=True)
                    worker.state_backend.set_result(inv.invocation_id, v)
                    worker.state_backend.wait_for_all_async_operations()
                    if worker is app:
                        cds._deserialized_cache.clear()
                    back = app.state_backend.get_result(inv.invocation_id)
                    stats["results_after_purge"] += 1
                    if canon(back) != canon(v):
                        report("result-after-purge", v, back, "", after_purge=True)
                except Exception as ex:  # noqa: BLE001 - content that made the trip before the purge must make it again
                    report("argument-after-purge", v, f"<{type(ex).__name__}: {str(ex)[:120]}>",
                           f"(raised on the second instance for two(x={v!r}, y={y!r}) sent again after app.purge())"[:300], after_purge=True)
        worker.state_backend.wait_for_all_async_operations()
    ctx.count(stats["arguments"] + stats["results"] + stats["exceptions"] + stats["arguments_after_purge"] + stats["results_after_purge"],
              sum(per_ser.values()))
    ctx.notes["end_to_end"] = {"configurations": len(combos), "values_per_serializer": per_ser, **stats,
                               "serializers": sers, "stores": ["mem", "sqlite"]}


# =============================================================================== F. JSON tree layer vs model
class Atoms:
    def __init__(self):
        self.t = {("atom", "None"): 0, ("atom", "False"): 1, ("atom", "True"): 2}

    def id(self, v) -> int:
        return self.t.setdefault(canon(v), len(self.t))


def jv_term(v, at: Atoms) -> str:
    if v is None or isinstance(v, (bool, int, float)):
        return f"(JAtom {at.id(v)})"
    if isinstance(v, str):
        return f"(JStr {cs(v)})"
    if isinstance(v, (list, tuple)):
        return "(JList [" + "; ".join(jv_term(x, at) for x in v) + "])"
    if isinstance(v, dict):
        return "(JDict [" + "; ".join(f"({cs(k)}, {jv_term(x, at)})" for k, x in v.items()) + "])"
    raise TypeError(v)


def pv_term(v, at: Atoms) -> str:
    import enum
    if isinstance(v, enum.Enum):
        return f"(PEnv EEnum {cs(type(v).__module__)} {cs(type(v).__qualname__)} {jv_term(v.value, at)})"
    if isinstance(v, BaseException):
        if type(v).__module__ == "builtins":
            return f"(PEnv EErr {cs(type(v).__name__)} [] {jv_term(list(v.args), at)})"
        return f"(PEnv ECExc {cs(type(v).__module__)} {cs(type(v).__qualname__)} {jv_term(list(v.args), at)})"
    if isinstance(v, T.Money):
        return f"(PEnv EJs {cs(type(v).__module__)} {cs(type(v).__qualname__)} {jv_term(v.to_json(), at)})"
    if v is None or isinstance(v, (bool, int, float)):
        return f"(PAtom {at.id(v)})"
    if isinstance(v, str):
        return f"(PStr {cs(v)})"
    if isinstance(v, list):
        return "(PList [" + "; ".join(pv_term(x, at) for x in v) + "])"
    if isinstance(v, dict):
        return "(PDict [" + "; ".join(f"({cs(k)}, {pv_term(x, at)})" for k, x in v.items()) + "])"
    raise TypeError(v)


def str_code(s):
    return [len(s)] + [ord(c) for c in s]


def jv_code(t, at: Atoms):
    if t is None or isinstance(t, (bool, int, float)):
        return [0, at.id(t)]
    if isinstance(t, str):
        return [1] + str_code(t)
    if isinstance(t, (list, tuple)):
        return [2, len(t)] + [x for e in t for x in jv_code(e, at)]
    return [3, len(t)] + [x for k, e in t.items() for x in str_code(k) + jv_code(e, at)]


def pv_code(v, at: Atoms):
    import enum
    if isinstance(v, enum.Enum):
        return [4, 3] + str_code(type(v).__module__) + str_code(type(v).__qualname__) + jv_code(v.value, at)
    if isinstance(v, BaseException):
        if type(v).__module__ == "builtins":
            return [4, 0] + str_code(type(v).__name__) + str_code("") + jv_code(list(v.args), at)
        return [4, 1] + str_code(type(v).__module__) + str_code(type(v).__qualname__) + jv_code(list(v.args), at)
    if isinstance(v, T.Money):
        return [4, 2] + str_code(type(v).__module__) + str_code(type(v).__qualname__) + jv_code(v.to_json(), at)
    if v is None or isinstance(v, (bool, int, float)):
        return [0, at.id(v)]
    if isinstance(v, str):
        return [1] + str_code(v)
    if isinstance(v, list):
        return [2, len(v)] + [x for e in v for x in pv_code(e, at)]
    return [3, len(v)] + [x for k, e in v.items() for x in str_code(k) + pv_code(e, at)]


def strip_messages(v, tree, reserved):
    """remove the (unmodelled, ignored-by-the-decoder) message field of exception envelopes"""
    if isinstance(v, BaseException):
        for k in (reserved["ERROR"], reserved["CLIENT_EXCEPTION"]):
            if isinstance(tree, dict) and k in tree:
                tree[k].pop("message", None)
    elif isinstance(v, list):
        for a, b in zip(v, tree):
            strip_messages(a, b, reserved)
    elif isinstance(v, dict):
        for k in v:
            strip_messages(v[k], tree[k], reserved)


def run_json_tree(ctx: Ctx, reserved: dict):
    from pynenc.serializer.json_serializer import JsonSerializer as J
    rng = ctx.rng
    vals = [v for v in json_values(rng, 150 if ctx.thorough else 40) + exc_values()]
    # witnesses for the guards of json_envelope_roundtrip (user dicts carrying a reserved key)
    witnesses = [
        {reserved["ENUM"]: {"module": T.__name__, "qualname": "Color", "value": "red"}},
        {reserved["ERROR"]: {"type": "ValueError", "args": ["x"]}},
        {"k": [{reserved["JSON_SERIALIZABLE"]: {"module": T.__name__, "qualname": "Money", "data": {"amount": 1, "currency": "c"}}}]},
        {reserved["CLIENT_EXCEPTION"]: {"module": T.__name__, "qualname": "AppError", "args": [1]}},
    ]
    at = Atoms()
    exprs, impl = [], []
    kept = []
    for i0, v in enumerate(vals + witnesses):
        try:
            text = J.serialize(v)
            tree = json.loads(text)
            strip_messages(v, tree, reserved)
            back = J.deserialize(text)
            codes = (jv_code(tree, at), pv_code(back, at), back)
        except Exception as ex:  # noqa: BLE001 - a value of the domain must survive; a raise is a failed round trip
            if i0 < len(vals):
                ctx.violation(f"roundtrip:JsonSerializer:value:{canon(v)[0]}", f"JsonSerializer: {v!r} does not round-trip: {type(ex).__name__}: {ex}",
                              {"kind": "json_value", "value_repr": repr(v), "value_pickle_b64": b64(v), "observed": f"<{type(ex).__name__}: {ex}>"})
            continue
        kept.append(v)
        impl.append(codes)
        t = pv_term(v, at)
        exprs.append(f"(jv_code (preprocess gen_json {t}), pv_code (reconstruct gen_json (preprocess gen_json {t})), wf gen_json {t})")
    model = ev(ctx, exprs, chunk=40)
    mism = []
    wit_notes = []
    for v, (itree, iback, back), (mtree, mback, mwf) in zip(kept, impl, model):
        i = 0 if any(v is x for x in vals) else len(vals)
        mtree, mback = [int(x) for x in mtree], [int(x) for x in mback]
        if itree != mtree or iback != mback:
            mism.append({"value": repr(v)[:200], "tree_equal": itree == mtree, "reconstruct_equal": iback == mback})
        if i < len(vals):
            if not mwf:
                mism.append({"value": repr(v)[:200], "why": "generator produced a value outside wf"})
            if canon(back) != canon(v):
                ctx.violation(f"roundtrip:JsonSerializer:value:{canon(v)[0]}", f"JsonSerializer: {v!r} comes back as {back!r}",
                              {"kind": "json_value", "value_repr": repr(v), "value_pickle_b64": b64(v), "observed": repr(back)})
        else:
            wit_notes.append({"guard": "no user dict carries a reserved key", "witness": repr(v)[:160], "deserialized": repr(back),
                              "round_trips": canon(back) == canon(v), "model_wf": bool(mwf), "model_agrees": iback == mback})
    if mism:
        ctx.notes["json_model_vs_impl_mismatches"] = {"count": len(mism), "first": mism[:3]}
    ctx.notes["guards_necessary"] = ctx.notes.get("guards_necessary", []) + wit_notes
    ctx.count(2 * len(impl), len(vals))
    ctx.notes["json_tree"] = {"values": len(vals), "witnesses": len(witnesses), "agreements": len(impl) - len(mism)}
    import enum

    class _L(enum.IntEnum):
        A = 1
    def obs(f):
        try:
            return repr(f())
        except Exception as ex:  # noqa: BLE001
            return f"<{type(ex).__name__}: {ex}>"
    ctx.notes["domain_restrictions_observed"] = [
        {"what": "tuples come back as lists with JsonSerializer (JSON has no tuple)", "value": "(1, 2)", "observed": obs(lambda: J.deserialize(J.serialize((1, 2))))},
        {"what": "non-str dict keys become str with JsonSerializer", "value": "{1: 2}", "observed": obs(lambda: J.deserialize(J.serialize({1: 2})))},
        {"what": "IntEnum/StrEnum nested inside exception args or to_json() data lose their class (payloads are not pre-processed)",
         "value": "ValueError(Level.HIGH)", "observed": obs(lambda: J.deserialize(J.serialize(ValueError(T.Level.HIGH))).args)},
    ]


# =============================================================================== G. call identity of long inline values
INLINE_CONFS = [            # (label, config values, disable_cache_args): every way a big value stays inline, + the default
    ("store-disabled", {"disable_client_data_store": True}, ()),
    ("disable_cache_args=x", {}, ("x",)),
    ("disable_cache_args=*", {}, ("*",)),
    ("above-max_size", {"min_size_to_cache": 0, "max_size_to_cache": 200}, ()),
    ("below-min_size", {"min_size_to_cache": 10 ** 9}, ()),
    ("externalised(default)", {}, ()),
]


def long_value_families(ser: str, L: int, rng):
    """(shape, base value, [(where, variant)]): values whose serialized text is long and differs in one place"""
    base = "".join(rng.choice("abcdefghij xyz") for _ in range(L))
    fams = []
    vs = long_variants(base, rng, n_pos=3)
    fams.append(("str", base, vs))
    fams.append(("list-of-str", ["head", base, "tail"], [(w, ["head", t, "tail"]) for w, t in vs]))
    fams.append(("dict", {"doc": base, "n": 1}, [(w, {"doc": t, "n": 1}) for w, t in vs]))
    n = max(3, L // 4)
    ints = [rng.randrange(100) for _ in range(n)]

    def at(i, x):
        return ints[:i] + [x] + ints[i + 1:]
    fams.append(("list-of-int", ints, [("first", at(0, 100)), ("middle", at(n // 2, 100)), ("last", at(n - 1, 100)),
                                       ("appended", ints + [0]), ("dropped", ints[:-1])]))
    if ser != "JsonSerializer":
        fams.append(("tuple", tuple(ints), [("first", tuple(at(0, 100))), ("last", tuple(at(n - 1, 100))), ("appended", tuple(ints + [0]))]))
        bb = base.encode()
        fams.append(("bytes", bb, [("first", b"#" + bb[1:]), ("middle", bb[:L // 2] + b"#" + bb[L // 2 + 1:]), ("last", bb[:-1] + b"#")]))
    return fams


def run_long_inline(ctx: Ctx, scratch: str):
    """two calls get the same identity exactly when task and SERIALIZED arguments are equal - also when the serialized
    argument is long and kept inline"""
    from pynenc.arguments import Arguments
    from pynenc.call import Call
    rng = ctx.rng
    n = n_inline = 0
    for ser in ("JsonSerializer", "PickleSerializer", "JsonPickleSerializer"):
        for label, cfg, dca in INLINE_CONFS:
            kind = "sqlite" if label in ("externalised(default)", "above-max_size") else "mem"
            app = world.make_app(kind, scratch, serializer_cls=ser, **cfg)
            task = app.task(T.two, disable_cache_args=dca) if dca else app.task(T.two)
            for L in [x for x in long_lengths(ctx) if x <= 70000]:
                for shape, base, variants in long_value_families(ser, L, rng):
                    seen: dict = {}
                    for where, v in [("base", base), ("base again", base)] + variants:
                        call = Call(task, Arguments.from_call(T.two, v, y=7))
                        sargs = dict(call.serialized_arguments)
                        cid = call.call_id
                        n += 1
                        n_inline += not app.client_data_store.is_reference(sargs["x"])
                        for (w0, v0, s0, c0) in seen.values():
                            if (c0 == cid) != (s0 == sargs):
                                ctx.violation(f"call-id:long-value:{'collision' if c0 == cid else 'split'}",
                                              f"{ser}/{label}: {shape} of serialized length {len(sargs['x'])} ({w0}) and its variant ({where}): "
                                              f"serialized arguments {'differ' if s0 != sargs else 'are equal'}, call ids {c0.args_id[:16]} / {cid.args_id[:16]}",
                                              {"kind": "long_call_pair", "serializer": ser, "backend": kind, "config": cfg, "disable_cache_args": list(dca),
                                               "a_pickle_b64": b64(v0), "b_pickle_b64": b64(v), "where": where,
                                               "observed": [c0.args_id, cid.args_id], "expected": "equal ids <=> equal serialized arguments"})
                                break
                        seen.setdefault(json.dumps(sargs, sort_keys=True), (where, v, sargs, cid))
    ctx.count(n, n)
    ctx.notes["long_inline_call_ids"] = {"calls": n, "with_inline_x": n_inline, "configurations": [c[0] for c in INLINE_CONFS],
                                         "lengths": [x for x in long_lengths(ctx) if x <= 70000]}


# =============================================================================== H. equal (==) but different values
def twin_leaf_groups():
    """groups of leaves that compare == (and hash alike) without being the same value"""
    return [[0.0, -0.0], [1, 1.0, True], [0, False, -0.0], [T.Level.HIGH, 9, 9.0], [T.Mode.FAST, "fast"], [2 ** 53, float(2 ** 53)]]


def twin_shapes(ser: str, n: int):
    """(shape name, builder leaf -> value) for every externalisable type of the serializer's domain"""
    pad = "p" * (2 * n)
    shapes = [
        ("scalar", lambda x: x),
        ("list", lambda x: [x] * n),
        ("nested-list", lambda x: [[x, "k"], [pad]]),
        ("dict-value", lambda x: {"k": [x] * n, "pad": pad}),
        ("Money", lambda x: T.Money(x, pad)),
    ]
    if ser != "JsonSerializer":
        shapes += [
            ("tuple", lambda x: (x,) * n),
            ("nested-tuple", lambda x: ((x, "k"), (pad,))),
            ("frozenset", lambda x: frozenset({x, pad})),
            ("set", lambda x: {x, pad}),
            ("dict-key", lambda x: {x: pad}),
            ("tuple-of-frozenset", lambda x: (frozenset({x}), pad)),
        ]
    return shapes


def twin_in_domain(ser: str, shape: str, leaf) -> bool:
    """the serializers' DOCUMENTED domain (fixed here, never derived from the behaviour of the tree under test):
    jsonpickle is used without keys=True, so dict keys must be str; JsonSerializer does not pre-process the payload of
    to_json() (an IntEnum/StrEnum inside it loses its class: see domain_restrictions_observed)"""
    import enum
    if ser == "JsonPickleSerializer" and shape == "dict-key":
        return False
    if ser == "JsonSerializer" and shape == "Money" and isinstance(leaf, enum.Enum):
        return False
    return True


def run_twins(ctx: Ctx, scratch: str):
    """values that are == but not the same (0.0 / -0.0, 1 / 1.0 / True, IntEnum / int, StrEnum / str, ...), serialized one after the
    other through ONE store instance: each must come back as itself, references equal <=> serialized content equal,
    call ids equal <=> serialized arguments equal"""
    from pynenc.arguments import Arguments
    from pynenc.call import Call
    n_vals = n_ext = n_skipped = 0
    combos = [(ser, kind, mn, n) for ser in ("JsonSerializer", "PickleSerializer", "JsonPickleSerializer")
              for kind in ("mem", "sqlite") for mn, n in ((0, 2), (1024, 600))]
    if not ctx.thorough:
        combos = [c for c in combos if c[1] == "mem" or c[2] == 1024]
    for ser, kind, mn, n in combos:
        for order in (1, -1):
            app = world.make_app(kind, scratch, serializer_cls=ser, min_size_to_cache=mn)
            cds, szr = app.client_data_store, app.serializer
            task = app.task(T.two)
            if ser == "PickleSerializer":
                extra = [("bytes", [b"ab" * n, bytearray(b"ab" * n)][::order])]
            else:
                extra = []
            groups = [(shape, [build(x) for x in g[::order] if twin_in_domain(ser, shape, x)])
                      for shape, build in twin_shapes(ser, n) for g in twin_leaf_groups()] + extra
            n_skipped += sum(1 for shape, _ in twin_shapes(ser, n) for g in twin_leaf_groups() for x in g if not twin_in_domain(ser, shape, x))
            done = []        # (shape, value, serializer text, store output)
            for shape, vals in groups:
                for v in vals:
                    try:
                        text = szr.serialize(v)
                        out = cds.serialize(v)
                    except Exception as ex:  # noqa: BLE001 - every value built here is in the serializer's documented domain
                        ctx.violation(f"cds-twin:{ser}:wrong-value", f"{ser}/{kind} min_size={mn}: {shape} {repr(v)[:100]} cannot be serialized: {type(ex).__name__}: {ex}",
                                      {"kind": "twins", "serializer": ser, "backend": kind, "min_size": mn, "values_pickle_b64": [b64(v)],
                                       "why": "raised", "observed": f"<{type(ex).__name__}: {ex}>"[:200], "expected": repr(v)[:200]})
                        continue
                    n_vals += 1
                    n_ext += cds.is_reference(out)
                    done.append((shape, v, text, out))
            by_out: dict = {}
            for i, (shape, v, text, out) in enumerate(done):
                history = [d[1] for d in done[:i + 1] if d[0] == shape]

                def rp(why, observed):
                    return {"kind": "twins", "serializer": ser, "backend": kind, "min_size": mn, "values_pickle_b64": [b64(x) for x in history],
                            "why": why, "observed": observed, "expected": repr(v)[:200]}
                first = by_out.setdefault(out, (shape, v, text))
                if cds.is_reference(out) and first[2] != text:
                    ctx.violation(f"cds-twin:{ser}:reference-shared",
                                  f"{ser}/{kind} min_size={mn}: {shape} values {repr(first[1])[:80]} and {repr(v)[:80]} are == but serialize differently, "
                                  f"yet serialize() gave both the reference {out[:40]}",
                                  rp("different content, same reference", out))
                    continue
                try:
                    cds._deserialized_cache.clear()
                    back = cds.resolve(out)
                except Exception as ex:  # noqa: BLE001
                    back = f"<{type(ex).__name__}: {ex}>"
                if canon(back) != canon(v):
                    ctx.violation(f"cds-twin:{ser}:wrong-value", f"{ser}/{kind} min_size={mn}: {shape} {repr(v)[:100]} comes back as {repr(back)[:100]}",
                                  rp("wrong value", repr(back)[:200]))
            # call identity of the twins of one shape
            ids: dict = {}
            for shape, v, text, out in done:
                call = Call(task, Arguments.from_call(T.two, v))
                sargs = json.dumps(dict(call.serialized_arguments), sort_keys=True)
                for (s0, v0, c0) in ids.get(shape, []):
                    if (c0 == call.call_id) != (s0 == sargs):
                        ctx.violation(f"call-id:twin:{ser}", f"{ser}/{kind} min_size={mn}: two({repr(v0)[:80]}) and two({repr(v)[:80]}): serialized arguments "
                                                             f"{'equal' if s0 == sargs else 'differ'}, call ids {'equal' if c0 == call.call_id else 'differ'}",
                                      {"kind": "twins", "serializer": ser, "backend": kind, "min_size": mn, "values_pickle_b64": [b64(v0), b64(v)],
                                       "why": "call ids vs serialized arguments", "observed": [str(c0), str(call.call_id)], "expected": "equal ids <=> equal serialized arguments"})
                        break
                ids.setdefault(shape, []).append((sargs, v, call.call_id))
    ctx.count(n_vals, n_vals)
    ctx.notes["equal_but_different_values"] = {"values": n_vals, "externalised": n_ext, "outside_documented_domain_not_built": n_skipped,
                                               "leaf_groups": [[repr(x) for x in g] for g in twin_leaf_groups()],
                                               "shapes": [sh for sh, _ in twin_shapes("PickleSerializer", 1)] + ["bytes/bytearray"],
                                               "configurations": len(combos) * 2}


# =============================================================================== main / replay
def main(ctx: Ctx) -> int:
    world.quiet()
    info = ctx.translate("roundtrip", roundtrip.translate, "gen/Roundtrip_gen.v")
    ctx.prove("Props/C15.v")
    from pynenc.serializer.constants import ReservedKeys
    reserved = {m.name: m.value for m in ReservedKeys}
    scratch = world.scratch_dir()
    try:
        run_args_id(ctx)
        run_bind(ctx)
        run_keys(ctx)
        run_cds(ctx, scratch)
        run_json_tree(ctx, reserved)
        run_e2e(ctx, scratch)
        run_long_inline(ctx, scratch)
        run_twins(ctx, scratch)
    finally:
        world.rm_scratch(scratch)
    if not info.get("degraded"):
        f = info["facts"]
        ctx.notes["generated_facts"] = {"enc": f["enc"], "keys": f["keys"], "bind": f["bind"], "cds": f["cds"],
                                        "json_decoder_order": f["json"]["order"]}
        ctx.notes["cds_store_write"] = ("skipped for keys remembered in a process-local set (refuted: cds_skip_known_refuted; the proof of "
                                        "cds_store_write_unconditional breaks)" if f["cds"]["store_skip_known"] else "unconditional on every externalisation")
        ctx.notes["cds_lru_mode"] = ("live objects (full statement refuted by aliasing; cds_alias_current_tree proves the witness)"
                                     if f["cds"]["lru_holds_object"] else "serialized text (every trace quiet: the partial theorem is the full one)")
    ctx.assumptions += [
        "SHA-256 (hashlib): collision-free on the contents that occur; a hex digest never equals 'no_args' (oracle H, section hypotheses)",
        "text layer of the serializers (json.dumps/loads, pickle+base64, jsonpickle): deser(ser v) = v on the domain and the output never starts with the reserved prefix (oracle; exercised end to end in part E)",
        "UTF-8 encoding of surrogate-free strings is injective (the model works on code points; the harness encodes the model text before hashing)",
        "domain guards: no user dict carries a reserved key; no str value starts with the client-data prefix; function names contain no dot, args ids no colon (each with a refutation witness, re-checked on the real classes)",
        "envelope classes are importable on the decoding side; exception args / enum values / to_json data are plain JSON trees",
        "local_cache_size >= 1 (with 0 the real _cache_deserialized raises KeyError on the empty OrderedDict; outside the quantifier of C15)",
        "in-place mutation is modelled for live objects held by the process-local LRU; values in the correspondence traces are int lists",
        "a reference is required to resolve only while no purge() (by any instance) happened since serialize returned it; references created before a purge may raise KeyError (if they resolve, the content must still be the original)",
        "store instances share the backend rows and nothing else (LRU and any remembered-key set are per instance); concurrent interleavings of two instances inside one serialize/resolve call are not explored",
    ]
    ctx.trusted += ["oracles as Section variables: H (SHA-256), ser/deser (serializer text layer), as_ref; see assumptions",
                    "hand-written models of inspect.Signature.bind/apply_defaults, collections.OrderedDict (LRU), str.rsplit/rpartition, json string escaping: tied by the differential correspondence (counts in coverage)"]
    return ctx.finish(
        rule="A: hand-written adversarial pairs + seeded random argument dicts over an alphabet with separators/quotes/backslash/controls/"
             "astral characters, pair classes equal/permuted/key/value/split/merge; B: every spelling (positional prefix x omitted defaults x "
             "keyword orders) of sampled full-argument tuples of six signatures + five error spellings each; C: module x function x args-id grid; "
             "D: witnesses of the Coq refutation theorems + seeded traces of serialize/resolve/resolve-on-another-instance/mutate/purge/"
             "purge-by-another-instance (equal content repeated after purges) over a grid of disable x min x max x LRU size on both stores; "
             "E: recursive values per serializer x store x threshold x disable options through state backend and LazyCall, then app.purge() and "
             "the same content again read by a second app instance; F: JSON-domain values vs preprocess/reconstruct; "
             "G: long values differing in one place (start/middle/end/powers of two/appended/dropped) x shapes x every keep-inline configuration; "
             "H: groups of ==-equal but different leaves x every externalisable container shape x serializer x store x threshold, both orders. "
             "distinct_nontrivial = distinct dicts + distinct calls/error spellings + key cases + distinct (config, trace) + values")


def replay(ctx: Ctx, path: str) -> int:
    world.quiet()
    rp = json.load(open(path))["replay"]
    kind = rp["kind"]
    if kind == "args_id_pair":
        from pynenc.call import compute_args_id
        d1, d2 = dict(map(tuple, rp["d1"])), dict(map(tuple, rp["d2"]))
        print("d1", str(d1)[:300], "->", compute_args_id(d1))
        print("d2", str(d2)[:300], "->", compute_args_id(d2))
        print("maps equal:", d1 == d2, "expected:", rp["expected"])
    elif kind in ("spelling", "spelling_pair"):
        from pynenc.arguments import Arguments
        from pynenc.call import Call
        app = world.make_app("mem", None, serializer_cls="JsonSerializer")
        func = getattr(T, rp["func"])
        task = app.task(func)
        for pos, kws in ([(rp["pos"], rp["kws"])] if kind == "spelling" else [rp["a"], rp["b"]]):
            try:
                a = Arguments.from_call(func, *pos, **dict(map(tuple, kws)))
                print("pos", pos, "kws", kws, "->", dict(a.kwargs), Call(task, a).call_id)
            except TypeError as ex:
                print("pos", pos, "kws", kws, "-> TypeError", ex)
    elif kind == "key":
        from pynenc.identifiers.call_id import CallId
        from pynenc.identifiers.task_id import TaskId
        key = CallId(TaskId(rp["module"], rp["func"]), rp["args_id"]).key
        print("key", key, "->", CallId.from_key(key), "expected", rp["expected"])
    elif kind == "cds_seq":
        scratch = world.scratch_dir()
        try:
            from pynenc.serializer.constants import ReservedKeys
            ops = [tuple(o) for o in rp["ops"]]
            obs, mops, store, lru = run_cds_impl(ctx, rp["backend"], scratch, tuple(rp["conf"]), ops, ReservedKeys.CLIENT_DATA.value, report=False)
            done = {"mut": "mutated in place", "purge": "purged by this instance", "xpurge": "backend purged by another instance"}
            if rp["backend"] != "sqlite":
                ops = [o for o in ops if o[0] != "xpurge"]       # dropped on a process-local backend (see run_cds_impl)
            for o, ob in zip(ops, obs):
                print(o, "->", (from_codes(ob[1:]) if ob[0] == 0 else ("object", ob[1], from_codes(ob[2:])) if ob[0] == 1
                                else "KeyError" if ob[0] == 2 else done.get(o[0], "done")))
            print("expected", rp.get("expected"), "observed", rp.get("observed"), rp.get("why", ""))
        finally:
            world.rm_scratch(scratch)
    elif kind in ("twins", "long_call_pair"):
        import base64
        import pickle
        from pynenc.arguments import Arguments
        from pynenc.call import Call
        scratch = world.scratch_dir()
        try:
            if kind == "twins":
                app = world.make_app(rp["backend"], scratch, serializer_cls=rp["serializer"], min_size_to_cache=rp["min_size"])
                vals, dca = [pickle.loads(base64.b64decode(x)) for x in rp["values_pickle_b64"]], ()      # written by this check
            else:
                app = world.make_app(rp["backend"], scratch, serializer_cls=rp["serializer"], **rp["config"])
                vals, dca = [pickle.loads(base64.b64decode(rp[k])) for k in ("a_pickle_b64", "b_pickle_b64")], tuple(rp["disable_cache_args"])
            task = app.task(T.two, disable_cache_args=dca) if dca else app.task(T.two)
            cds = app.client_data_store
            for v in vals:
                call = Call(task, Arguments.from_call(T.two, v))
                out = call.serialized_arguments["x"]
                cds._deserialized_cache.clear()
                try:
                    back = repr(cds.resolve(out))[:120]
                except Exception as ex:  # noqa: BLE001
                    back = f"<{type(ex).__name__}: {ex}>"
                print("value", repr(v)[:80], f"({len(out)} chars serialized)", out[:60], "-> back", back, "| args_id", call.call_id.args_id[:16])
            print("recorded:", rp.get("why", rp.get("where")), str(rp["observed"])[:200], "expected", rp["expected"])
        finally:
            world.rm_scratch(scratch)
    elif kind in ("roundtrip", "json_value"):
        scratch = world.scratch_dir()
        try:
            ser = rp.get("serializer", "JsonSerializer")
            app = world.make_app(rp.get("backend", "mem"), scratch, serializer_cls=ser, min_size_to_cache=rp.get("min_size", 1024),
                                 disable_client_data_store=rp.get("disabled", False))
            import base64
            import pickle
            v = pickle.loads(base64.b64decode(rp["value_pickle_b64"]))     # written by this check (our own test values)
            s = app.client_data_store.serialize(v)
            reader = app.client_data_store
            if rp.get("after_purge"):
                app.purge()
                s = app.client_data_store.serialize(v)
                print("purged, serialized the same value again")
                if rp.get("backend") == "sqlite":
                    reader = world.make_app("sqlite", scratch, app_id=app.app_id, serializer_cls=ser, min_size_to_cache=rp.get("min_size", 1024),
                                            disable_client_data_store=rp.get("disabled", False)).client_data_store
            app.client_data_store._deserialized_cache.clear()
            try:
                back = repr(reader.resolve(s))
            except Exception as ex:  # noqa: BLE001
                back = f"<{type(ex).__name__}: {ex}>"
            print("value", repr(v), "serialized", s[:120], "-> back", back, "| recorded:", rp["observed"])
        finally:
            world.rm_scratch(scratch)
    return 0

"""C19 — sync development mode and distributed execution give the same outcome; retry accounting.

proof: Props/C19.v over Model/SyncDist.v instantiated with gen/SyncDist_gen.v (retry tests of
       conc_invocation.py / dist_invocation.py, set_invocation_retry call sequence, retriable rule of
       task.py, direct_task wrapper of app.py, max_retries default) regenerated on every run.
tie:   every case (a task program + a top-level call flavour) is executed on the REAL code three ways —
       sync mode (dev_mode_force_sync_tasks), in-memory stack + ThreadRunner, SQLite stack + ThreadRunner
       (one slot; two slots too when the program has a group) — and on both interpreters of the model
       (Eval vm_compute).  Compared: outcome (value | exception type + arguments), body executions per
       node, num_retries.  An oracle evaluated on the implementation observations alone (sync vs
       distributed equality, per-invocation retry accounting, plain value of direct tasks) turns a
       difference into a violation with a replay.
"""
from __future__ import annotations

import itertools
import json
import os
import sys
import threading
import time
from collections import Counter

from harness import world
from harness.common import Ctx
from harness.translate import sync_dist

GENERATED = [("harness.translate.sync_dist", "translate", "gen/SyncDist_gen.v")]

MANIFEST = {
    "technique": "Coq proof over two interpreters of a task language sharing a retry loop instantiated with facts generated "
                 "from the source + three-way differential execution (sync / mem+ThreadRunner / SQLite+ThreadRunner)",
    "text": "Machine-checked theorems (Props/C19.v): both retry tests read from conc_invocation.py and dist_invocation.py are "
            "`counter >= max_retries`, one retry adds one, the retried invocation is re-queued, RetryError is always retriable; "
            "retry accounting for ANY body in both modes (all executions up to max_retries+1 retriable => exactly max_retries+1 "
            "executions then failure; success on attempt k => k executions; non-retriable => 1); a direct task is "
            "`t(args).result` / the aggregated group; for EVERY program in which each launched invocation's result is requested "
            "(explicit guard req_prog) and an exception serialiser that is the identity, run_dist = run_sync (outcome, per-node "
            "execution counts, num_retries) by mutual induction on the program - programs that repeat an argument set inside "
            "one parallelized list included: the group case uses the fact generated from task.py distribute_calls (sync branch: "
            "one fresh invocation appended per element), a repeated member runs once per occurrence in both modes, and "
            "shared_group_invocation_refuted shows the fact is load-bearing (sharing the invocation of the earlier identical "
            "element: same value, 1 execution in sync mode vs 2 distributed). Facts generated from app.py direct_task (option "
            "filter), task.py distribute_batch_calls (batch count) and prepare_arguments (common_args merge): a direct task runs "
            "with the options its decorator was given, explicit 0 included (direct_task_runs_with_declared_options); n calls in "
            "batches of any size b > 0 are all routed (batches_route_every_call; floor division refuted on 7 by 3); each call "
            "receives its own parameters over a fresh copy of common_args (each_call_receives_its_own_arguments; one dict "
            "updated in place refuted). The full-strength statement is kept as a "
            "Definition and REFUTED (sync mode is lazy: a never-read sub-task / a group member after a failing one runs 0 times "
            "in sync mode, once distributed); the serialiser hypothesis is shown necessary (an argument-dropping serialiser changes "
            "the outcome); retry_race_refuted: while set_invocation_retry publishes RETRY before incrementing, the schedule 're-run "
            "before the increment lands' executes max_retries+2 times; with the increment first the racy run is the ordinary run. "
            "Tie: fail-closed AST translator regenerates the facts under the theorems on every run; every generated case runs on "
            "the real code in the three modes and on both model interpreters; an implementation-only oracle decides violations.",
    "note": "Trusted: Coq kernel; the translator's shape recognition (tied by the three-way correspondence, which runs the same "
            "cases whether or not the translator degrades); the hand-written interpreters (tied by the correspondence: outcome, "
            "per-node execution multiset, num_retries); exception serialiser of the state backend is an oracle measured on the "
            "implementation per run. Known findings: lazy-sync:unread-call, lazy-sync:group-after-failure (no small safe repair: "
            "the unit suite pins the laziness), retry-race:stale-counter (proposed fix C19-retry-increment-before-publish.diff; "
            "exhibited under the harness schedule delay-increment, and by chance in long runs); exc-args-lost:<Type> was fixed in "
            "/repo by b9020c7 (C19-pynencerror-args.diff is the same repair). Real ThreadRunner in a thread with 2 ms loop "
            "sleeps; verdict observations (outcome, execution counts, final num_retries) do not depend on timing for pure bodies; "
            "groups whose members can fail with different exceptions are not generated (completion order would pick the winner). "
            "Node ids name argument sets: the generators and the corpus repeat calls (same id = same spec = same call_id) inside "
            "one group / one body, list elements are spelled as dict / tuple / Arguments; sync-mode laziness is recognised "
            "per statement from the sync run's call tree (a group element whose result is requested but that got no "
            "invocation of its own is never laziness). Cases carry an environment: app-level max_retries / "
            "parallel_batch_size, task-level parallel_batch_size (0..3, explicit 0 = batching off), and per task whether "
            "max_retries is a task-level option (explicit zeros) or left to the app level; group sizes 1..6 (+repeats, corpus up "
            "to 7) straddle the batch sizes; groups pass common_args next to per-call dicts with differing key sets; the "
            "retry accounting is judged against the DECLARED option and every body logs received vs passed keyword arguments "
            "(oracle call-args). Large payloads: calls with ~400 KB list / 200 KB string arguments and ~120 KB results of equal "
            "size that differ only in the middle, singly and in groups (3 cases in quick, 12 in thorough); the body adds the "
            "mark it receives, call-args compares received vs passed. An execution that ends in a harness-side exception is "
            "run again in a fresh scratch directory; failing twice it is a violation impl-crash with a replay, never a "
            "harness error. The three new facts stand beside the interpreters (they justify taking the declared header / "
            "every member / own arguments at face value) rather than being threaded through them. The distributed side of parallelize (distribute_batch_calls / "
            "route_calls) has no generated fact; it is covered by the differential runs only.",
    "design_ref": "DESIGN.md §6 C19",
}

IMPORTS = ["gen.SyncDist_gen", "Model.SyncDist"]
KINDS = ["RetryError", "ValueError", "KeyError", "RuntimeError"]
RF_COQ = {0: "[]", 1: "[1]", 2: "[1; 2]"}
RF_NAMES = {0: set(), 1: {"ValueError"}, 2: {"ValueError", "KeyError"}}
OK = [0, 0, 0]
NWORKERS = max(2, min(8, (os.cpu_count() or 4) // 2))


# ---------------------------------------------------------------- programs
def node(i, mr=0, rf=0, base=1, script=(), dflt=OK, body=(), extra=None, shift=None, decl="t", blob=None, bigres=False):
    """mr = the max_retries the task DECLARES (decl 't': task-level option, explicit zero included; decl 'a': option
    absent at task level, mr is the app-level value of the case); extra / shift: further keyword arguments of the
    call (per-call parameter / common_args of its group)"""
    if blob or bigres:       # large payloads (see tasks_c19): blob = ("list" | "str", v) -> a big argument; bigres -> a big result
        big = {"blob": {"kind": blob[0], "v": blob[1]} if blob else None, "bigres": bool(bigres)}
    else:
        big = {}
    return {"id": i, "mr": mr, "rf": rf, "decl": decl, "base": base, "extra": extra, "shift": shift, **big,
            "script": [list(s) for s in script], "dflt": list(dflt), "body": [list(b) for b in body]}


def app_mr(case):
    return (case.get("app") or {}).get("max_retries", 0)


def walk(n, launched_by=None, out=None):
    """id -> (node, statement kind that launches it, parent id)"""
    out = {} if out is None else out
    out[n["id"]] = (n, launched_by[0] if launched_by else "top", launched_by[1] if launched_by else None)
    for st in n["body"]:
        if st[0] in ("call", "fire", "direct"):
            walk(st[1], (st[0], n["id"]), out)
        else:
            for m in st[1]:
                walk(m, (st[0], n["id"]), out)
    return out


def case_nodes(case):
    out = {}
    for p in case["progs"]:
        walk(p, (case["top"], None), out)
    return out


def needed(case):
    acc = set()

    def rec(n, fl):
        acc.add((fl, n["mr"], n["rf"], n.get("decl", "t")))
        for st in n["body"]:
            if st[0] in ("call", "fire"):
                rec(st[1], "p")
            elif st[0] == "direct":
                rec(st[1], "d")
            elif st[0] == "group":
                for m in st[1]:
                    rec(m, "p")
            else:
                for m in st[1]:
                    rec(m, "g")
    fl = {"call": "p", "group": "p", "direct": "d", "dpar": "g"}[case["top"]]
    for p in case["progs"]:
        rec(p, fl)
    return acc


def repeats(case):
    """(some group holds the same member twice, some body makes the same single call twice)"""
    in_group = in_body = False

    def rec(n):
        nonlocal in_group, in_body
        singles = [st[1]["id"] for st in n["body"] if st[0] in ("call", "fire", "direct")]
        in_body |= len(singles) != len(set(singles))
        for st in n["body"]:
            ms = [st[1]] if st[0] in ("call", "fire", "direct") else st[1]
            if st[0] in ("group", "dpar"):
                in_group |= len({m["id"] for m in ms}) != len(ms)
            for m in ms:
                rec(m)
    if case["top"] in ("group", "dpar"):
        in_group |= len({m["id"] for m in case["progs"]}) != len(case["progs"])
    for p in case["progs"]:
        rec(p)
    return in_group, in_body


def has_group(case):
    return case["top"] in ("group", "dpar") or any(k in ("group", "dpar") for (_, k, _) in case_nodes(case).values())


# ---------------------------------------------------------------- Coq rendering
def coq_act(a):
    if a[0] == 0:
        return "AOk"
    return f"({'ABefore' if a[0] == 1 else 'AAfter'} (mkExn {a[1]} {a[2]}))"


def coq_prog(n):
    hdr = (f"(mkH {n['id']} {n['mr']} {RF_COQ[n['rf']]} {n['base'] + (n.get('extra') or 0) + (n.get('shift') or 0) + (n.get('blob') or {}).get('v', 0)} "
           f"[{'; '.join(coq_act(a) for a in n['script'])}] {coq_act(n['dflt'])})")
    return f"(Node {hdr} {coq_stmts(n['body'])})"


def coq_progs(ms):
    return "PNil" if not ms else f"(PCons {coq_prog(ms[0])} {coq_progs(ms[1:])})"


def coq_stmt(st):
    op = st[0]
    if op in ("call", "fire", "direct"):
        return f"({ {'call': 'SCall', 'fire': 'SFire', 'direct': 'SDirect'}[op] } {coq_prog(st[1])})"
    return f"({ {'group': 'SGroup', 'dpar': 'SDirectPar'}[op] } {coq_progs(st[1])})"


def coq_stmts(body):
    return "SNil" if not body else f"(SCons {coq_stmt(body[0])} {coq_stmts(body[1:])})"


def coq_case(case, dropped):
    top = case["top"]
    st = [top, case["progs"][0]] if top in ("call", "direct") else [top, case["progs"]]
    tr = f"(tr_drop [{'; '.join(str(k) for k in dropped)}])"
    if top == "call":
        rets = f"[retries (sync_prog {coq_prog(case['progs'][0])}); retries (dist_prog {tr} {coq_prog(case['progs'][0])})]"
    else:
        rets = "[0; 0]"
    return (f"(let s := {coq_stmt(st)} in let a := sync_stmt s in let d := dist_stmt {tr} s in "
            f"[[render_out (fst a); snd a]; [render_out (fst d); snd d]; "
            f"[[if req_stmt s then 1 else 0]; {rets}]])")


# ---------------------------------------------------------------- generator
def gen_conf(rng, depth, env):
    """(max_retries, retry_for, where max_retries is declared).  With an app-level max_retries in force a third of
    the tasks leave the option to the app; the others declare it themselves - explicit zeros included."""
    mr = rng.choice([0, 0, 1, 1, 2, 3] if depth == 0 else [0, 0, 0, 1, 1, 2])
    rf = rng.choice([0, 0, 1, 2])
    if rng.random() < (0.33 if env.get("max_retries") else 0.1):
        return env.get("max_retries", 0), rf, "a"
    return mr, rf, "t"


def gen_node(rng, ids, depth, pool, p_ok, lazy_ok, conf=None, env=None):
    env = env or {}
    i = next(ids)
    mr, rf, decl = gen_conf(rng, depth, env) if conf is None else conf

    def act():
        r = rng.random()
        if r < p_ok:
            return list(OK)
        k, a = rng.choice(pool)
        return [1 if rng.random() < 0.7 else 2, k, a]
    script = [act() for _ in range(rng.choice([0, 1, 1, 2, 3]))]
    dflt = act() if rng.random() < 0.3 else list(OK)
    body = []
    if depth < 2:
        for _ in range(rng.choice([0, 1, 1, 2, 2, 3] if depth == 0 else [0, 0, 1, 1, 2])):
            op = rng.choices(["call", "direct", "group", "dpar", "fire"],
                             weights=[4, 2, 2, 1, 0.6 if lazy_ok else 0])[0]
            if op in ("call", "direct", "fire"):
                body.append([op, gen_node(rng, ids, depth + 1, pool, p_ok, lazy_ok, env=env)])
                if rng.random() < 0.25:
                    body[-1][1]["extra"] = rng.randint(1, 4)
                if rng.random() < 0.12:
                    # the same call once more (same task, same arguments => same node id): a second invocation
                    body.append([op, clone(body[-1][1])])
            else:
                body.append([op] + gen_group(rng, ids, depth + 1, pool, lazy_ok, env))
    return node(i, mr, rf, rng.randint(0, 5), script, dflt, body, decl=decl)


def clone(n):
    return json.loads(json.dumps(n))


def gen_group(rng, ids, depth, pool, lazy_ok, env=None):
    """-> [members, shift].  One task (= one configuration) per group; one exception for the whole group subtree,
    so that the exception the parent sees does not depend on which failing member is final first.  Sizes 1..6 (+
    repeats) straddle the small parallel_batch_size values the cases configure; a third of the groups pass
    common_args (shift) next to per-call dicts whose key sets differ (some members carry `extra`)."""
    env = env or {}
    conf = gen_conf(rng, 1, env)
    gpool = [rng.choice(pool)]
    n = rng.choice([1, 2, 2, 3, 3, 4, 5, 6] if depth >= 1 and not env.get("small") else [2, 2, 3])
    fail_last_only = not lazy_ok or rng.random() < 0.7
    ms = []
    for j in range(n):
        p_ok = 0.6 if (j == n - 1 or not fail_last_only) else 1.0
        ms.append(gen_node(rng, ids, depth, gpool, p_ok, lazy_ok and not fail_last_only, conf, env))
    # the same argument set more than once in the parallelized list (equal node id = equal spec = equal call_id).
    # Guard-biased groups repeat a member that cannot fail, before the last one (the guard stays true).
    shift = rng.randint(1, 4) if rng.random() < 0.35 else None
    rich = shift is not None or rng.random() < 0.3
    for m in ms:
        m["shift"] = shift
        m["extra"] = rng.randint(1, 5) if rich and rng.random() < 0.5 else None
    r = rng.random()
    for _ in range(0 if r < 0.6 or len(ms) < 2 else (1 if r < 0.9 else 2)):
        if fail_last_only:
            src, at = rng.randrange(len(ms) - 1), rng.randrange(len(ms))
        else:
            src, at = rng.randrange(len(ms)), rng.randrange(len(ms) + 1)
        ms.insert(at, clone(ms[src]))
    return [ms, shift]


POOL = [(0, 0)] * 4 + [(0, 2)] + [(k, a) for k in (1, 2, 3) for a in (0, 1, 2, 3)]


def gen_env(rng):
    """app-level configuration and the task-level parallel_batch_size of a case: half of the cases run with the
    defaults (max_retries 0, batches of 100); the others set max_retries 1..3 at app level and / or a batch size
    0 (batching off) .. 3 at app level, at task level, or both (the task level wins, explicit 0 included)."""
    app: dict = {}
    tbatch = None
    if rng.random() < 0.5:
        if rng.random() < 0.6:
            app["max_retries"] = rng.choice([1, 2, 2, 3])
        r = rng.random()
        if r < 0.35:
            tbatch = rng.choice([0, 1, 2, 2, 3])
        elif r < 0.6:
            app["parallel_batch_size"] = rng.choice([0, 1, 2, 2, 3])
        elif r < 0.75:
            app["parallel_batch_size"] = rng.choice([1, 2, 3])
            tbatch = rng.choice([0, 0, 2, 3])
    return app, tbatch


def gen_case(rng, lazy_ok):
    ids = itertools.count(1)
    app, tbatch = gen_env(rng)
    top = rng.choices(["call", "direct", "group", "dpar"], weights=[6, 2, 1, 1])[0]
    case = {"top": top, "app": app, "tbatch": tbatch}
    if top in ("call", "direct"):
        case["progs"] = [gen_node(rng, ids, 0, POOL, 0.6, lazy_ok, env=app)]
        if rng.random() < 0.2:
            case["progs"][0]["extra"] = rng.randint(1, 4)
    else:
        case["progs"], case["shift"] = gen_group(rng, ids, 1, POOL, lazy_ok, app)
    return case


def corpus_cases():
    """fixed cases: the Coq witnesses of the refutations + repeated-argument-set groups / calls + the exhaustive retry-accounting enumeration of
    leaf bodies: (max_retries 0..3) x (retry_for 3 settings) x (4 exception kinds) x (always raising |
    first success on attempt k = 1..max_retries+2), plain and direct flavour alternating."""
    cs = [
        ("witness:fire", {"top": "call", "progs": [node(1, body=[["fire", node(2)]])]}),
        ("witness:group-after-failure",
         {"top": "call", "progs": [node(1, body=[["group", [node(2, dflt=[1, 1, 7]), node(3)]]])]}),
        ("witness:retryerror-args", {"top": "call", "progs": [node(1, mr=1, dflt=[1, 0, 3])]}),
        ("witness:dpar-after-failure",
         {"top": "dpar", "progs": [node(1, base=2, dflt=[1, 3, 1]), node(2, base=3)]}),
    ]
    # repeated argument sets: one parallelized list holding the same call twice / three times (each element is
    # its own invocation in every mode), with retries, nested, as a direct task; the same single call made twice
    a, b = node(2, base=2), node(3, base=5)
    flaky = node(2, mr=1, rf=2, base=3, script=[[1, 2, 1]])                 # KeyError first, then succeeds
    sub = node(2, base=1, body=[["call", node(4, base=2)]])
    cs += [
        ("repeat:group-top", {"top": "group", "progs": [clone(a), clone(b), clone(a)]}),
        ("repeat:group-top-all-same", {"top": "group", "progs": [clone(a), clone(a), clone(a)]}),
        ("repeat:group-nested", {"top": "call", "progs": [node(1, body=[["group", [clone(a), clone(a), clone(b)]]])]}),
        ("repeat:group-nested-subcalls", {"top": "call", "progs": [node(1, body=[["group", [clone(sub), clone(b), clone(sub)]]])]}),
        ("repeat:group-retries", {"top": "call", "progs": [node(1, body=[["group", [clone(flaky), clone(flaky)]]])]}),
        ("repeat:group-in-retried-parent",
         {"top": "call", "progs": [node(1, mr=1, script=[[2, 0, 0]], body=[["group", [clone(a), clone(a)]]])]}),
        ("repeat:dpar-top", {"top": "dpar", "progs": [clone(a), clone(b), clone(a), clone(b)]}),
        ("repeat:dpar-nested", {"top": "direct", "progs": [node(1, body=[["dpar", [clone(b), clone(b)]]])]}),
        ("repeat:two-groups", {"top": "call", "progs": [node(1, body=[["group", [clone(a), clone(a)]],
                                                                        ["group", [clone(b), clone(a), clone(b)]]])]}),
        ("repeat:call-twice", {"top": "call", "progs": [node(1, body=[["call", clone(a)], ["call", clone(a)]])]}),
        ("repeat:direct-twice", {"top": "call", "progs": [node(1, body=[["direct", clone(flaky)], ["direct", clone(flaky)]])]}),
        ("repeat:call-and-group", {"top": "call", "progs": [node(1, body=[["call", clone(a)], ["group", [clone(a), clone(a)]]])]}),
        ("repeat:group-after-failure",
         {"top": "call", "progs": [node(1, body=[["group", [clone(a), clone(a), node(5, dflt=[1, 1, 7]), clone(a)]]])]}),
    ]
    # group sizes around / beyond a small parallel_batch_size (set at task level, at app level, or both; 0 = batching
    # off): whole batches, a trailing partial batch, one call more than a batch, fewer calls than a batch
    def leaves(n, first=2, **kw):
        return [node(first + j, base=j + 1, **kw) for j in range(n)]
    for n, tb, ab in [(7, 3, None), (5, 2, None), (4, 2, None), (3, 1, None), (3, 2, None), (2, 3, None), (5, None, 2),
                      (4, None, 3), (5, 0, 2), (3, 0, None), (6, 4, 1), (5, None, 0)]:
        env = {"tbatch": tb, "app": ({} if ab is None else {"parallel_batch_size": ab})}
        nm = f"{n}-task{tb}-app{ab}"
        cs.append((f"batch:group-top:{nm}", dict(env, top="group", progs=leaves(n))))
        if n in (7, 5, 3):
            cs.append((f"batch:group-nested:{nm}", dict(env, top="call", progs=[node(1, body=[["group", leaves(n)]])])))
            cs.append((f"batch:dpar-top:{nm}", dict(env, top="dpar", progs=leaves(n))))
    cs += [
        ("batch:repeat-5-by-2", {"top": "group", "tbatch": 2, "progs": [clone(a), clone(b), clone(a), clone(b), clone(a)]}),
        ("batch:retries-5-by-2", {"top": "call", "tbatch": 2, "progs": [node(1, body=[["group", [
            node(2 + j, mr=1, rf=2, base=j, script=[[1, 2, 1]]) for j in range(5)]]])]}),
        ("batch:dpar-nested-5-by-3", {"top": "direct", "tbatch": 3, "progs": [node(1, body=[["dpar", leaves(5)]])]}),
    ]
    # common_args next to per-call dicts with DIFFERENT key sets (some members pass `extra`, all get `shift`):
    # every call receives exactly its own parameters over the common ones
    def hetero(shift, extras, first=2):
        return [node(first + j, base=j + 1, extra=x, shift=shift) for j, x in enumerate(extras)]
    for nm, env in [("default", {}), ("nobatch", {"tbatch": 0}), ("batch2", {"tbatch": 2}), ("appbatch0", {"app": {"parallel_batch_size": 0}})]:
        cs += [
            (f"common:group-top:{nm}", dict(env, top="group", shift=3, progs=hetero(3, [5, None, 2, None]))),
            (f"common:group-nested:{nm}", dict(env, top="call", progs=[node(1, body=[["group", hetero(2, [None, 4, None]), 2]])])),
            (f"common:dpar-top:{nm}", dict(env, top="dpar", shift=1, progs=hetero(1, [7, None, None, 3, None]))),
            (f"common:dpar-nested:{nm}", dict(env, top="call", progs=[node(1, body=[["dpar", hetero(4, [1, None]), 4]])])),
            (f"percall:group-top:{nm}", dict(env, top="group", progs=hetero(None, [5, None, 2, None, None, 6]))),
        ]
    cs += [
        ("common:repeat", {"top": "group", "shift": 2, "progs": [node(2, extra=3, shift=2), node(3, shift=2), node(2, extra=3, shift=2), node(3, shift=2)]}),
        ("percall:calls", {"top": "call", "progs": [node(1, extra=2, body=[["call", node(2, extra=5)], ["call", node(3)], ["direct", node(4, extra=1)]])]}),
    ]
    # where max_retries is declared: app level vs task level (explicit zero included), plain / direct / group /
    # direct-with-parallel_func tasks, bodies that keep raising a retriable exception or succeed on a later attempt
    raising = [1, 0, 0]
    for amr in (1, 2, 3):
        for tmr, decl in [(0, "t"), (amr, "a"), (amr, "t"), (1 if amr != 1 else 2, "t")]:
            for top in ("call", "direct", "group", "dpar"):
                leaf = node(1 if top in ("call", "direct") else 2, mr=tmr, decl=decl, dflt=raising)
                cs.append((f"opt:app{amr}:{'task' if decl == 't' else 'absent'}{tmr}:{top}:always",
                           {"top": top, "app": {"max_retries": amr}, "progs": [leaf]}))
        cs += [
            (f"opt:app{amr}:task0:nested", {"top": "call", "app": {"max_retries": amr}, "progs": [
                node(1, mr=amr, decl="a", body=[["direct", node(2, mr=0, dflt=raising)]])]}),
            (f"opt:app{amr}:task0:nested-call", {"top": "direct", "app": {"max_retries": amr}, "progs": [
                node(1, mr=0, body=[["call", node(2, mr=0, rf=1, dflt=[1, 1, 2])]])]}),
            (f"opt:app{amr}:absent:ok-late", {"top": "direct", "app": {"max_retries": amr}, "progs": [
                node(1, mr=amr, decl="a", script=[raising] * amr)]}),
            (f"opt:app{amr}:task0:batch0", {"top": "dpar", "app": {"max_retries": amr, "parallel_batch_size": 2}, "tbatch": 0,
                                           "progs": [node(2 + j, base=j) for j in range(3)]}),
        ]
    j = 0
    for mr in range(4):
        for rf in range(3):
            for kind in range(4):
                pats = [("always", [], [1, kind, 1 if kind else 0])]
                for k in range(1, mr + 3):
                    if k == 1 and kind:
                        continue
                    pats.append((f"ok@{k}", [[1, kind, 0]] * (k - 1), list(OK)))
                for name, script, dflt in pats:
                    j += 1
                    cs.append((f"leaf:m{mr}:r{rf}:{KINDS[kind]}:{name}",
                               {"top": "direct" if j % 4 == 0 else "call",
                                "progs": [node(1, mr, rf, 1, script, dflt)]}))
    return cs


def large_cases(thorough):
    """LARGE payloads (arguments of ~400 KB / 200 KB serialized, results of ~120 KB; see tasks_c19): calls whose
    payloads have the same size and differ only in the middle, passed singly and inside groups.  Sync mode never
    serialises them; distributed execution moves them through the serializer / client data store / state backend."""
    def big(i, v, kind="list", **kw):
        return node(i, base=1, blob=(kind, v), **kw)
    cs = [
        ("large:args-two-calls", {"top": "call", "progs": [node(1, body=[["call", big(2, 3)], ["call", big(3, 5)]])]}),
        ("large:args-group-top", {"top": "group", "progs": [big(2, 1), big(3, 2), big(4, 3)]}),
        ("large:results-group-top", {"top": "group", "progs": [node(2 + j, base=b, bigres=True) for j, b in enumerate((2, 5, 7))]}),
    ]
    if thorough:
        cs += [
            ("large:str-group-top", {"top": "group", "progs": [big(2, 4, "str"), big(3, 6, "str")]}),
            ("large:str-two-directs", {"top": "call", "progs": [node(1, body=[["direct", big(2, 1, "str")], ["direct", big(3, 8, "str")]])]}),
            ("large:dpar-top", {"top": "dpar", "progs": [big(2, 2), big(3, 9), big(4, 4)]}),
            ("large:args-and-results-nested", {"top": "call", "progs": [node(1, bigres=True, body=[
                ["group", [big(2, 4, bigres=True), big(3, 6, bigres=True)]], ["direct", big(4, 2, "str", bigres=True)]])]}),
            ("large:batch2-group-5", {"top": "group", "tbatch": 2, "progs": [big(2 + j, j + 1) for j in range(5)]}),
            ("large:nobatch-common", {"top": "group", "tbatch": 0, "shift": 2, "progs": [big(2, 1, shift=2), big(3, 7, shift=2, extra=3)]}),
            ("large:retry", {"top": "call", "progs": [node(1, body=[["group", [
                big(2, 3, mr=1, rf=2, script=[[1, 2, 1]]), big(3, 8, mr=1, rf=2, script=[[1, 2, 1]])]]])]}),
            ("large:repeat", {"top": "group", "progs": [big(2, 1), big(3, 2), big(2, 1)]}),
            ("large:results-calls", {"top": "call", "progs": [node(1, body=[["call", node(2, base=3, bigres=True)],
                                                                            ["call", node(3, base=4, bigres=True)]])]}),
        ]
    return cs


# ---------------------------------------------------------------- implementation side
def measure_transport(scratch):
    """The state backend's exception round trip (serialize_exception -> deserialize_exception) on both
    stacks, for every exception of the task language.  Returns (kinds whose arguments are dropped, anomalies)."""
    from harness import tasks_c19 as T
    dropped, anomalies = set(), []
    for kind in ("mem", "sqlite"):
        app = world.make_app(kind, scratch, app_id=f"c19_tr_{kind}")
        sb = app.state_backend
        for k in range(4):
            for a in range(4):
                ex = T.make_exc(k, a)
                try:
                    back = sb.deserialize_exception(sb.serialize_exception(ex))
                    got = (type(back).__name__, list(back.args))
                except Exception as e2:  # noqa: BLE001
                    got = ("<" + type(e2).__name__ + ">", [])
                want = (type(ex).__name__, list(ex.args))
                if got == want:
                    continue
                if got == (want[0], []):
                    dropped.add(k)
                else:
                    anomalies.append([kind, want, got])
    return sorted(dropped), anomalies


def run_impl(mode, case, scratch, slots=1, tag="x", timeout=40.0, inject=None):
    """Execute one case on the real code. mode in {'sync','mem','sqlite'}.
    inject='delay-increment': a schedule, not a behaviour change - every call of
    orchestrator.increment_invocation_retries is held until the next execution of that invocation has started
    (at most 1 s), i.e. the thread that published RETRY is descheduled just before it bumps the counter."""
    from harness import tasks_c19 as T
    sync = mode == "sync"
    os.makedirs(scratch, exist_ok=True)      # /dev/shm is shared with other jobs: survive a foreign clean-up between runs
    app = world.make_app("mem" if sync else mode, scratch, app_id=f"c19_{mode}_{slots}_{tag}",
                         dev_mode_force_sync_tasks=sync, runner_cls="ThreadRunner",
                         runner_loop_sleep_time_sec=0.002, invocation_wait_results_sleep_time_sec=0.002,
                         min_threads=slots, max_threads=slots, **(case.get("app") or {}))
    # Pynenc creates its components lazily with an unlocked check-then-create: a first use from the runner
    # thread and the client thread at the same moment can build two in-memory orchestrators / data stores
    # (seen as KeyError on an id the other instance holds).  Not C19's subject: build them here, up front.
    for comp in ("conf", "logger", "orchestrator", "trigger", "broker", "state_backend", "serializer", "client_data_store"):
        getattr(app, comp)
    _ = app.orchestrator.blocking_control
    reg = T.Registry()
    T.REG = reg
    effective = T.bind(app, reg, needed(case), case.get("tbatch"))
    if inject == "delay-increment" and not sync:
        orig_incr = app.orchestrator.increment_invocation_retries

        def delayed_incr(inv_id):
            before = reg.counter.get(str(inv_id), 0)
            t_end = time.time() + 1.0
            while time.time() < t_end and reg.counter.get(str(inv_id), 0) <= before:
                time.sleep(0.002)
            return orig_incr(inv_id)
        app.orchestrator.increment_invocation_retries = delayed_incr
    runner = None if sync else app.runner
    rth = None
    if runner is not None:
        rth = threading.Thread(target=runner.run, daemon=True)
        rth.start()
    box: dict = {}
    top, progs = case["top"], case["progs"]
    p0 = progs[0]

    def client():
        try:
            kw = T.call_kwargs(p0)
            if top == "call":
                inv = reg.plain[T.key_of(p0)](**kw)
                box["inv"] = inv
                v = T.unwrap(inv.result)
            elif top == "direct":
                v = T.unwrap(reg.direct[T.key_of(p0)](**kw))
            elif top == "group":
                task = reg.plain[T.key_of(p0)]
                params, common = T.group_params(task, progs, case.get("shift"))
                g = task.parallelize(params, common) if common else task.parallelize(params)
                reg.launched.extend(g.invocations)
                v = sum(T.unwrap(r) for r in g.results)
            else:
                v = reg.dpar[T.key_of(p0)](spec={"par": progs, "shift": case.get("shift")})
            box["out"] = ["val", v] if type(v) is int else ["nonvalue", type(v).__name__]
        except Exception as ex:  # noqa: BLE001 - the observation
            box["out"] = ["exc", type(ex).__name__, list(ex.args)]
            if type(ex).__name__ not in KINDS or not (ex.args == () or (len(ex.args) == 2 and ex.args[0] == "e")):
                import traceback
                box["trace"] = traceback.format_exc()[-1800:]

    t0 = time.time()
    cth = threading.Thread(target=client, daemon=True)
    cth.start()
    cth.join(timeout)
    obs: dict = {"mode": mode, "slots": slots, "out": box.get("out", ["hang"]), "top_retries": None, "retries": {},
                 "effective_options": effective}
    if "trace" in box:
        obs["trace"] = box["trace"]
    ids: list = []
    try:
        if not sync:
            # every invocation of every task of the case must reach a final status (never-read ones included)
            deadline = time.time() + (timeout if "out" in box else 2.0)
            pending: list = []
            while True:
                try:
                    ids = [i for t in reg.task_of.values() for i in app.orchestrator.get_task_invocation_ids(t.task_id)]
                except RuntimeError:      # the in-memory index grew under the iteration (a body is still launching calls)
                    time.sleep(0.003)
                    if time.time() > deadline:
                        break
                    continue
                pending = [i for i in ids if not app.orchestrator.get_invocation_status(i).is_final()]
                if not pending or time.time() > deadline:
                    break
                time.sleep(0.003)
            obs["unfinished"] = len(pending)
            obs["max_slots"] = runner.max_parallel_slots
        else:
            for inv in list(reg.launched) + ([box["inv"]] if "inv" in box else []):
                obs["retries"][str(inv.invocation_id)] = inv.num_retries
        if "inv" in box and "out" in box:
            obs["top_retries"] = box["inv"].num_retries
    finally:
        if runner is not None:
            runner.stop_runner_loop()
            rth.join(5)
            # worker threads joined by the runner's stop: every increment_invocation_retries has landed now
            try:
                for i in ids:
                    obs["retries"][str(i)] = app.orchestrator.get_invocation_retries(i)
            except Exception:  # noqa: BLE001
                pass
            if "inv" in box and "out" in box:
                obs["top_retries"] = obs["retries"].get(str(box["inv"].invocation_id), obs["top_retries"])
        try:
            app.state_backend.wait_for_all_async_operations()
        except Exception:  # noqa: BLE001
            pass
        if obs["out"] == ["hang"] or obs.get("unfinished"):
            # threads still polling a never-final invocation would spin for the rest of the process' life:
            # purging the app makes their next status lookup fail, which ends them
            try:
                app.purge()
            except Exception:  # noqa: BLE001
                pass
    obs["log"] = [dict(e) for e in reg.log]
    obs["wall"] = round(time.time() - t0, 3)
    T.REG = None
    return obs


_HANGS = None      # shared counter of runs that hit the time limit (set in the pool workers)


def _work(job):
    idx, mode, slots, case, scratch = job
    world.quiet()
    try:
        # a source change that makes retried invocations hang would otherwise cost the full limit per case
        limit = 45.0 if (_HANGS is None or _HANGS.value < 4) else 1.5
        obs = run_impl(mode, case, scratch, slots, tag=str(idx), timeout=limit)
        if _HANGS is not None and (obs["out"] == ["hang"] or obs.get("unfinished")):
            with _HANGS.get_lock():
                _HANGS.value += 1
        return idx, mode, slots, obs
    except Exception as ex:  # noqa: BLE001 - reported as a harness error by the parent
        import traceback
        return idx, mode, slots, {"harness_error": f"{type(ex).__name__}: {ex}", "trace": traceback.format_exc()[-1500:]}


def _init_worker(hangs=None):
    global _HANGS
    _HANGS = hangs
    import warnings
    warnings.simplefilter("ignore")
    threading.excepthook = lambda a: None
    sys.setswitchinterval(0.0005)
    world.quiet()


# ---------------------------------------------------------------- canonical forms
def canon_out(o):
    if o[0] == "val":
        return [0, o[1], 0]
    if o[0] == "exc":
        k = KINDS.index(o[1]) if o[1] in KINDS else (9 if o[1] == "TypeError" else 99)
        a = o[2]
        if k == 9:
            return [1, 9, 0]
        tok = 0 if a == [] else (a[1] if (len(a) == 2 and a[0] == "e" and isinstance(a[1], int)) else 99)
        return [1, k, tok]
    if o[0] == "hang":
        return [2, 0, 0]
    return [3, 0, 0]


def counts_of(obs):
    return Counter(e["node"] for e in obs["log"])


# ---------------------------------------------------------------- oracle (implementation observations only)
def option_drift(obs):
    """tasks whose Task.conf reports another max_retries than the one DECLARED for them (task-level option, or
    the app-level value where the task leaves it out) - a diagnosis attached to accounting verdicts"""
    import re
    out = []
    for name, (emr, _) in sorted((obs.get("effective_options") or {}).items()):
        m = re.match(r"c19_([pdg])_m(\d)_r(\d)(_a)?$", name)
        if m and int(m.group(2)) != emr:
            kind = {"p": "task", "d": "direct_task", "g": "direct_task with parallel_func"}[m.group(1)]
            where = "the app-level configuration (option absent on the task)" if m.group(4) else f"the option max_retries={m.group(2)} of the {kind}"
            out.append(f"{where} declares max_retries={m.group(2)} but Task.conf.max_retries is {emr}")
    return out


def args_check(obs):
    """every body execution received exactly the keyword arguments its call passed (per-call parameters over the
    group's common_args) - read from the log alone"""
    bad = [e for e in obs["log"] if e.get("args") != e.get("declared")]
    if not bad:
        return []
    e = bad[0]
    return [(f"call-args:{obs['mode']}",
             f"{obs['mode']}: node {e['node']} was called with extra={e['declared'][0]}, shift={e['declared'][1]}, large-payload mark="
             f"{e['declared'][2] if len(e['declared']) > 2 else 0} (0 = not passed) but its body received extra={e['args'][0]}, "
             f"shift={e['args'][1]}, large-payload mark={e['args'][2] if len(e['args']) > 2 else 0} ({len(bad)} execution(s) with "
             f"foreign arguments: parameters / payload of another call, or common_args)")]


def accounting(case, obs):
    """retry contract of every invocation seen in the log, against the max_retries / retry_for the task DECLARES
    (task-level option incl. explicit zero, else the app-level value): executions 1..k; every execution before
    the last ended with a retriable exception; k <= max_retries+1; a last execution ending with a retriable
    exception means k = max_retries+1; final num_retries = k-1."""
    nodes = case_nodes(case)
    drift = option_drift(obs)
    drift_txt = ("; " + "; ".join(drift[:2])) if drift else ""
    by_inv: dict = {}
    for e in obs["log"]:
        by_inv.setdefault(e["inv"], []).append(e)
    bad = []
    stale = 0
    for inv, es in by_inv.items():
        es.sort(key=lambda e: e["attempt"])
        n = nodes[es[0]["node"]][0]
        retr = {"RetryError"} | RF_NAMES[n["rf"]]
        k = len(es)
        where = (f"node {n['id']} (max_retries={n['mr']} declared {'on the task' if n.get('decl', 't') == 't' else 'at app level only'}"
                 + (f", app-level max_retries={app_mr(case)}" if app_mr(case) else "") + f", retry_for={sorted(RF_NAMES[n['rf']])})")
        if [e["attempt"] for e in es] != list(range(1, k + 1)):
            bad.append(("attempts", f"{where}: execution numbers {[e['attempt'] for e in es]}"))
            continue
        if any(e["end"] is None for e in es):
            bad.append(("unfinished", f"{where}: an execution never ended"))
            continue
        ends = [("val" if e["end"][0] == "val" else ("retriable" if e["end"][1] in retr else "fatal")) for e in es]
        if any(x != "retriable" for x in ends[:-1]):
            bad.append(("rerun-after-end", f"{where}: executed again after an execution that ended {ends[:-1]}"))
        if k > n["mr"] + 1:
            bad.append(("too-many", f"{where}: body executed {k} times, more than max_retries+1{drift_txt}"))
        if ends[-1] == "retriable" and k < n["mr"] + 1:
            bad.append(("too-few", f"{where}: gave up after {k} executions although max_retries+1 = {n['mr'] + 1}{drift_txt}"))
        fin = obs["retries"].get(inv)
        if fin is not None and fin != k - 1:
            bad.append(("num-retries", f"{where}: num_retries = {fin} after {k} executions"))
        stale += sum(1 for e in es if e["retries_seen"] != e["attempt"] - 1)
    return bad, stale


def explain_sync(case, s_obs):
    """Which launched sub-invocations sync mode may leave unexecuted, read off the sync run alone.
    Sync mode runs every body inline in the caller's thread, so each execution knows the execution that
    called it; every statement of an execution (recorded when it is launched) is matched, in order, against
    the invocations executed under that execution:
      * a fire-and-forget call executes nothing                       -> lazy 'unread-call'
      * a read call / direct task executes one invocation of its node -> else SKIPPED
      * a group executes one invocation PER ELEMENT, in order, up to and including the first member that
        fails; members after it                                        -> lazy 'group-after-failure';
        an element before it with no invocation of its own (e.g. a repeated argument set served from the
        invocation of the earlier identical element)                   -> SKIPPED
    Returns (lazy: node id -> kind, skipped: [(node id, statement kind)])."""
    from collections import defaultdict, deque
    kids = defaultdict(list)
    for e in s_obs["log"]:
        kids[e.get("parent")].append(e)
    lazy: dict = {}
    skipped: list = []

    def scan(stmts, entries):
        per = defaultdict(deque)          # node id -> final end of each invocation executed here, in order
        last: dict = {}
        for e in entries:
            if e["inv"] not in last:
                last[e["inv"]] = [e["node"], None]
                per[e["node"]].append(last[e["inv"]])
            last[e["inv"]][1] = e["end"]
        for st in stmts:
            if st["op"] == "fire":
                lazy[st["ids"][0]] = "unread-call"
            elif st["op"] in ("call", "direct"):
                if per[st["ids"][0]]:
                    per[st["ids"][0]].popleft()
                else:
                    skipped.append((st["ids"][0], st["op"]))
            else:
                stopped = False
                for i in st["ids"]:
                    if stopped:
                        lazy.setdefault(i, "group-after-failure")
                    elif not per[i]:
                        skipped.append((i, st["op"]))
                    else:
                        end = per[i].popleft()[1]
                        stopped = end is None or end[0] != "val"

    top = case["top"]
    scan([{"op": top, "ids": [p["id"] for p in case["progs"]]}], kids[None])
    for e in s_obs["log"]:
        scan(e.get("stmts", []), kids[e["idx"]])
    return lazy, skipped


def judge(case, s_obs, d_obs):
    """property verdicts for one distributed run against the sync run. Returns [(key, what)]."""
    out = []
    mode = d_obs["mode"]
    nodes = case_nodes(case)
    so, do = s_obs["out"], d_obs["out"]
    if so != do:
        from pynenc.exceptions import PynencError
        from harness import tasks_c19 as T
        if (so[0] == "exc" and do[0] == "exc" and so[1] == do[1] and do[2] == [] and so[2] != []
                and so[1] in KINDS and issubclass(T.exc_class(KINDS.index(so[1])), PynencError)):
            out.append((f"exc-args-lost:{so[1]}",
                        f"{mode}: the task fails with {so[1]}{tuple(so[2])} in sync mode but the distributed caller gets "
                        f"{do[1]}() - exception arguments lost in the state backend round trip"))
        elif do[0] == "hang":
            out.append((f"dist-hang:{mode}", f"{mode}: no result within the time limit; sync mode gives {so}"))
        elif do[0] == "nonvalue" or so[0] == "nonvalue":
            out.append(("direct-nonvalue", f"direct task did not return a plain value: sync {so}, {mode} {do}"))
        else:
            out.append((f"outcome:{mode}", f"outcome differs: sync mode {so}, {mode} {do}"))
    elif so[0] == "nonvalue":
        out.append(("direct-nonvalue", f"direct task did not return a plain value: {so}"))
    cs, cd = counts_of(s_obs), counts_of(d_obs)
    if cs != cd:
        diff = sorted(i for i in set(cs) | set(cd) if cs[i] != cd[i])
        # nodes launched in sync mode that sync mode's laziness leaves unexecuted (result never requested / group
        # member after a failing one); an element whose result IS requested but that got no invocation of its
        # own (skipped) is never laziness
        lazy, skipped = explain_sync(case, s_obs)
        unread = set(lazy)

        def under_unread(i):
            while i is not None:
                if i in unread:
                    return True
                i = nodes[i][2]
            return False
        if unread and not skipped and all(under_unread(i) and cd[i] > cs[i] for i in diff):
            kinds = set(lazy.values())
            for k in sorted(kinds):
                ex = sorted(i for i in unread if lazy[i] == k)
                out.append((f"lazy-sync:{k}",
                            f"{mode}: node(s) {ex} launched but never executed in sync mode (result not requested"
                            + (", the lazy results generator stopped at a failing member" if k != "unread-call" else "")
                            + f"); body executions sync {dict(sorted(cs.items()))} vs distributed {dict(sorted(cd.items()))}"))
        else:
            why = ""
            if skipped:
                why = ("; in sync mode " + ", ".join(f"node {i} ({'element of a ' + k if k in ('group', 'dpar') else k})" for i, k in skipped[:4])
                       + " had its result requested but was not executed as an invocation of its own (the same call occurs"
                         " more than once: every call / every element of a parallelized list is its own invocation when distributed)")
            out.append((f"count-mismatch:{mode}",
                        f"body executions differ at node(s) {diff}: sync {dict(sorted(cs.items()))}, {mode} {dict(sorted(cd.items()))}{why}"))
    if s_obs["top_retries"] != d_obs["top_retries"] and so == do:
        out.append((f"num-retries:{mode}", f"num_retries of the top invocation: sync {s_obs['top_retries']}, {mode} {d_obs['top_retries']}"))
    if d_obs.get("unfinished"):
        out.append((f"unfinished:{mode}", f"{d_obs['unfinished']} invocation(s) never reached a final status"))
    wrong_mode = [e["mode"] for e in s_obs["log"] if e["mode"] != "ConcurrentInvocation"] + \
                 [e["mode"] for e in d_obs["log"] if e["mode"] != "DistributedInvocation"]
    if wrong_mode:
        out.append(("mode-switch", f"invocation classes {sorted(set(wrong_mode))} in the wrong mode"))
    return out


def dist_verdicts(case, m, s_obs, d_obs):
    """all verdicts of one distributed run: oracle (judge + accounting) and correspondence with run_dist."""
    mode = d_obs["mode"]
    found = [(k, w, {}) for k, w in judge(case, s_obs, d_obs)]
    bad, stale = accounting(case, d_obs)
    found += [(f"retry-accounting:{mode}:{k}", f"{mode}: {w}", {}) for k, w in bad]
    found += [(k, w, {}) for k, w in args_check(d_obs)]
    got = (canon_out(d_obs["out"]), sorted(e["node"] for e in d_obs["log"]),
           d_obs["top_retries"] if case["top"] == "call" and d_obs["top_retries"] is not None else 0)
    want = (m["dist"][0], m["dist"][1], m["dist"][2] if case["top"] == "call" else 0)
    if got != want:
        found.append((f"model-mismatch:{mode}", f"{mode} run differs from run_dist: impl {got}, model {want}",
                      {"impl": got, "model": want}))
    # signature of the retry race (set_invocation_retry publishes RETRY before it increments the counter; the
    # runner's blocking path can re-run the invocation in between): some body read a lagging num_retries while
    # the counters are consistent once every worker thread is done.  Its consequences (an extra execution, a
    # different outcome / count) are reported under that one key.
    by_inv: dict = {}
    for e in d_obs["log"]:
        by_inv.setdefault(e["inv"], []).append(e)
    lagging = [e for e in d_obs["log"] if e["retries_seen"] < e["attempt"] - 1]
    eventually = all(d_obs["retries"].get(i) in (None, len(es) - 1) for i, es in by_inv.items())
    consequences = ("outcome:", "count-mismatch:", "model-mismatch:", "num-retries:", f"retry-accounting:{mode}:too-many")
    if lagging and eventually and any(k.startswith(consequences) for k, _, _ in found):
        over = sorted({e["node"] for e in lagging})
        rest = [f for f in found if not f[0].startswith(consequences)]
        detail = "; ".join(w for k, w, _ in found if k.startswith(consequences))[:600]
        found = rest + [("retry-race:stale-counter",
                         f"{mode}: node(s) {over} were re-run before the retry counter was incremented (the body read "
                         f"num_retries lagging behind its execution number), so the max-retries test let them run again: {detail}",
                         {"lagging_reads": [[e["node"], e["attempt"], e["retries_seen"]] for e in lagging]})]
    # the guard of the theorem is decisive: a guarded program must show no lazy finding
    if m["req"] and any(k.startswith("lazy-sync") for k, _, _ in found):
        found.append(("guard-too-weak", "req_prog holds but sync mode skipped an invocation", {}))
    return found, stale


# ---------------------------------------------------------------- main
def build_cases(ctx: Ctx):
    cases = [(name, c) for name, c in corpus_cases()] + large_cases(ctx.thorough)
    n_guard = 900 if ctx.thorough else 200
    n_lazy = 300 if ctx.thorough else 60
    for j in range(n_guard):
        cases.append((f"rnd:{j}", gen_case(ctx.rng, False)))
    for j in range(n_lazy):
        cases.append((f"lazy:{j}", gen_case(ctx.rng, True)))
    return cases


def evaluate_model(ctx: Ctx, cases, dropped):
    vals = ctx.coq_eval(IMPORTS, [coq_case(c, dropped) for _, c in cases], chunk=120)
    out = []
    for v in vals:
        (so, sl), (do, dl), (req, rets) = v
        out.append({"sync": (so, sorted(sl), rets[0]), "dist": (do, sorted(dl), rets[1]), "req": bool(req[0])})
    return out


def main(ctx: Ctx) -> int:
    import multiprocessing as mp
    import warnings
    warnings.simplefilter("ignore")
    threading.excepthook = lambda a: None      # worker threads re-raise task exceptions by design
    sys.setswitchinterval(0.0005)
    world.quiet()
    info = ctx.translate("sync_dist", sync_dist.translate, "gen/SyncDist_gen.v")
    ctx.prove("Props/C19.v")
    scratch = world.scratch_dir()
    try:
        dropped, anomalies = measure_transport(scratch)
        ctx.notes["exception_round_trip"] = {"kinds_with_arguments_dropped": [KINDS[k] for k in dropped],
                                             "other_anomalies": anomalies}
        for kind, want, got in anomalies:
            ctx.violation(f"exc-transport:{want[0]}", f"{kind}: exception {want} comes back from the state backend as {got}",
                          {"kind": "transport", "backend": kind, "exception": want, "observed": got})
        cases = build_cases(ctx)
        model = evaluate_model(ctx, cases, dropped)
        # drop the few random programs whose retries multiply into very long runs
        keep = [j for j, m in enumerate(model) if len(m["dist"][1]) <= 45]
        ctx.notes["dropped_long_cases"] = len(cases) - len(keep)
        cases = [cases[j] for j in keep]
        model = [model[j] for j in keep]
        jobs = []
        for j, (name, c) in enumerate(cases):
            jobs.append((j, "sync", 1, c, scratch))
            jobs.append((j, "mem", 1, c, scratch))
            jobs.append((j, "sqlite", 1, c, scratch))
            if has_group(c) and (ctx.thorough or not name.startswith("leaf")):
                jobs.append((j, "mem", 2, c, scratch))
                if ctx.thorough or j % 3 == 0:
                    jobs.append((j, "sqlite", 2, c, scratch))
        ctx.log(f"{len(cases)} cases, {len(jobs)} executions on the implementation ({NWORKERS} worker processes)")
        results: dict = {}
        fctx = mp.get_context("fork")
        with fctx.Pool(NWORKERS, initializer=_init_worker, initargs=(fctx.Value("i", 0),), maxtasksperchild=60) as pool:
            for idx, mode, slots, obs in pool.imap_unordered(_work, jobs, chunksize=2):
                results[(idx, mode, slots)] = obs
        # an execution that ended in an exception outside the observed client call (scratch directory removed under
        # the run, a backend query of the harness raising, ...) is not a verdict yet: run it again, in a fresh
        # scratch directory; one that fails twice the same way is reported as a violation (impl-crash) with a
        # replay - on the unchanged tree no backend call of the harness raises
        errs = sorted(k for k, o in results.items() if "harness_error" in o)
        crashed: dict = {}
        if errs:
            ctx.log(f"{len(errs)} executions ended in a harness-side exception, first: {errs[0]} "
                    f"{results[errs[0]]['harness_error']} - running them again in a fresh scratch directory")
            scratch2 = world.scratch_dir()
            try:
                redo = [(k[0], k[1], k[2], cases[k[0]][1], scratch2) for k in errs]
                with fctx.Pool(NWORKERS, initializer=_init_worker, initargs=(fctx.Value("i", 0),), maxtasksperchild=60) as pool:
                    for idx, mode, slots, obs in pool.imap_unordered(_work, redo, chunksize=1):
                        if "harness_error" in obs:
                            crashed[(idx, mode, slots)] = (results[(idx, mode, slots)], obs)
                        results[(idx, mode, slots)] = obs
            finally:
                world.rm_scratch(scratch2)
            ctx.notes["harness_side_exceptions"] = {"first_round": len(errs), "again_on_rerun": len(crashed),
                                                    "first": results[errs[0]].get("harness_error") if errs[0] in crashed else "transient"}
        for (idx, mode, slots), (first, again) in sorted(crashed.items()):
            ctx.violation(f"impl-crash:{mode}",
                          f"[{cases[idx][0]}] {mode}: the run could not be observed, twice: {again['harness_error']} "
                          f"(first time: {first['harness_error']})",
                          {"case": cases[idx][1], "name": cases[idx][0], "mode": mode, "slots": slots, "trace": again["trace"]})
            # keep the bookkeeping below total: an unobservable run counts as a hang with an empty log
            results[(idx, mode, slots)] = {"mode": mode, "slots": slots, "out": ["hang"], "top_retries": None, "retries": {},
                                           "log": [], "wall": 0.0, "max_slots": slots, "crashed": True}
        # the retry race, under the schedule that exhibits it (see run_impl inject): parent waits for a child
        # that keeps raising RetryError with max_retries=1
        race_case = {"top": "call", "progs": [node(1, body=[["call", node(2, mr=1, dflt=[1, 0, 0])]])]}
        race_model = evaluate_model(ctx, [("witness:retry-race", race_case)], dropped)[0]
        race_sync = run_impl("sync", race_case, scratch, 1, tag="race_s")
        race_seen = {}
        for mode in ("mem", "sqlite"):
            d = run_impl(mode, race_case, scratch, 1, tag="race_d", timeout=20.0, inject="delay-increment")
            race_seen[mode] = dict(counts_of(d))
            for key, what, extra in dist_verdicts(race_case, race_model, race_sync, d)[0]:
                ctx.violation(key, f"[witness:retry-race, schedule delay-increment] {what}",
                              dict(extra, case=race_case, name="witness:retry-race", mode=mode, slots=1, inject="delay-increment",
                                   sync_counts=dict(counts_of(race_sync)), dist_counts=dict(counts_of(d))))
        ctx.notes["retry_race_witness"] = {"schedule": "increment_invocation_retries held until the next execution starts (<= 1 s)",
                                           "sync_executions": dict(counts_of(race_sync)), "distributed_executions": race_seen}
        stats = {"top": Counter(), "guarded": 0, "unguarded": 0, "outcome": Counter(), "executions": Counter(),
                 "with_retry": 0, "stale_counter_reads": Counter(), "wall_by_mode": Counter(), "runs_by_mode": Counter(),
                 "statement_kinds": Counter(), "transient": []}
        n_eval = 0
        confirmed: set = set()
        reruns = [0]
        for j, (name, c) in enumerate(cases):
            s_obs = results[(j, "sync", 1)]
            m = model[j]
            if s_obs.get("crashed"):
                continue
            stats["top"][c["top"]] += 1
            stats["guarded" if m["req"] else "unguarded"] += 1
            stats["outcome"][s_obs["out"][0] + (":" + s_obs["out"][1] if s_obs["out"][0] == "exc" else "")] += 1
            stats["executions"][min(len(s_obs["log"]), 30)] += 1
            stats["with_retry"] += any(e["attempt"] > 1 for e in s_obs["log"])
            for (_, k, _) in case_nodes(c).values():
                stats["statement_kinds"][k] += 1
            rp = {"case": c, "name": name}
            # sync run: accounting + model
            for key, what in accounting(c, s_obs)[0]:
                ctx.violation(f"retry-accounting:sync:{key}", f"[{name}] sync mode: {what}", dict(rp, mode="sync", slots=1))
            for key, what in args_check(s_obs):
                ctx.violation(key, f"[{name}] {what}", dict(rp, mode="sync", slots=1))
            got = (canon_out(s_obs["out"]), sorted(e["node"] for e in s_obs["log"]),
                   s_obs["top_retries"] if c["top"] == "call" and s_obs["top_retries"] is not None else 0)
            want = (m["sync"][0], m["sync"][1], m["sync"][2] if c["top"] == "call" else 0)
            n_eval += 1
            if got != want:
                ctx.violation("model-mismatch:sync", f"sync run differs from run_sync: impl {got}, model {want}",
                              dict(rp, mode="sync", slots=1, impl=got, model=want))
            for (jj, mode, slots), d_obs in results.items():
                if jj != j or mode == "sync" or d_obs.get("crashed"):
                    continue
                n_eval += 1
                stats["wall_by_mode"][mode] += d_obs["wall"]
                stats["runs_by_mode"][f"{mode}/{slots}"] += 1
                drp = dict(rp, mode=mode, slots=slots, sync_outcome=s_obs["out"], dist_outcome=d_obs["out"],
                           sync_counts=dict(counts_of(s_obs)), dist_counts=dict(counts_of(d_obs)))
                if "trace" in d_obs:
                    drp["unexpected_exception_trace"] = d_obs["trace"]
                if d_obs.get("max_slots") != slots:
                    from harness.common import CheckError
                    raise CheckError(f"runner has {d_obs.get('max_slots')} slots, wanted {slots}")
                found, stale = dist_verdicts(c, m, s_obs, d_obs)
                if stale:
                    stats["stale_counter_reads"][mode] += stale
                fresh = [f for f in found if f[0] not in ctx._known and f[0] not in confirmed]
                if fresh and reruns[0] < 24:
                    # a verdict must reproduce: re-run the same case (fresh app, this process, nothing else running,
                    # generous time limit - the machine may be loaded) twice; a genuine violation of the property by
                    # the source is deterministic for these pure programs, so it shows in BOTH re-runs
                    again = {f[0] for f in fresh}
                    for r in range(2):
                        reruns[0] += 1
                        d2 = run_impl(mode, c, scratch, slots, tag=f"{j}_re{r}", timeout=40.0)
                        again &= {f[0] for f in dist_verdicts(c, m, s_obs, d2)[0]}
                        if not again:
                            break
                    for f in fresh:
                        if f[0] in again:
                            confirmed.add(f[0])
                        else:
                            stats["transient"].append({"case": name, "mode": mode, "slots": slots, "key": f[0], "what": f[1],
                                                       "trace": d_obs.get("trace")})
                found = [f for f in found if f[0] in ctx._known or f[0] in confirmed]
                for key, what, extra in found:
                    ctx.violation(key, f"[{name}] {what}", dict(drp, **extra))
            if len(ctx.coverage["samples"]) < 6 and name.startswith("rnd") and len(s_obs["log"]) >= 4:
                ctx.sample({"case": c, "sync": {"out": s_obs["out"], "executions": dict(counts_of(s_obs)), "num_retries": s_obs["top_retries"]},
                            "mem": {"out": results[(j, 'mem', 1)]["out"], "executions": dict(counts_of(results[(j, 'mem', 1)]))},
                            "sqlite": {"out": results[(j, 'sqlite', 1)]["out"], "executions": dict(counts_of(results[(j, 'sqlite', 1)]))},
                            "model_guard": m["req"]})
        distinct = len({json.dumps(c, sort_keys=True) for _, c in cases})
        ctx.count(n_eval, distinct)
        ctx.notes["cases"] = {
            "total": len(cases), "leaf_enumeration": sum(1 for n, _ in cases if n.startswith("leaf")),
            "random_guard_biased": sum(1 for n, _ in cases if n.startswith("rnd")),
            "random_lazy_allowed": sum(1 for n, _ in cases if n.startswith("lazy")),
            "repeated_argument_set_corpus": sum(1 for n, _ in cases if n.startswith("repeat")),
            "batch_corpus": sum(1 for n, _ in cases if n.startswith("batch")),
            "common_args_corpus": sum(1 for n, _ in cases if n.startswith(("common", "percall"))),
            "option_level_corpus": sum(1 for n, _ in cases if n.startswith("opt")),
            "large_payload_cases": sum(1 for n, _ in cases if n.startswith("large")),
            "app_level_max_retries": dict(Counter(str(app_mr(c) or "default") for _, c in cases)),
            "batch_size(task/app)": dict(Counter(f"{c.get('tbatch')}/{(c.get('app') or {}).get('parallel_batch_size')}" for _, c in cases)),
            "nodes_by_declaration": dict(Counter(("app-level" if n.get("decl") == "a" else ("task:0" if n["mr"] == 0 else "task:>0"))
                                                 for _, c in cases for (n, _, _) in case_nodes(c).values())),
            "groups_with_common_args": sum(1 for _, c in cases if any(n.get("shift") is not None for (n, _, _) in case_nodes(c).values())),
            "largest_group": max([len(c["progs"]) for _, c in cases if c["top"] in ("group", "dpar")]
                                 + [len(st[1]) for _, c in cases for (n, _, _) in case_nodes(c).values() for st in n["body"] if st[0] in ("group", "dpar")]),
            "cases_with_a_repeated_group_member": sum(1 for _, c in cases if repeats(c)[0]),
            "cases_with_a_repeated_single_call": sum(1 for _, c in cases if repeats(c)[1]),
            "top_flavour": dict(stats["top"]), "launching_statement_kinds": dict(stats["statement_kinds"]),
            "model_guard_true": stats["guarded"], "model_guard_false": stats["unguarded"],
            "sync_outcomes": dict(stats["outcome"]), "cases_with_a_retry": stats["with_retry"],
            "body_executions_histogram(sync)": {str(k): v for k, v in sorted(stats["executions"].items())},
            "runs": dict(stats["runs_by_mode"]),
            "cpu_seconds_by_mode": {k: round(v, 1) for k, v in stats["wall_by_mode"].items()},
        }
        ctx.notes["transient_unreproduced"] = stats["transient"][:10]
        ctx.notes["in_body_num_retries_stale_reads"] = {
            "by_mode": dict(stats["stale_counter_reads"]),
            "meaning": "executions whose body read invocation.num_retries != execution number - 1 (not a verdict: "
                       "set_invocation_retry publishes RETRY before it increments the counter, and the runner's blocking path "
                       "can pick the invocation up in between; final counts are what the oracle judges)"}
    finally:
        world.rm_scratch(scratch)
    ctx.assumptions += [
        "task language: pure bodies returning base + sum of sub-results; scripted exceptions RetryError/ValueError/KeyError/"
        "RuntimeError with JSON-able arguments () or ('e', n); sub-tasks called singly (read / never read), as parallelize "
        "groups aggregated with sum, as direct tasks and direct tasks with parallel_func; max_retries 0..3; retry_for absent | "
        "(ValueError,) | (ValueError, KeyError)",
        "a group's subtree uses one exception, so the exception its parent sees does not depend on completion order",
        "a node id names an argument set: repeated members of a group / repeated calls in a body carry the same id and the "
        "same spec (same call_id); elements of a parallelized list are spelled dict / tuple / Arguments by position",
        "serialiser oracle (state backend exception round trip) measured per run and given to run_dist as tr_drop",
        "environment of a case: app-level config max_retries 1..3 / parallel_batch_size 0..3 or defaults, task-level "
        "parallel_batch_size 0..3 or absent; a task declares max_retries itself (also 0) or leaves it to the app level; "
        "keyword arguments extra (per call) and shift (common_args) are added to the body's value, declared in the spec",
        "large payloads are 60 000-element int lists / 200 000-character strings whose middle element carries a mark 1..9; "
        "big results are 60 000-element lists unwrapped by the caller",
        "distributed runs use the real ThreadRunner in a thread, 2 ms loop sleeps, GIL switch interval 0.5 ms; verdicts use "
        "outcome, per-node execution counts and final num_retries only; a verdict of a distributed run must reproduce on "
        "two re-runs of the same case, each with a 40 s limit (unreproduced ones are listed under transient_unreproduced)",
        "the app's lazily created components are instantiated in the main thread before the runner and client threads start "
        "(their unlocked check-then-create can otherwise build two in-memory orchestrators / data stores)",
    ]
    ctx.trusted += [
        "harness/translate/sync_dist.py recognises the retry handlers, set_invocation_retry, Task.retriable_exceptions, "
        "direct_task.sync_wrapper, the sync branch of distribute_calls and the max_retries default by exact AST shape",
        "Model/SyncDist.v interpreters are hand-written; tied by the three-way correspondence on every case",
    ]
    if info.get("degraded"):
        ctx.notes["translator_degraded"] = info.get("error")
    return ctx.finish(
        rule="cases = 4 refutation witnesses + 13 repeated-argument-set cases + batch-size / common_args / option-level corpus "
             "(group sizes x batch sizes at task and app level; heterogeneous per-call dicts with common_args; app-level vs "
             "task-level max_retries incl. explicit 0 for plain, direct, group, direct-parallel tasks) + large-payload cases "
             "(3 quick / 12 thorough) + exhaustive leaf enumeration (max_retries x retry_for x exception kind x always-"
             "raising/first success on attempt k) + seeded random programs (depth <= 3, guard-biased and lazy-allowed streams; ~40% of "
             "the groups repeat a member, ~12% of the single calls are made twice); "
             "each case executed in sync mode, on mem+ThreadRunner and SQLite+ThreadRunner (1 slot; 2 slots when it has a group) "
             "and on both model interpreters; evaluations = implementation executions compared; distinct_nontrivial = distinct cases")


def replay(ctx: Ctx, path: str) -> int:
    import warnings
    warnings.simplefilter("ignore")
    threading.excepthook = lambda a: None
    sys.setswitchinterval(0.0005)
    world.quiet()
    rp = json.load(open(path))["replay"]
    scratch = world.scratch_dir()
    try:
        if rp.get("kind") == "transport":
            print("measured:", measure_transport(scratch))
            return 0
        case = rp["case"]
        s_obs = run_impl("sync", case, scratch, 1, tag="rs")
        print("case:", json.dumps(case))
        print("sync  :", s_obs["out"], "executions", dict(counts_of(s_obs)), "num_retries", s_obs["top_retries"])
        rc = 0
        for key, what in accounting(case, s_obs)[0] + args_check(s_obs):
            print("  sync accounting:", key, what)
            rc = 1
        mode = rp.get("mode", "mem")
        for md, sl in ([(mode, rp.get("slots", 1))] if mode != "sync" else [("mem", 1), ("sqlite", 1)]):
            try:
                d_obs = run_impl(md, case, scratch, sl, tag="rd", inject=rp.get("inject"))
            except Exception as ex:  # noqa: BLE001 - the recorded violation may be exactly this (impl-crash)
                print(f"{md:6}: the run could not be observed: {type(ex).__name__}: {ex}")
                print("  -> impl-crash:" + md)
                rc = 1
                continue
            print(f"{md:6}:", d_obs["out"], "executions", dict(counts_of(d_obs)), "num_retries", d_obs["top_retries"])
            got = (canon_out(d_obs["out"]), sorted(e["node"] for e in d_obs["log"]),
                   d_obs["top_retries"] if case["top"] == "call" and d_obs["top_retries"] is not None else 0)
            fake = {"dist": got, "req": False}         # replay judges the implementation only
            for key, what, _ in dist_verdicts(case, fake, s_obs, d_obs)[0]:
                print("  ->", key, ":", what)
                rc = 1
        return rc
    finally:
        world.rm_scratch(scratch)

"""C05 — a final status always comes with the matching result or exception.

proof: Props/C05.v — workers (zombies included), external changes and readers interleaved; the finishing
       sequence is instantiated with the call order generated from set_invocation_result/_exception.
tie:   AST facts + (a) real worker/reader schedules (reader polls status then get_final_result) at SQL-statement
       (SQLite) / primitive-call (in-memory) granularity, (b) value and exception round trips through the real
       worker path for every serializer x backend x externalisation threshold.
"""
from __future__ import annotations

import json

from harness import conc_driver as D
from harness import sched as S
from harness import tasks_conc, world
from harness.common import Ctx
from harness.translate import final_facts

GENERATED = [("harness.translate.final_facts", "translate", "gen/FinalFacts_gen.v")]
MANIFEST = {
    "technique": "Coq invariant proof over interleaved workers/readers with the store-then-publish order generated from the source + schedule exploration and value/exception round trips on the real worker path",
    "text": "Theorems (Props/C05.v): for any number of workers (zombie executions after kill/recovery included), any external status "
            "changes and readers at any moment, in every interleaving, a reader that observes SUCCESS finds a stored result that is "
            "the value of a completed execution of that body, one that observes FAILED finds the exception a completed body raised, "
            "and get_final_result on a non-final status yields no value; the order is instantiated from the generated facts "
            "(result stored before SUCCESS is published, exception before FAILED, final-status guard present) and publish-before-"
            "store is refuted by a witness. Tie: AST facts; real worker + concurrent reader schedules on both backends; results and "
            "exceptions (builtin, custom, PynencError subclasses, 0-3 arguments) through DistributedInvocation.run and back through "
            "get_final_result for 3 serializers x 2 backends x thresholds straddling the value size.",
    "note": "Trusted: serializer text layers (pickle/jsonpickle/json) as oracles exercised by the round trips (their algebra is C15's "
            "subject); scheduler harness; values compared with Python equality, exceptions by type name and args.",
    "design_ref": "DESIGN.md §6 C05",
}

SERIALIZERS = ["JsonSerializer", "JsonPickleSerializer", "PickleSerializer"]


def gen_values(rng, n):
    base = [0, -7, 2 ** 40, True, None, "", "x", "naïve ✓ 😀", 3.5, [1, [2, [3]]], {"a": [1, 2], "b": {"c": None}},
            ["x" * 5, {"k": "v" * 20}], "s" * 40, [list(range(30))],
            # enum members (every serializer supports them), alone and AFTER scalars inside lists / nested rows
            tasks_conc.Color.RED, [1, tasks_conc.Color.RED], {"rows": [[0, tasks_conc.Level.LOW], ["x", tasks_conc.Color.BLUE]]},
            ["a", {"lvl": tasks_conc.Level.HIGH}, [2.5, tasks_conc.Color.BLUE]]]
    out = list(base)
    def rec(d):
        r = rng.random()
        if d == 0 or r < 0.35:
            return rng.choice([rng.randint(-5, 5), rng.choice(["", "a", "é", "q" * rng.randint(1, 50)]), None, True, 1.25])
        if r < 0.7:
            return [rec(d - 1) for _ in range(rng.randint(0, 3))]
        return {rng.choice(["k", "x", "yy"]) + str(i): rec(d - 1) for i in range(rng.randint(0, 3))}
    while len(out) < n:
        out.append(rec(3))
    return out[:n]


EXCEPTIONS = [("ValueError", []), ("ValueError", ["boom"]), ("KeyError", ["k", 2]), ("RuntimeError", ["a", 1, None]),
              ("CustomError", []), ("CustomError", ["c", 5]), ("RetryError", ["boom"]), ("RetryError", ["boom", 3]),
              ("RunnerError", ["x"])]


def exc_sig(e: BaseException):
    return [type(e).__name__, list(e.args)]


def run_worker_reader(kind, scratch, what, prefix, serializer="JsonPickleSerializer"):
    """what = ('value', v) | ('exc', name, args).  One worker executing, one reader polling."""
    from pynenc.exceptions import InvocationError
    w = D.World(kind, scratch, serializer_cls=serializer)
    s = S.Sched()
    app = w.app
    if what[0] == "value":
        inv = w.task(tasks_conc.value)(what[1])
    else:
        inv = w.task(tasks_conc.raiser)(what[1], what[2])
    claimed = list(app.orchestrator.get_invocations_to_run(1, world.runner_ctx("r0")))
    assert [c.invocation_id for c in claimed] == [inv.invocation_id]
    handle = app.state_backend.get_invocation(inv.invocation_id)
    if kind == "mem":
        for obj, names in ((app.state_backend, ["_set_result", "_get_result", "_set_exception", "_get_exception"]),
                           (app.orchestrator, ["get_invocation_status_record", "_atomic_status_transition"])):
            for name in names:
                real = getattr(obj, name)

                def wrapped(*a, _real=real, _name=name, **k):
                    s.yield_point(_name)
                    return _real(*a, **k)
                setattr(obj, name, wrapped)
    obs = []

    def reader():
        for _ in range(5):
            s.yield_point("reader")
            st = handle.status.name
            try:
                v = handle.get_final_result()
                obs.append([st, "value", v])
            except InvocationError:
                obs.append([st, "not-final", None])
            except BaseException as ex:  # noqa: BLE001
                obs.append([st, "raised", exc_sig(ex)])
    s.spawn("worker", w.worker(claimed[0], "r0"))
    s.spawn("reader", reader)
    try:
        status = s.run(S.replay_chooser(prefix), max_steps=4000)
    finally:
        s.shutdown()
    verdict = None
    for st, k, v in obs:
        ok_value = what[0] == "value" and k == "value" and v == what[1]
        ok_exc = what[0] == "exc" and k == "raised" and v == [what[1], list(what[2])]
        if st == "SUCCESS":
            if not ok_value:
                verdict = f"reader observed SUCCESS but get_final_result gave {k}:{v!r} (body returned {what[1] if what[0] == 'value' else 'an exception'})"
        elif st == "FAILED":
            if not ok_exc:
                verdict = f"reader observed FAILED but get_final_result gave {k}:{v!r} (body raised {what[1:]})"
        elif not (k == "not-final" or ok_value or ok_exc):
            # the invocation may legitimately have finished between the two reads; anything else is wrong
            verdict = f"reader observed non-final {st}; get_final_result gave {k}:{v!r}, which is neither 'not final' nor the body's outcome"
        if verdict:
            break
    if status != "done" and not verdict:
        verdict = f"schedule ended {status}"
    return s.decisions, {"verdict": verdict, "observations": obs, "final": w.status(inv.invocation_id)[0]}


def roundtrip(ctx: Ctx, scratch):
    """sequential: every value / exception through the real worker path, all serializer x backend x threshold"""
    n_vals = 60 if ctx.thorough else 22
    vals = gen_values(ctx.rng, n_vals)
    n = 0
    hist: dict = {}
    for kind in ("mem", "sqlite"):
        for ser in SERIALIZERS:
            for thr in (0, 8, 64, 1024):
                w = D.World(kind, scratch, serializer_cls=ser, min_size_to_cache=thr)
                app = w.app
                tv, tr = w.task(tasks_conc.value), w.task(tasks_conc.raiser)
                cases = [("value", v) for v in vals] + [("exc", nme, a) for nme, a in EXCEPTIONS]
                for what in cases:
                    if what[0] == "value" and ser == "JsonSerializer" and isinstance(what[1], float) and what[1] != what[1]:
                        continue
                    inv = tv(what[1]) if what[0] == "value" else tr(what[1], what[2])
                    for c in app.orchestrator.get_invocations_to_run(1, world.runner_ctx("r0")):
                        try:
                            c.run(world.runner_ctx("r0"))
                        except Exception:  # noqa: BLE001
                            pass
                    handle = app.state_backend.get_invocation(inv.invocation_id)
                    st = handle.status.name
                    n += 1
                    hist[what[0]] = hist.get(what[0], 0) + 1
                    try:
                        got = ["value", handle.get_final_result()]
                    except BaseException as ex:  # noqa: BLE001
                        got = ["raised", exc_sig(ex)]
                    want_st = "SUCCESS" if what[0] == "value" else "FAILED"
                    want = ["value", what[1]] if what[0] == "value" else ["raised", [what[1], list(what[2])]]
                    if got == want and what[0] == "value" and isinstance(got[1], (list, dict)):
                        # every observation gives the body's value: what the first reader does with ITS copy must not show
                        # in the next read through the same handle
                        import copy
                        keep = copy.deepcopy(what[1])
                        if isinstance(got[1], list):
                            got[1].append("mutated-by-reader")
                        else:
                            got[1]["mutated-by-reader"] = True
                        try:
                            again = ["value", handle.get_final_result()]
                        except BaseException as ex:  # noqa: BLE001
                            again = ["raised", exc_sig(ex)]
                        if again != ["value", keep]:
                            ctx.violation("roundtrip:second-read-differs",
                                          f"{kind}/{ser}/min_size_to_cache={thr}: body returned {keep!r}; the second read through the same handle (after "
                                          f"the first reader modified its copy in place) gave {again!r}",
                                          {"kind": "roundtrip", "backend": kind, "serializer": ser, "threshold": thr, "what": ["value", keep],
                                           "observed": [st, again], "expected": [want_st, ["value", keep]], "second_read": True})
                        got = ["value", keep]
                    if st != want_st or got != want:
                        cls = "value" if what[0] == "value" else ("PynencError-args" if what[1] in ("RetryError", "RunnerError") else "exception")
                        ctx.violation(f"roundtrip:{cls}:{what[1] if what[0] == 'exc' else type(what[1]).__name__}",
                                      f"{kind}/{ser}/min_size_to_cache={thr}: body outcome {what!r}; status {st}; get_final_result -> {got!r}, expected {want!r}",
                                      {"kind": "roundtrip", "backend": kind, "serializer": ser, "threshold": thr, "what": list(what),
                                       "observed": [st, got], "expected": [want_st, want]})
                if kind == "mem" and ser == SERIALIZERS[0] and thr == 8:
                    ctx.sample({"roundtrip_values": [repr(v)[:40] for v in vals[:8]], "exceptions": EXCEPTIONS[:4]})
    ctx.count(n, len(vals) + len(EXCEPTIONS))
    ctx.notes["roundtrip"] = {"executions": n, "values": len(vals), "exceptions": len(EXCEPTIONS), "kinds": hist,
                              "configs": "2 backends x 3 serializers x thresholds {0,8,64,1024}"}


def zombies(ctx: Ctx, scratch):
    """a slow (zombie) execution ends AFTER the invocation was recovered, re-run by another runner and published final: the
    zombie's outcome is stored and its final transition refused; the reader must still get the published outcome"""
    from pynenc.invocation.status import InvocationStatus as St
    n = 0
    for kind in ("mem", "sqlite"):
        for ser in (SERIALIZERS[:1] if not ctx.thorough else SERIALIZERS):
            for first, second in ((["value", {"v": [1, 2]}], ["raise", "ValueError", ["boom", 7]]),
                                  (["raise", "KeyError", ["k"]], ["value", [3, "ok"]])):
                w = D.World(kind, scratch, serializer_cls=ser)
                app, orch = w.app, w.app.orchestrator
                tasks_conc.ATTEMPTS.clear()
                t = w.task(tasks_conc.value_by_attempt)
                inv = t([second])                                   # the body that counts is the SECOND runner's
                a, b, rec = world.runner_ctx("rA"), world.runner_ctx("rB"), world.runner_ctx("rec")
                got_a = list(orch.get_invocations_to_run(1, a))
                assert [g.invocation_id for g in got_a] == [inv.invocation_id]
                orch.set_invocation_status(inv.invocation_id, St.RUNNING, a)          # A is executing (slowly)
                orch.set_invocation_status(inv.invocation_id, St.RUNNING_RECOVERY, rec)
                orch.reroute_invocations({inv.invocation_id}, rec)
                for c in orch.get_invocations_to_run(1, b):                           # B runs it to the end and publishes
                    try:
                        c.run(b)
                    except Exception:  # noqa: BLE001
                        pass
                # the zombie's execution ends now, with the OTHER kind of outcome (its tail of DistributedInvocation.run)
                try:
                    if first[0] == "value":
                        orch.set_invocation_result(got_a[0], first[1], a)
                    else:
                        import builtins
                        orch.set_invocation_exception(got_a[0], getattr(builtins, first[1])(*first[2]), a)
                except Exception:  # noqa: BLE001 - the refused final transition
                    pass
                handle = app.state_backend.get_invocation(inv.invocation_id)
                st = handle.status.name
                try:
                    got = ["value", handle.get_final_result()]
                except BaseException as ex:  # noqa: BLE001
                    got = ["raised", exc_sig(ex)]
                want_st = "SUCCESS" if second[0] == "value" else "FAILED"
                want = ["value", second[1]] if second[0] == "value" else ["raised", [second[1], list(second[2])]]
                n += 1
                if st != want_st or got != want:
                    ctx.violation(f"zombie:{'exception' if second[0] != 'value' else 'result'}-wiped",
                                  f"{kind}/{ser}: runner B published {want_st} with {want!r}; a zombie execution of runner A then ended with {first!r} "
                                  f"(stored, its final transition refused): status {st}, get_final_result -> {got!r}",
                                  {"kind": "zombie", "backend": kind, "serializer": ser, "first": first, "second": second,
                                   "observed": [st, got], "expected": [want_st, want]})
    ctx.count(n, n)
    ctx.notes["zombies"] = {"runs": n}


def groups(ctx: Ctx, scratch):
    """results read through a parallelized GROUP (task.parallelize(...).results): every value is a member's body value, a FAILED
    member surfaces as the exception its body raised"""
    n = 0
    for kind in ("mem", "sqlite"):
        for ser in (SERIALIZERS[:1] if not ctx.thorough else SERIALIZERS):
            for plans in ([[["value", 1]], [["value", [2, "x"]]], [["value", {"k": None}]]],
                          [[["value", 5]], [["raise", "ValueError", ["boom", 7]]]],
                          [[["raise", "KeyError", ["k"]]]],
                          [[["raise", "RuntimeError", []]], [["value", "late"]]]):
                w = D.World(kind, scratch, serializer_cls=ser)
                app = w.app
                tasks_conc.ATTEMPTS.clear()
                t = w.task(tasks_conc.value_by_attempt)
                group = t.parallelize([(p,) for p in plans])
                for _ in range(len(plans) + 1):
                    for c in app.orchestrator.get_invocations_to_run(4, world.runner_ctx("r0")):
                        try:
                            c.run(world.runner_ctx("r0"))
                        except Exception:  # noqa: BLE001
                            pass
                want_vals = [p[0][1] for p in plans if p[0][0] == "value"]
                want_excs = [[p[0][1], list(p[0][2])] for p in plans if p[0][0] == "raise"]
                got_vals, got_exc = [], None
                try:
                    for v in group.results:
                        got_vals.append(v)
                except BaseException as ex:  # noqa: BLE001
                    got_exc = exc_sig(ex)
                n += 1
                ok_vals = all(v in want_vals for v in got_vals) and len(got_vals) <= len(want_vals)
                ok_exc = (got_exc in want_excs) if want_excs else (got_exc is None and sorted(map(repr, got_vals)) == sorted(map(repr, want_vals)))
                if not (ok_vals and ok_exc):
                    ctx.violation("group-results:" + ("exception" if want_excs else "values"),
                                  f"{kind}/{ser}: group of {len(plans)} members with body outcomes {plans}: iterating group.results gave values {got_vals!r} "
                                  f"then {'raised ' + repr(got_exc) if got_exc else 'ended'}; expected the values {want_vals!r}"
                                  + (f" and one of the exceptions {want_excs!r}" if want_excs else ""),
                                  {"kind": "group", "backend": kind, "serializer": ser, "plans": plans, "observed": [got_vals, got_exc]})
    ctx.count(n, n)
    ctx.notes["groups"] = {"runs": n}


def purge_between(ctx: Ctx, scratch):
    """a SUCCESS published after ANOTHER process purged the stores must come with a readable result: the worker's local caches
    are no proof that the shared store still holds an externalised value"""
    n = 0
    for ser in (SERIALIZERS[:1] if not ctx.thorough else SERIALIZERS):
        w = D.World("sqlite", scratch, serializer_cls=ser, min_size_to_cache=8)
        app = w.app
        other = world.make_app("sqlite", scratch, app_id=app.app_id, serializer_cls=ser, min_size_to_cache=8)
        big = {"rows": [["x" * 40, i] for i in range(6)]}
        t = w.task(tasks_conc.value)
        t_other = other.task(tasks_conc.value)
        del t_other
        seen = []
        for round_ in range(2):
            inv = t(big)
            for c in app.orchestrator.get_invocations_to_run(1, world.runner_ctx("r0")):
                try:
                    c.run(world.runner_ctx("r0"))
                except Exception:  # noqa: BLE001
                    pass
            handle = other.state_backend.get_invocation(inv.invocation_id)
            st = handle.status.name
            try:
                got = ["value", handle.get_final_result()]
            except BaseException as ex:  # noqa: BLE001
                got = ["raised", exc_sig(ex)]
            seen.append([st, got])
            n += 1
            if st != "SUCCESS" or got != ["value", big]:
                ctx.violation("purge-between:result-unreadable",
                              f"sqlite/{ser}: run #{round_ + 1} of a task returning the same big value "
                              f"{'after another process purged the stores' if round_ else ''}: status {st}, another process reads {got!r}",
                              {"kind": "purge-between", "serializer": ser, "observed": seen})
            if round_ == 0:
                other.purge()                      # another process wipes orchestrator, broker, state backend, client data store
    ctx.count(n, n)
    ctx.notes["purge_between"] = {"runs": n}


def schedules(ctx: Ctx, scratch):
    total, per = 0, {}
    whats = [("value", {"k": [1, 2, 3], "s": "x" * 30}), ("exc", "ValueError", ["boom", 1])]
    for kind in ("sqlite", "mem"):
        for what in whats:
            n = 0
            budget = 500 if ctx.thorough else 120
            for schedule, out in S.explore(lambda p: run_worker_reader(kind, scratch, what, p), max_preemptions=2, max_runs=budget):
                n += 1
                if out["verdict"]:
                    ctx.violation(f"sched:{kind}:{'success-without-result' if 'SUCCESS' in out['verdict'] else 'failed-without-exception' if 'FAILED' in out['verdict'] else 'nonfinal-value'}",
                                  f"{kind}: worker/reader interleaving: {out['verdict']}",
                                  {"kind": "schedule", "backend": kind, "what": list(what), "schedule": schedule, "observed": out})
                    break
            total += n
            per[f"{kind}:{what[0]}"] = n
            ctx.sample({"backend": kind, "what": what[0], "schedules": n, "last_observations": out["observations"][:5]})
    ctx.count(total, total)
    ctx.notes["schedules"] = {"schedules": total, "per_scenario": per, "bound": "DFS <=2 pre-emptions, 1 worker + 1 reader (5 polls)"}


def main(ctx: Ctx) -> int:
    world.quiet()
    info = ctx.translate("final_facts", final_facts.translate, "gen/FinalFacts_gen.v")
    ctx.notes["facts"] = info.get("facts")
    ctx.prove("Props/C05.v")
    scratch = world.scratch_dir()
    try:
        schedules(ctx, scratch)
        zombies(ctx, scratch)
        groups(ctx, scratch)
        purge_between(ctx, scratch)
        roundtrip(ctx, scratch)
    finally:
        world.rm_scratch(scratch)
    ctx.assumptions += ["one worker + one reader in the explored schedules (the theorem covers any number, zombies included)",
                        "value domain: JSON-able nested values, unicode, sizes around the thresholds; NaN excluded"]
    return ctx.finish(rule="schedules: DFS over worker/reader interleavings on fresh apps; round trips: generated values + 9 exception shapes x "
                           "24 configurations; distinct_nontrivial = schedules + distinct values/exceptions")


def replay(ctx: Ctx, path: str) -> int:
    world.quiet()
    rp = json.load(open(path))["replay"]
    scratch = world.scratch_dir()
    try:
        if rp["kind"] in ("group", "purge-between"):
            (groups if rp["kind"] == "group" else purge_between)(ctx, scratch)
            for v in ctx.violations + ctx.known_hits:
                print("REPRODUCED:", v["what"])
            if not (ctx.violations or ctx.known_hits):
                print("not reproduced")
        elif rp["kind"] == "zombie":
            zombies(ctx, scratch)
            for v in ctx.violations + ctx.known_hits:
                print("REPRODUCED:", v["what"])
            if not (ctx.violations or ctx.known_hits):
                print("not reproduced")
        elif rp["kind"] == "schedule":
            what = tuple(rp["what"])
            _, out = run_worker_reader(rp["backend"], scratch, what, rp["schedule"])
            print(json.dumps(out, indent=1, default=str))
        else:
            w = D.World(rp["backend"], scratch, serializer_cls=rp["serializer"], min_size_to_cache=rp["threshold"])
            what = rp["what"]
            inv = w.task(tasks_conc.value)(what[1]) if what[0] == "value" else w.task(tasks_conc.raiser)(what[1], what[2])
            for c in w.app.orchestrator.get_invocations_to_run(1, world.runner_ctx("r0")):
                try:
                    c.run(world.runner_ctx("r0"))
                except Exception:  # noqa: BLE001
                    pass
            h = w.app.state_backend.get_invocation(inv.invocation_id)
            try:
                print("status", h.status.name, "value", h.get_final_result())
            except BaseException as ex:  # noqa: BLE001
                print("status", h.status.name, "raised", exc_sig(ex), "expected", rp["expected"])
    finally:
        world.rm_scratch(scratch)
    return 0

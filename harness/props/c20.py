"""C20 — monitoring pages only observe: a GET never changes the system.

proof: Props/C20.v over gen/Routes_gen.v (regenerated on every run from pynmon's AST):
       * every API method the model classifies read-only is a function sys -> out (state untouched);
       * ANY handler program (interaction tree: calls, branches on results, raises) that only calls
         read-only methods leaves the whole system as it was, whether it returns or fails;
       * every generated GET route except the queue view reaches read-only methods only;
       * the queue view (drain-and-requeue because the broker has no peek) is decided from its
         generated shape: restoring for all states, or refuted by a computed witness.
tie:   (1) translator harness/translate/routes.py (route table from decorators, pynmon call graph,
           component API calls, queue-view shape), cross-checked against FastAPI's route table;
       (2) API-level correspondence: every read-only classified method is called on the real
           in-memory and SQLite components with a full read-out before/after;
       (3) route-level correspondence: every GET route is requested through Starlette's TestClient
           with generated parameters against generated system states (queues longer than the limit,
           partially purged stores) on both backends; full read-out before/after; the model predicts
           the queue afterwards (exactly) and whether the queue view fails.
oracle: before == after on the implementation's read-out (independent of the model).
"""
from __future__ import annotations

import json
import os
import re
import warnings

from harness import world
from harness.common import Ctx
from harness.translate import routes as routes_tr

GENERATED = [("harness.translate.routes", "translate", "gen/Routes_gen.v")]

MANIFEST = {
    "technique": "Coq proof over the GET-route/API reachability table and queue-view shape generated from pynmon's AST + "
                 "differential before/after read-out of every GET route on both backends",
    "text": "Machine-checked theorems (Props/C20.v): every API method classified read-only leaves the modelled system "
            "(queue order, status records, stored invocation records, results, exceptions, histories, runner records, trigger "
            "state) untouched; any handler whatsoever that only calls such methods - whatever it branches on, whether it returns "
            "or raises - leaves the system exactly as it was (induction over the handler's interaction tree); every GET route "
            "generated from pynmon's decorators and call graph, except the queue view, reaches read-only methods only (finite, "
            "vm_compute over the regenerated table; unknown calls count as mutating); the queue view is decided from its "
            "generated shape: shapes that peek or drain-everything-and-restore preserve every state, every other shape is refuted "
            "by a computed witness (queue longer than the limit: rotated; queued id without a stored record: popped messages lost). "
            "Tie: FastAPI's live route table must equal the generated one; every read-only method is executed on the real in-memory "
            "and SQLite components, and every GET route is requested through TestClient with existing/missing/malformed ids and "
            "small/large limits against generated operation histories incl. queues longer than the limit and partially purged "
            "stores, with a full read-out before and after; the model's predicted queue after the queue view must equal the real one.",
    "note": "Trusted: Coq kernel; AST translator (fail-closed: unknown calls are mutating; unrecognised queue-view shape degrades "
            "to the committed default and the read-out decides); read-out = internal containers of the in-memory components / "
            "full table dump of the SQLite file (queue projected to the id order). Outside the model: Jinja templates, FastAPI, "
            "methods of domain objects reached outside pynmon's own call graph (covered by the read-out only). "
            "GET /switch-app changes which app the monitor shows (monitor-local selection, not the monitored system).",
    "design_ref": "DESIGN.md §6 C20",
}

KEY_REORDER = "GET/broker/queue:queue-reordered:queue-longer-than-limit"
KEY_DROP = "GET/broker/queue:queue-lost:queued-id-without-record"

IMPORTS = ["Model.Monitor", "gen.Routes_gen"]


# =============================================================================== implementation side
def _sqlite_path(app):
    return app.broker.sqlite_db_path


class World:
    """One real pynenc app (mem | sqlite) + the pynmon FastAPI app pointed at it."""

    def __init__(self, kind: str, scratch: str):
        from harness import tasks_c20
        import pynmon.app as pm
        self.kind = kind
        self.app = world.make_app(kind, scratch, runner_considered_dead_after_minutes=10.0)
        self.tasks = tasks_c20.bind_all(self.app)
        self.pm = pm
        pm.all_pynenc_instances.clear()
        pm.all_pynenc_instances[self.app.app_id] = self.app
        pm.pynenc_instance = self.app
        self.ids: list[str] = []          # every invocation id ever created (model index = position)
        self.runners = ["r1", "r2"]
        self.n = 0

    # ---------------------------------------------------------------- operations building a state
    def op(self, o):
        from pynenc.identifiers.invocation_id import InvocationId
        from pynenc.invocation.status import InvocationStatus as S
        app = self.app
        k = o[0]
        if k == "call":
            self.n += 1
            inv = self.tasks[o[1]](self.n)
            self.ids.append(inv.invocation_id)
        elif k in ("claim", "start", "run"):
            iid = app.broker.retrieve_invocation()
            if iid is None:
                return
            rctx = world.runner_ctx(o[1])
            try:
                app.orchestrator.set_invocation_status(iid, S.PENDING, rctx)
                if k == "start":
                    app.orchestrator.set_invocation_status(iid, S.RUNNING, rctx)
                elif k == "run":
                    inv = app.state_backend.get_invocation(iid)
                    try:
                        inv.run(rctx)
                    except Exception:  # noqa: BLE001 - the failing task re-raises after FAILED is stored
                        pass
            except Exception:  # noqa: BLE001 - ghost ids / purged records: the message is simply consumed
                pass
        elif k == "heartbeat":
            app.orchestrator.register_runner_heartbeats([o[1]], can_run_atomic_service=(o[1] == "r1"))
            app.state_backend.store_runner_context(world.runner_ctx(o[1]))
        elif k == "ghost":
            self.n += 1
            gid = InvocationId(f"ghost-{self.n}")
            self.ids.append(gid)
            app.broker.route_invocation(gid)
        elif k == "requeue":          # a second message for an id that already exists
            if self.ids:
                app.broker.route_invocation(self.ids[o[1] % len(self.ids)])
        elif k == "purge":
            getattr(app, o[1]).purge()
        elif k == "drop_record":      # partially purged store: one stored invocation record disappears
            if self.ids:
                self.drop_record(self.ids[o[1] % len(self.ids)])
        else:
            raise ValueError(o)

    def drop_record(self, iid):
        sb = self.app.state_backend
        if self.kind == "mem":
            sb._cache.pop(iid, None)
        else:
            from pynenc.util.sqlite_utils import create_sqlite_connection
            with create_sqlite_connection(sb.sqlite_db_path) as conn:
                conn.execute(f"DELETE FROM {sb.tables.INVOCATIONS} WHERE invocation_id = ?", (iid,))
                conn.commit()

    def settle(self):
        self.app.state_backend.wait_for_all_async_operations()
        self.app.state_backend.invocation_threads.clear()

    # ---------------------------------------------------------------- full read-out
    def queue(self) -> list[str]:
        if self.kind == "mem":
            return [str(x) for x in self.app.broker._queue]
        from pynenc.util.sqlite_utils import create_sqlite_connection
        with create_sqlite_connection(_sqlite_path(self.app)) as conn:
            return [r[0] for r in conn.execute(
                f"SELECT invocation_id FROM {self.app.broker.tables.QUEUE} ORDER BY created_at ASC, id ASC")]

    def has_record(self, iid) -> bool:
        return self.app.state_backend._get_invocation(iid) is not None

    def snapshot(self) -> dict:
        """Everything observable: queue order, status records, stored records, results, exceptions,
        histories, workflow data, runner records, trigger store, client data store."""
        self.settle()
        snap = {"queue": self.queue()}
        if self.kind == "mem":
            app = self.app
            comps = {"orchestrator": app.orchestrator, "state_backend": app.state_backend,
                     "trigger": app.trigger, "client_data_store": app.client_data_store}
            bc = getattr(app.orchestrator, "_blocking_control", None)
            if bc is not None:
                comps["blocking_control"] = bc
            for cname, comp in comps.items():
                for attr, val in sorted(vars(comp).items()):
                    if attr in MEM_SKIP or attr in MEM_SKIP_BY_COMP.get(cname, ()):
                        continue
                    c = canon(val)
                    if c in ({}, [], None) and not isinstance(val, (int, float, str, bool)):
                        continue
                    snap[f"{cname}.{attr}"] = c
        else:
            import sqlite3
            conn = sqlite3.connect(_sqlite_path(self.app))
            try:
                tabs = [r[0] for r in conn.execute("SELECT name FROM sqlite_master WHERE type='table' ORDER BY name")]
                qt = self.app.broker.tables.QUEUE
                for t in tabs:
                    if t == qt or t.startswith("sqlite_"):
                        continue      # the queue is read as the ordered id list above; sqlite_sequence is bookkeeping
                    rows = [canon(list(r)) for r in conn.execute(f"SELECT * FROM {t}")]
                    if rows:
                        snap["table." + t] = sorted(rows, key=lambda r: json.dumps(r, sort_keys=True, default=str))
            finally:
                conn.close()
        return snap


# attributes of the in-memory components that are not system state
MEM_SKIP = {"app", "conf", "_lock", "locks", "_cron_lock", "_claim_lock", "_trigger_run_lock", "invocation_threads",
            "_runner_context_cache", "_blocking_control", "logger"}
MEM_SKIP_BY_COMP: dict = {}


def canon(v, depth: int = 0):
    """Canonical JSON-able form of backend containers (sets sorted, default entries that are empty dropped)."""
    import collections
    import dataclasses
    import datetime as dt
    import enum
    if isinstance(v, (str, int, float, bool)) or v is None:
        return v
    if isinstance(v, bytes):
        return "b:" + v.hex()
    if isinstance(v, enum.Enum):
        return "E:" + v.name
    if isinstance(v, (dt.datetime, dt.date)):
        return "T:" + v.isoformat()
    if isinstance(v, dict):
        out = {}
        for k, x in v.items():
            c = canon(x, depth + 1)
            if c in ([], {}) and isinstance(x, (list, set, dict, frozenset, collections.deque)):
                continue          # an empty defaultdict entry created by a read is not a change
            out[ckey(k, depth + 1)] = c
        return out
    if isinstance(v, (set, frozenset)):
        return sorted((canon(x, depth + 1) for x in v), key=lambda r: json.dumps(r, sort_keys=True, default=str))
    if isinstance(v, (list, tuple, collections.deque)):
        return [canon(x, depth + 1) for x in v]
    if dataclasses.is_dataclass(v) and not isinstance(v, type):
        return {f.name: canon(getattr(v, f.name), depth + 1) for f in dataclasses.fields(v)}
    if hasattr(v, "to_json"):
        try:
            return "J:" + str(v.to_json())
        except Exception:  # noqa: BLE001
            pass
    if hasattr(v, "__dict__") and not callable(v) and depth < 8:
        return {"__cls__": type(v).__name__, **{k: canon(x, depth + 1) for k, x in sorted(vars(v).items())
                                                if not k.startswith("_hash") and k not in ("app", "_app", "task", "_task")}}
    return "R:" + re.sub(r" at 0x[0-9a-f]+", "", repr(v))


def ckey(k, depth: int = 0):
    c = canon(k, depth)
    return c if isinstance(c, str) else json.dumps(c, sort_keys=True, default=str)


def diff_snap(a: dict, b: dict) -> dict:
    out = {}
    for k in sorted(set(a) | set(b)):
        if a.get(k) != b.get(k):
            out[k] = {"before": _short(a.get(k)), "after": _short(b.get(k))}
    return out


def _short(x, n=600):
    s = json.dumps(x, sort_keys=True, default=str)
    return s if len(s) <= n else s[:n] + "…"

"""C20 — monitoring pages only observe: a GET never changes the system.

proof: Props/C20.v over gen/Routes_gen.v (regenerated on every run from pynmon's AST):
       * every API method the model classifies read-only is a function sys -> out (state untouched);
       * ANY handler program (interaction tree: calls, branches on results, raises) that only calls
         read-only methods leaves the whole system as it was, whether it returns or fails;
       * every generated GET route except the queue view reaches read-only methods only;
       * the queue view (drain-and-requeue because the broker has no peek) is decided from its
         generated shape: restoring for all states, or refuted by a computed witness;
       * over gen/ReadImpl_gen.v (regenerated from the backend classes' AST): every read-only classified
         method is implemented, in both backends, by code whose only effects are calls of read-only
         methods - no store / del / in-place operator / mutating method on a stored container (not even
         through a local alias), no SQL write, no sweep piggy-backed on a listing.
tie:   (1) translator harness/translate/routes.py (route table from decorators, pynmon call graph,
           component API calls, queue-view shape), cross-checked against FastAPI's route table;
       (2) API-level correspondence: every read-only classified method is called on the real
           in-memory and SQLite components with a full read-out before/after;
       (3) route-level correspondence: every GET route is requested through Starlette's TestClient
           with generated parameters against generated system states (queues longer than the limit,
           partially purged stores) on both backends; full read-out before/after; the model predicts
           the queue afterwards (exactly) and whether the queue view fails;
       (4) list routes with every PAIR of filters set to selecting values (all tasks x all statuses present)
           on a state where every task has invocations in several statuses;
       (5) everything again on states that have AGED: the clock of pynenc/pynmon is put ahead of every
           configured duration (retention, dead-runner, stuck-invocation thresholds) while the page is
           served (controlled clock, nothing sleeps), incl. states with exactly one finished invocation;
       (6) partially purged stores: one component emptied alone (orchestrator swept past the retention with the
           controlled clock, orchestrator / state backend / broker / trigger purge) with live and final
           invocations present; single-invocation routes are requested for every id ever created.
oracle: before == after on the implementation's read-out (independent of the model).
"""
from __future__ import annotations

import json
import os
import re
import warnings

from harness import world
from harness.common import Ctx
from harness.translate import readimpl as readimpl_tr
from harness.translate import routes as routes_tr

GENERATED = [("harness.translate.routes", "translate", "gen/Routes_gen.v"),
             ("harness.translate.readimpl", "translate", "gen/ReadImpl_gen.v")]

MANIFEST = {
    "technique": "Coq proof over the GET-route/API reachability table and queue-view shape generated from pynmon's AST + "
                 "differential before/after read-out of every GET route on both backends",
    "text": "Machine-checked theorems (Props/C20.v): every API method classified read-only leaves the modelled system "
            "(queue order, status records, stored invocation records, results, exceptions, histories, runner records, trigger "
            "state) untouched; any handler whatsoever that only calls such methods - whatever it branches on, whether it returns "
            "or raises - leaves the system exactly as it was (induction over the handler's interaction tree); every GET route "
            "generated from pynmon's decorators and call graph, except the queue view, reaches read-only methods only (finite, "
            "vm_compute over the regenerated table; unknown calls count as mutating); the queue view is decided from its "
            "generated shape: shapes that peek or drain-everything-and-restore preserve every state, every other shape is refuted "
            "by a computed witness (queue longer than the limit: rotated; queued id without a stored record: popped messages lost); "
            "over a second generated table (effects of the in-memory and SQLite implementation of every read-only classified "
            "method, followed through self-calls, helper objects and module helpers, with flow-sensitive tracking of local names "
            "that alias stored containers) every such method has no effect but calls of read-only methods - no in-place write to a "
            "stored container, no SQL write, no housekeeping sweep inside a listing - and every backend method a GET route reaches "
            "is in that table for both backends. "
            "Tie: FastAPI's live route table must equal the generated one; every read-only method is executed on the real in-memory "
            "and SQLite components, and every GET route is requested through TestClient with existing/missing/malformed ids and "
            "small/large limits against generated operation histories incl. queues longer than the limit and partially purged "
            "stores, with a full read-out before and after; the model's predicted queue after the queue view must equal the real one. "
            "List routes are additionally requested with every pair of filters set to values that select something (each task x "
            "each status present, workflow filters) on a state where every task has invocations in several statuses, and the listing "
            "API methods with every task/status filter combination. Every route and every read-only method is also exercised on "
            "AGED states: while the request is served the wall clock seen by pynenc and pynmon is ahead of each configured "
            "duration (final-invocation retention, dead-runner and stuck-invocation thresholds, event retention; read off the live "
            "config objects; controlled clock, nothing sleeps), on states with exactly one finished invocation, a failed one, and a "
            "rich mix, so that time-driven housekeeping reachable from a page shows up in the read-out. Partially purged stores are "
            "built for each component alone (orchestrator auto-purge past the retention via the controlled clock, orchestrator.purge, "
            "state_backend.purge, broker.purge, trigger.purge; live and final invocations present) and the invocation / list / "
            "family-tree / workflow / task / call routes are requested on them, single-invocation routes for every id ever created.",
    "note": "Trusted: Coq kernel; AST translator (fail-closed: unknown calls are mutating; unrecognised queue-view shape degrades "
            "to the committed default and the read-out decides; harness/translate/readimpl.py degrades the same way on SQL text it "
            "cannot resolve or calls on other components outside the API table; attributes named lock/cache/logger/thread are not "
            "state); controlled clock = time.time / time() / datetime.now as imported by pynenc.* and pynmon.* modules; while a page "
            "is served SQLite lock waiting is cut to 0.1 s (the harness is the only client, a wait can never succeed); read-out = internal containers of the in-memory components / "
            "full table dump of the SQLite file (queue projected to the id order). Outside the model: Jinja templates, FastAPI, "
            "methods of domain objects reached outside pynmon's own call graph (covered by the read-out only). "
            "GET /switch-app changes which app the monitor shows (monitor-local selection, not the monitored system).",
    "design_ref": "DESIGN.md §6 C20",
}

KEY_REORDER = "GET/broker/queue:queue-reordered:queue-longer-than-limit:http200"
KEY_DROP = "GET/broker/queue:queue-lost:queued-id-without-record:http500"

IMPORTS = ["Model.Monitor", "gen.Routes_gen"]


# =============================================================================== implementation side
def _sqlite_path(app):
    return app.broker.sqlite_db_path


class World:
    """One real pynenc app (mem | sqlite) + the pynmon FastAPI app pointed at it."""

    def __init__(self, kind: str, scratch: str):
        from harness import tasks_c20
        import pynmon.app as pm
        self.kind = kind
        self.app = world.make_app(kind, scratch, runner_considered_dead_after_minutes=10.0)
        self.tasks = tasks_c20.bind_all(self.app)
        self.pm = pm
        self.history: list = []
        self.activate()
        self.ids: list[str] = []          # every invocation id ever created (model index = position)
        self.runners = ["r1", "r2"]
        self.n = 0

    def activate(self):
        pm = self.pm
        pm.all_pynenc_instances.clear()
        pm.all_pynenc_instances[self.app.app_id] = self.app
        pm.pynenc_instance = self.app

    # ---------------------------------------------------------------- operations building a state
    def op(self, o):
        self.history.append(list(o))
        from pynenc.identifiers.invocation_id import InvocationId
        from pynenc.invocation.status import InvocationStatus as S
        app = self.app
        k = o[0]
        if k == "call":
            self.n += 1
            inv = self.tasks[o[1]](self.n)
            self.ids.append(inv.invocation_id)
        elif k in ("claim", "start", "run"):
            iid = app.broker.retrieve_invocation()
            if iid is None:
                return
            rctx = world.runner_ctx(o[1])
            try:
                app.orchestrator.set_invocation_status(iid, S.PENDING, rctx)
                if k == "start":
                    app.orchestrator.set_invocation_status(iid, S.RUNNING, rctx)
                elif k == "run":
                    inv = app.state_backend.get_invocation(iid)
                    try:
                        inv.run(rctx)
                    except Exception:  # noqa: BLE001 - the failing task re-raises after FAILED is stored
                        pass
            except Exception:  # noqa: BLE001 - ghost ids / purged records: the message is simply consumed
                pass
        elif k == "heartbeat":
            app.orchestrator.register_runner_heartbeats([o[1]], can_run_atomic_service=(o[1] == "r1"))
            app.state_backend.store_runner_context(world.runner_ctx(o[1]))
        elif k == "ghost":
            self.n += 1
            gid = InvocationId(f"ghost-{self.n}")
            self.ids.append(gid)
            app.broker.route_invocation(gid)
        elif k == "requeue":          # a second message for an id that already exists
            if self.ids:
                app.broker.route_invocation(self.ids[o[1] % len(self.ids)])
        elif k == "purge":
            getattr(app, o[1]).purge()
        elif k == "auto_purge":       # the retention sweep runs o[1] seconds later (controlled clock): final invocations
            try:                      # leave the orchestrator, every other store keeps them
                with ShiftedClock(float(o[1])), NoLockWait():
                    app.orchestrator.auto_purge()
            except Exception:  # noqa: BLE001 - a sweep that fails leaves the state as it is
                pass
        elif k == "drop_record":      # partially purged store: one stored invocation record disappears
            if self.ids:
                self.drop_record(self.ids[o[1] % len(self.ids)])
        else:
            raise ValueError(o)

    def drop_record(self, iid):
        sb = self.app.state_backend
        if self.kind == "mem":
            sb._cache.pop(iid, None)
        else:
            from pynenc.util.sqlite_utils import create_sqlite_connection
            with create_sqlite_connection(sb.sqlite_db_path) as conn:
                conn.execute(f"DELETE FROM {sb.tables.INVOCATIONS} WHERE invocation_id = ?", (iid,))
                conn.commit()

    def settle(self):
        self.app.state_backend.wait_for_all_async_operations()
        self.app.state_backend.invocation_threads.clear()

    # ---------------------------------------------------------------- full read-out
    def queue(self) -> list[str]:
        if self.kind == "mem":
            return [str(x) for x in self.app.broker._queue]
        from pynenc.util.sqlite_utils import create_sqlite_connection
        with create_sqlite_connection(_sqlite_path(self.app)) as conn:
            return [r[0] for r in conn.execute(
                f"SELECT invocation_id FROM {self.app.broker.tables.QUEUE} ORDER BY created_at ASC, id ASC")]

    def has_record(self, iid) -> bool:
        return self.app.state_backend._get_invocation(iid) is not None

    def snapshot(self) -> dict:
        """Everything observable: queue order, status records, stored records, results, exceptions,
        histories, workflow data, runner records, trigger store, client data store."""
        self.settle()
        snap = {"queue": self.queue()}
        if self.kind == "mem":
            app = self.app
            comps = {"orchestrator": app.orchestrator, "state_backend": app.state_backend,
                     "trigger": app.trigger, "client_data_store": app.client_data_store}
            bc = getattr(app.orchestrator, "_blocking_control", None)
            if bc is not None:
                comps["blocking_control"] = bc
            for cname, comp in comps.items():
                for attr, val in sorted(vars(comp).items()):
                    if attr in MEM_SKIP or attr in MEM_SKIP_BY_COMP.get(cname, ()) or _not_state(val):
                        continue
                    c = canon(val)
                    if c in ({}, [], None) and not isinstance(val, (int, float, str, bool)):
                        continue
                    snap[f"{cname}.{attr}"] = c
        else:
            import sqlite3
            conn = sqlite3.connect(_sqlite_path(self.app))
            try:
                tabs = [r[0] for r in conn.execute("SELECT name FROM sqlite_master WHERE type='table' ORDER BY name")]
                qt = self.app.broker.tables.QUEUE
                for t in tabs:
                    if t == qt or t.startswith("sqlite_"):
                        continue      # the queue is read as the ordered id list above; sqlite_sequence is bookkeeping
                    rows = [canon(list(r)) for r in conn.execute(f"SELECT * FROM {t}")]
                    if rows:
                        snap["table." + t.split("__", 1)[-1]] = sorted(rows, key=lambda r: json.dumps(r, sort_keys=True, default=str))
            finally:
                conn.close()
        return snap


# attributes of the in-memory components that are not system state
MEM_SKIP = {"app", "conf", "_lock", "_logger", "locks", "_cron_lock", "_claim_lock", "_trigger_run_lock", "invocation_threads",
            "_runner_context_cache", "_blocking_control", "logger"}
MEM_SKIP_BY_COMP: dict = {}


def _not_state(val) -> bool:
    import logging
    import threading
    return isinstance(val, (logging.Logger, logging.LoggerAdapter, type(threading.Lock()), type(threading.RLock()),
                            threading.Event, threading.Thread)) or callable(val)


def canon(v, depth: int = 0):
    """Canonical JSON-able form of backend containers (sets sorted, default entries that are empty dropped)."""
    import collections
    import dataclasses
    import datetime as dt
    import enum
    if isinstance(v, (str, int, float, bool)) or v is None:
        return v
    if isinstance(v, bytes):
        return "b:" + v.hex()
    if isinstance(v, enum.Enum):
        return "E:" + v.name
    if isinstance(v, (dt.datetime, dt.date)):
        return "T:" + v.isoformat()
    if isinstance(v, dict):
        out = {}
        for k, x in v.items():
            c = canon(x, depth + 1)
            if c in ([], {}) and isinstance(x, (list, set, dict, frozenset, collections.deque)):
                continue          # an empty defaultdict entry created by a read is not a change
            out[ckey(k, depth + 1)] = c
        return out
    if isinstance(v, (set, frozenset)):
        return sorted((canon(x, depth + 1) for x in v), key=lambda r: json.dumps(r, sort_keys=True, default=str))
    if isinstance(v, (list, tuple, collections.deque)):
        return [canon(x, depth + 1) for x in v]
    if dataclasses.is_dataclass(v) and not isinstance(v, type):
        return {f.name: canon(getattr(v, f.name), depth + 1) for f in dataclasses.fields(v)}
    if hasattr(v, "to_json"):
        try:
            return "J:" + str(v.to_json())
        except Exception:  # noqa: BLE001
            pass
    if hasattr(v, "__dict__") and not callable(v) and depth < 8:
        return {"__cls__": type(v).__name__, **{k: canon(x, depth + 1) for k, x in sorted(vars(v).items())
                                                if not k.startswith("_hash") and k not in ("app", "_app", "task", "_task")}}
    return "R:" + re.sub(r" at 0x[0-9a-f]+", "", repr(v))


def ckey(k, depth: int = 0):
    c = canon(k, depth)
    return c if isinstance(c, str) else json.dumps(c, sort_keys=True, default=str)


def diff_snap(a: dict, b: dict) -> dict:
    out = {}
    for k in sorted(set(a) | set(b)):
        if a.get(k) != b.get(k):
            out[k] = {"before": _short(a.get(k)), "after": _short(b.get(k))}
    return out


def _short(x, n=600):
    s = json.dumps(x, sort_keys=True, default=str)
    return s if len(s) <= n else s[:n] + "…"


# =============================================================================== controlled clock
import datetime as _D   # noqa: E402
import time as _T       # noqa: E402
import types as _types  # noqa: E402

_REAL_TIME = _T.time
_REAL_DATETIME = _D.datetime
_CLOCK_DELTA = [0.0]


def _shifted_time() -> float:
    return _REAL_TIME() + _CLOCK_DELTA[0]


class _VMeta(type(_REAL_DATETIME)):
    def __instancecheck__(cls, x):      # a datetime made anywhere is a datetime for the patched modules too
        return isinstance(x, _REAL_DATETIME)

    def __subclasscheck__(cls, c):
        return issubclass(c, _REAL_DATETIME)


class VDatetime(_REAL_DATETIME, metaclass=_VMeta):
    """datetime whose `now` reads the shifted clock; values handed out are plain datetimes"""

    @classmethod
    def now(cls, tz=None):
        return _REAL_DATETIME.fromtimestamp(_shifted_time(), tz)

    @classmethod
    def utcnow(cls):
        return _REAL_DATETIME.fromtimestamp(_shifted_time(), _D.UTC).replace(tzinfo=None)

    @classmethod
    def today(cls):
        return _REAL_DATETIME.fromtimestamp(_shifted_time())


class _ModProxy(_types.ModuleType):
    def __init__(self, real, **over):
        super().__init__(real.__name__)
        self.__dict__["_real"] = real
        self.__dict__.update(over)

    def __getattr__(self, n):
        return getattr(self.__dict__["_real"], n)


class ShiftedClock:
    """While installed, every wall-clock read made by pynenc.* / pynmon.* code (`time.time()`, `time()` imported
    from time, `datetime.now()/utcnow()/today()`) is `delta` seconds ahead of the real clock: the state under
    test becomes `delta` seconds old without anybody sleeping.  delta == 0 installs nothing."""

    def __init__(self, delta: float):
        self.delta = float(delta or 0.0)
        self.saved: list = []

    def __enter__(self):
        if not self.delta:
            return self
        import sys
        _CLOCK_DELTA[0] = self.delta
        tproxy = _ModProxy(_T, time=_shifted_time, time_ns=lambda: _T.time_ns() + int(self.delta * 1e9))
        dproxy = _ModProxy(_D, datetime=VDatetime)
        for name, mod in list(sys.modules.items()):
            if mod is None or not (name == "pynenc" or name == "pynmon" or name.startswith(("pynenc.", "pynmon."))):
                continue
            for attr, val in list(vars(mod).items()):
                new = None
                if val is _REAL_TIME:
                    new = _shifted_time
                elif val is _T:
                    new = tproxy
                elif val is _REAL_DATETIME:
                    new = VDatetime
                elif val is _D:
                    new = dproxy
                if new is not None:
                    self.saved.append((mod, attr, val))
                    setattr(mod, attr, new)
        return self

    def __exit__(self, *a):
        for mod, attr, val in reversed(self.saved):
            setattr(mod, attr, val)
        self.saved.clear()
        _CLOCK_DELTA[0] = 0.0
        return False


class NoLockWait:
    """The harness is the only client of the SQLite file while a page is served, so waiting for a lock can never
    succeed: a statement that blocks on a lock held by the same request (a sweep writing through two connections)
    fails after 0.1 s instead of after minutes of busy-timeout x retries.  Only lock WAITING is shortened."""

    def __enter__(self):
        import sqlite3
        self.saved = []
        real_connect = sqlite3.connect

        class Conn(sqlite3.Connection):
            def execute(self, sql, *a):
                if isinstance(sql, str) and sql.strip().lower().startswith("pragma busy_timeout"):
                    sql = "PRAGMA busy_timeout=100"
                return super().execute(sql, *a)

        def connect(*a, **kw):
            kw["timeout"] = 0.1
            kw.setdefault("factory", Conn)
            return real_connect(*a, **kw)

        self.saved.append((sqlite3, "connect", real_connect))
        sqlite3.connect = connect
        try:
            import pynenc.util.sqlite_utils as su
            cur = getattr(su, "time", None)
            if isinstance(cur, _types.ModuleType):
                self.saved.append((su, "time", cur))
                su.time = _ModProxy(cur, sleep=lambda _s: None)
        except Exception:  # noqa: BLE001
            pass
        return self

    def __exit__(self, *a):
        for mod, attr, val in reversed(self.saved):
            setattr(mod, attr, val)
        return False


def configured_durations(app) -> dict[str, float]:
    """every duration the app is configured with (name -> seconds), read off the live config objects: the
    thresholds past which time-driven housekeeping (retention sweeps, dead-runner / stuck-invocation handling,
    claim expiry ...) would find something to do"""
    units = (("_hours", 3600.0), ("_minutes", 60.0), ("_seconds", 1.0), ("_sec", 1.0), ("_days", 86400.0))
    out: dict[str, float] = {}
    confs = {"app": getattr(app, "conf", None)}
    for c in ("orchestrator", "broker", "state_backend", "trigger", "client_data_store", "runner"):
        try:
            confs[c] = getattr(app, c).conf
        except Exception:  # noqa: BLE001
            pass
    for cname, conf in confs.items():
        if conf is None:
            continue
        for attr in dir(conf):
            if attr.startswith("_"):
                continue
            for suf, mult in units:
                if attr.endswith(suf):
                    try:
                        v = getattr(conf, attr)
                    except Exception:  # noqa: BLE001
                        break
                    if isinstance(v, (int, float)) and not isinstance(v, bool) and v > 0:
                        out[f"{cname}.{attr}"] = float(v) * mult
                    break
    return out


def clock_shifts(app, thorough: bool) -> list[float]:
    """how far ahead the clock is put: just past each configured duration of at least a minute (thorough: all of
    them; quick: the one in the middle and the largest), and far past everything"""
    ds = sorted({round(v * 1.05 + 1.0, 3) for v in configured_durations(app).values() if v >= 60.0})
    if not ds:
        ds = [3600.0 * 25]
    far = ds[-1] * 30
    if thorough:
        return ds + [far]
    return sorted({ds[len(ds) // 2], ds[-1], far})


# =============================================================================== the monitor
def live_routes(pm) -> list[tuple[str, str, str, str, object]]:
    """(method, path, module, function, route object) for every route of the FastAPI app (recursing into
    included routers, whatever the installed FastAPI version calls them)."""
    out = []

    def walk(routes, prefix=""):
        for r in routes:
            if hasattr(r, "original_router"):
                p = getattr(getattr(r, "include_context", None), "prefix", "") or ""
                walk(r.original_router.routes, prefix + p)
            elif hasattr(r, "routes") and not hasattr(r, "endpoint") and hasattr(r, "path") and type(r).__name__ != "Mount":
                walk(r.routes, prefix + getattr(r, "path", ""))
            elif hasattr(r, "endpoint") and getattr(r, "methods", None):
                for m in sorted(r.methods):
                    if m != "HEAD":
                        out.append((m, prefix + r.path, r.endpoint.__module__, r.endpoint.__name__, r))
    walk(pm.app.routes)
    seen, uniq = set(), []
    for x in out:
        if x[:4] not in seen:
            seen.add(x[:4])
            uniq.append(x)
    return uniq


_ROUTES_SET_UP = False


def monitor():
    global _ROUTES_SET_UP
    with warnings.catch_warnings():
        warnings.simplefilter("ignore")
        import pynmon.app as pm
        from fastapi.testclient import TestClient
        if not _ROUTES_SET_UP:
            pm.setup_routes()
            _ROUTES_SET_UP = True
        client = TestClient(pm.app, raise_server_exceptions=False)
    return pm, client


def query_names(route_obj, module_name: str) -> dict[str, str]:
    """query parameter name -> 'int' | 'str' (signature of the handler + request.query_params.get literals)"""
    import importlib
    import inspect
    names: dict[str, str] = {}
    try:
        sig = inspect.signature(route_obj.endpoint)
        path_params = set(re.findall(r"{(\w+)", route_obj.path))
        for n, p in sig.parameters.items():
            if n in path_params or n == "request":
                continue
            ann = str(p.annotation)
            names[n] = "int" if "int" in ann else "str"
    except Exception:  # noqa: BLE001
        pass
    try:
        src = inspect.getsource(importlib.import_module(module_name))
        for n in re.findall(r"query_params\.get\(\s*[\"'](\w+)[\"']", src):
            names.setdefault(n, "str")
    except Exception:  # noqa: BLE001
        pass
    return names


def gen_requests(rng, w: World, method_path, route_obj, module_name, per_route: int, suspect: bool = False) -> list[str]:
    """URLs for one route: existing / purged / ghost / malformed ids, small and large limits."""
    path = method_path
    ids_with = [i for i in w.ids if w.has_record(i)]
    ids_without = [i for i in w.ids if not w.has_record(i)]
    call_keys = []
    for i in ids_with[:3]:
        try:
            call_keys.append(w.app.state_backend.get_invocation(i).call.call_id.key)
        except Exception:  # noqa: BLE001
            pass
    pools = {
        "invocation_id": ids_with[:3] + ids_without[:2] + ["no-such-invocation", "%00", "a" * 300, "..%2F..%2Fetc"],
        "runner_id": ["r1", "r2", "no-such-runner", "%20"],
        "app_id": [w.app.app_id, "no-such-app"],
        "task_id_key": ["harness.tasks_c20.c20_ok", "harness.tasks_c20.c20_fail", "no.such.task", "nodots", "%7B%7D"],
        "workflow_type_key": ["harness.tasks_c20.c20_ok", "no.such.task", "nodots"],
        "call_id_key": call_keys + ["harness.tasks_c20.c20_ok:deadbeef", "garbage", "a:b:c"],
    }
    qn = query_names(route_obj, module_name)
    qlen = len(w.queue())
    urls = []
    for k in range(per_route):
        url = path
        for name in re.findall(r"{(\w+)(?::\w+)?}", path):
            pool = pools.get(name, ["x", "0", "%00"])
            val = pool[k % len(pool)] if k < len(pool) else rng.choice(pool)
            url = re.sub(r"{" + name + r"(?::\w+)?}", str(val), url)
        q = []
        for name, typ in sorted(qn.items()):
            if k == 0 and name != "limit":
                continue                     # first request: defaults
            if name == "limit":
                opts = [1, 2, max(qlen - 1, 0), qlen, qlen + 1, 1000, 0, -1, 3, "abc"]
                val = opts[k % len(opts)] if k < len(opts) else rng.choice(opts)
            elif typ == "int":
                val = rng.choice([0, 1, 2, 5, 50, -1, 10**6, "x"])
            elif name in pools:
                val = rng.choice(pools[name])
            elif "invocation" in name:
                val = rng.choice(pools["invocation_id"])
            elif "task" in name or "workflow" in name:
                val = rng.choice(pools["task_id_key"])
            elif "status" in name:
                val = rng.choice(["SUCCESS", "FAILED", "REGISTERED", "bogus", ""])
            elif "expand" in name:
                val = ",".join(rng.sample(w.ids, min(2, len(w.ids)))) if w.ids else ""
            elif suspect:
                # model-guided: the generated table says this route can reach a non-read method; free-text
                # parameters are tried with the names of the mutating API methods as well
                val = rng.choice(["purge", "retrieve_invocation", "auto_purge", "", "zzz"])
            else:
                val = rng.choice(["", "1h", "15m", "zzz", "2020-01-01T00:00:00", "1"])
            if rng.random() < 0.8 or name == "limit":
                q.append(f"{name}={val}")
        if q:
            url += "?" + "&".join(q)
        if url not in urls:
            urls.append(url)
    return urls


def gen_ops(rng, n_ops: int, flavour: str) -> list:
    """An operation history. flavours: 'plain' (nothing purged), 'long' (queue longer than the default page
    limit), 'purged' (stores partially purged), 'mixed'."""
    ops: list = [("heartbeat", "r1")]
    if flavour == "long":
        ops += [("call", rng.choice(["ok", "fail", "ok"])) for _ in range(rng.randint(22, 30))]
    for _ in range(n_ops):
        r = rng.random()
        if r < 0.45:
            ops.append(("call", rng.choice(["ok", "ok", "fail"])))
        elif r < 0.60:
            ops.append((rng.choice(["run", "run", "claim", "start"]), rng.choice(["r1", "r2"])))
        elif r < 0.68:
            ops.append(("heartbeat", rng.choice(["r1", "r2"])))
        elif r < 0.74:
            ops.append(("requeue", rng.randint(0, 50)))
        elif r < 0.80 and flavour in ("purged", "mixed"):
            ops.append(("ghost",))
        elif r < 0.90 and flavour in ("purged", "mixed"):
            ops.append(("drop_record", rng.randint(0, 50)))
        elif r < 0.93 and flavour == "purged":
            ops.append(("purge", rng.choice(["state_backend", "orchestrator"])))
        else:
            ops.append(("call", "ok"))
    ops += [("call", "ok"), ("call", "fail")]
    if flavour in ("purged", "mixed"):
        ops.append(("drop_record", rng.randint(0, 50)))
    return ops


# a small state in which every task has invocations in several statuses at once (REGISTERED, PENDING, RUNNING,
# SUCCESS, FAILED), two runners, final invocations stamped for the retention sweep, a duplicate message
RICH_OPS = [("heartbeat", "r1"), ("heartbeat", "r2"),
            ("call", "ok"), ("call", "fail"), ("call", "ok"), ("call", "fail"), ("call", "ok"), ("call", "fail"),
            ("call", "ok"), ("call", "fail"), ("call", "after"),
            ("run", "r1"), ("run", "r2"), ("run", "r1"), ("claim", "r1"), ("start", "r2"), ("claim", "r2"),
            ("requeue", 7), ("call", "ok")]
# states that get old: exactly one finished invocation (SUCCESS / FAILED) among unfinished ones, and the rich one
AGED_STATES = [
    ("one_success", [("heartbeat", "r1"), ("call", "ok"), ("call", "ok"), ("call", "fail"), ("run", "r1"), ("claim", "r1")]),
    ("one_failed", [("heartbeat", "r1"), ("call", "fail"), ("call", "ok"), ("call", "ok"), ("run", "r1")]),
    ("rich", RICH_OPS),
]


# partially purged stores: ONE component emptied (or swept past the retention) while the others keep their data,
# with live (REGISTERED / PENDING / RUNNING) and final invocations present
_PP_BASE = [("heartbeat", "r1"), ("call", "ok"), ("call", "fail"), ("call", "ok"), ("call", "ok"), ("call", "fail"),
            ("run", "r1"), ("run", "r2"), ("claim", "r1"), ("start", "r2")]
PARTIALLY_PURGED = [
    ("orchestrator_auto_purged", _PP_BASE + [("auto_purge", 40 * 86400.0)]),
    ("orchestrator_purged", _PP_BASE + [("purge", "orchestrator")]),
    ("state_backend_purged", _PP_BASE + [("purge", "state_backend")]),
    ("broker_purged", _PP_BASE + [("purge", "broker")]),
    ("trigger_purged", _PP_BASE + [("purge", "trigger")]),
]
INVOCATION_ROUTE_RE = re.compile(r"invocation|family|workflow|calls|tasks|^/$|orchestrator|state-backend")


def run_partially_purged(ctx: Ctx, scratch: str, client, live_get, stats: dict, distinct: set, per_route: int) -> int:
    """the routes that read one invocation / list invocations / draw family trees, on every partially purged state;
    routes with an {invocation_id} are requested for EVERY id ever created (final, live, record kept or gone)"""
    n = 0
    for kind in ("mem", "sqlite"):
        for sname, sops in PARTIALLY_PURGED:
            w = build_world(kind, scratch, sops)
            w.activate()
            for (m, path, mod, fn, robj) in live_get:
                if not INVOCATION_ROUTE_RE.search(path):
                    continue
                if "{invocation_id}" in path:
                    urls = [path.replace("{invocation_id}", str(i)) for i in w.ids]
                else:
                    urls = gen_requests(ctx.rng, w, path, robj, mod, per_route)
                for url in urls:
                    request_and_judge(ctx, w, client, path, url, stats,
                                      {"kind": "route", "backend": kind, "ops": w.history}, None)
                    n += 1
                    distinct.add((kind, "partial", sname, path, urls.index(url) if "{invocation_id}" in path else url))
            stats["partially_purged_states"][f"{kind}:{sname}"] = n
    return n


def valid_values(w: World, name: str, typ: str) -> list | None:
    """values of a query parameter that SELECT something in the current state (None: not a filter we know)"""
    from pynenc.invocation.status import InvocationStatus as S
    if typ == "int":
        return None
    if "status" in name:
        present = []
        for i in w.ids:
            try:
                st = w.app.orchestrator.get_invocation_status(i).name
            except Exception:  # noqa: BLE001
                continue
            if st not in present:
                present.append(st)
        absent = [s.name for s in S if s.name not in present][:1]
        return [p.lower() for p in present] + [present[0]] * bool(present) + absent
    if name in ("task_id", "task_id_key", "task") or "workflow_type" in name:
        return [t.task_id.key for t in w.tasks.values()]
    if "workflow_id" in name or "invocation" in name:
        return [str(i) for i in w.ids if w.has_record(i)][:3]
    if "runner" in name:
        return list(w.runners)
    return None


def filter_matrix(w: World, path: str, route_obj, module_name: str, cap: int = 5) -> list[str]:
    """list routes: every filter alone and every PAIR of filters with values that select something (all tasks x
    all statuses present ...), path parameters filled with existing ids.  Deterministic (no rng)."""
    import itertools
    qn = query_names(route_obj, module_name)
    pools = {}
    for name, typ in sorted(qn.items()):
        vals = valid_values(w, name, typ)
        if vals:
            seen = []
            for v in vals:
                if v not in seen:
                    seen.append(v)
            pools[name] = seen[:cap]
    if not pools:
        return []
    base = path
    for name in re.findall(r"{(\w+)(?::\w+)?}", path):
        vals = valid_values(w, name, "str") or ["x"]
        base = re.sub(r"{" + name + r"(?::\w+)?}", str(vals[0]), base)
    urls = []
    for a, b in itertools.combinations(sorted(pools), 2):
        for va, vb in itertools.product(pools[a], pools[b]):
            urls.append(f"{base}?{a}={va}&{b}={vb}")
    if len(pools) == 1:
        (a, vals), = pools.items()
        urls += [f"{base}?{a}={v}" for v in vals]
    if len(pools) >= 3:
        urls.append(base + "?" + "&".join(f"{a}={pools[a][0]}" for a in sorted(pools)))
    return urls


def run_filter_matrix(ctx: Ctx, w: World, client, live_get, stats: dict, distinct: set, max_per_route: int) -> int:
    n = 0
    for (m, path, mod, fn, robj) in live_get:
        urls = filter_matrix(w, path, robj, mod)
        if len(urls) > max_per_route:          # keep the spread: every k-th combination
            step = len(urls) / max_per_route
            urls = [urls[int(k * step)] for k in range(max_per_route)]
        for url in urls:
            request_and_judge(ctx, w, client, path, url, stats, {"kind": "route", "backend": w.kind, "ops": w.history}, None)
            n += 1
            distinct.add((w.kind, "matrix", len(w.history), url))
            stats["filter_matrix_requests"][path] = stats["filter_matrix_requests"].get(path, 0) + 1
    return n


def run_aged(ctx: Ctx, w: World, client, live_get, reached: set, stats: dict, distinct: set, shifts: list[float],
             per_route: int) -> int:
    """the same routes and read-only API methods while the state is `shift` seconds old (clock ahead)"""
    n = 0
    for shift in shifts:
        if reached is not None:
            n += run_api_level(ctx, w, reached, stats, shift=shift)
        for (m, path, mod, fn, robj) in live_get:
            urls = gen_requests(ctx.rng, w, path, robj, mod, per_route)
            for url in urls:
                request_and_judge(ctx, w, client, path, url, stats,
                                  {"kind": "route", "backend": w.kind, "ops": w.history}, None, shift=shift)
                n += 1
                distinct.add((w.kind, "aged", shift, url))
        stats["clock_shifts_s"][str(shift)] = stats["clock_shifts_s"].get(str(shift), 0) + 1
    return n


# =============================================================================== model side
def coq_list(xs) -> str:
    return "[" + "; ".join(str(int(x)) for x in xs) + "]"


def model_queue_view(ctx: Ctx, cases: list[tuple[int, list[int], list[int]]]):
    """cases: (limit, queue as indices, indices with a stored record) -> [(queue after, ok)]"""
    exprs = [f"qv_obs gen_qv ({lim})%Z {coq_list(q)} {coq_list(r)}" for lim, q, r in cases]
    vals = ctx.coq_eval(IMPORTS, exprs, chunk=200)
    return [(list(v[0]), int(v[1])) for v in vals]


# =============================================================================== requests + oracle
def classify_queue_change(before: list, after: list) -> str:
    if sorted(before) == sorted(after):
        return "queue-reordered"
    lost = [x for x in set(before) if before.count(x) > after.count(x)]
    return "queue-lost" if lost else "queue-changed"


def request_and_judge(ctx: Ctx, w: World, client, method_path: str, url: str, stats: dict, replay_base: dict,
                      qv_cases: list | None, shift: float = 0.0):
    """one GET between two full read-outs.  shift > 0: while the request is served every clock read of
    pynenc / pynmon is `shift` seconds ahead (the system was left alone for that long; nothing sleeps)."""
    before = w.snapshot()
    with warnings.catch_warnings():
        warnings.simplefilter("ignore")
        with ShiftedClock(shift), NoLockWait():
            resp = client.get(url, follow_redirects=False)
    after = w.snapshot()
    code = resp.status_code
    stats["status_codes"][str(code)] = stats["status_codes"].get(str(code), 0) + 1
    d = diff_snap(before, after)
    is_queue_route = method_path == "/broker/queue"
    if is_queue_route and qv_cases is not None and code in (200, 500):
        m = re.search(r"limit=(-?\d+)", url)
        lim = int(m.group(1)) if m else 20
        idx = {i: k for k, i in enumerate(w.ids)}
        qb = [idx[i] for i in before["queue"]]
        qa = [idx[i] for i in after["queue"]]
        recs = sorted({idx[i] for i in set(before["queue"]) if w.has_record(i)})
        qv_cases.append({"limit": lim, "queue": qb, "records": recs, "impl_after": qa, "impl_ok": 1 if code == 200 else 0,
                         "backend": w.kind, "url": url})
    if not d:
        return True
    changed = sorted(d)
    if is_queue_route and changed == ["queue"]:
        m = re.search(r"limit=(-?\d+)", url)
        lim = int(m.group(1)) if m else 20
        qb = before["queue"]
        touched = qb[:max(0, min(lim, len(qb)))]
        if any(not w.has_record(i) for i in touched):
            cls = "queued-id-without-record"
        elif 0 <= lim < len(qb):
            cls = "queue-longer-than-limit"
        else:
            cls = "records-present-and-limit-covers-queue"
        key = f"GET{method_path}:{classify_queue_change(qb, after['queue'])}:{cls}:http{code}"
        idx = {i: k for k, i in enumerate(w.ids)}
        what = (f"GET {url} ({w.kind}, HTTP {code}) changed the broker queue: before {[idx[i] for i in qb]} "
                f"after {[idx[i] for i in after['queue']]} (ids numbered in creation order)")
    else:
        key = f"GET{method_path}:changed:{','.join(changed)}" + (":clock-ahead" if shift else "")
        what = (f"GET {url} ({w.kind}, HTTP {code}" + (f", served {shift:.0f} s after the last operation" if shift else "")
                + f") changed {changed}: {json.dumps(d)[:700]}")
    stats["changed"][key] = stats["changed"].get(key, 0) + 1
    ctx.violation(key, what, dict(replay_base, url=url, method_path=method_path, diff=d, http_status=code,
                                  clock_shift=shift))
    return False


# =============================================================================== API-level correspondence
def api_recipes(w: World):
    """constructor -> callable performing the real call(s) (iterators consumed).  Only read-only classified
    constructors; every one is executed with existing, purged and unknown ids."""
    from datetime import UTC, datetime, timedelta
    from pynenc.identifiers.invocation_id import InvocationId
    from pynenc.invocation.status import InvocationStatus as S
    app = w.app
    o, sb, br, tr = app.orchestrator, app.state_backend, app.broker, app.trigger
    ids = (w.ids[:3] + w.ids[-2:] + [InvocationId("unknown-id")]) if w.ids else [InvocationId("unknown-id")]
    tasks = list(w.tasks.values())
    t0, t1 = datetime.now(UTC) - timedelta(days=1), datetime.now(UTC) + timedelta(days=1)
    # every combination of the two filters of the listing methods: no task / each task  x  no status / one / several
    filt = [(t, st) for t in [None] + [t.task_id for t in tasks]
            for st in (None, [S.SUCCESS], [S.REGISTERED, S.PENDING], [S.FAILED, S.RUNNING])]

    def _consume(v, depth=0):
        """lazy results (generators of a listing method) are run to the end, also inside tuples / lists"""
        if isinstance(v, (list, tuple)) and depth < 3:
            for x in v:
                _consume(x, depth + 1)
        elif hasattr(v, "__next__"):
            for _ in v:
                pass

    def each(f, xs):
        def run():
            outs = []
            for x in xs:
                try:
                    _consume(f(x))
                    outs.append("ok")
                except Exception as ex:  # noqa: BLE001 - a raising read is still a read
                    outs.append(type(ex).__name__)
            return outs
        return run

    def call_ids():
        out = []
        for i in ids:
            try:
                out.append(sb.get_invocation(i).call.call_id)
            except Exception:  # noqa: BLE001
                pass
        return out

    def loaded():
        out = []
        for i in ids:
            try:
                out.append(sb.get_invocation(i))
            except Exception:  # noqa: BLE001
                pass
        return out

    rec = {
        "ABrokerCount": each(lambda _: br.count_invocations(), [0]),
        "AOrchExisting": each(lambda t: (o.get_existing_invocations(task=t, statuses=list(S)),
                                         o.get_existing_invocations(task=t, statuses=[S.SUCCESS]),
                                         o.get_existing_invocations(task=t)), tasks),
        "AOrchBlocking": each(lambda n: o.get_blocking_invocations(n), [0, 1, 10]),
        "AOrchActiveRunners": each(lambda f: o.get_active_runners(f), [None, True, False]),
        "AOrchCount": each(lambda a: o.count_invocations(task_id=a[0], statuses=a[1]), filt),
        "AOrchIdsPaginated": each(lambda a: (o.get_invocation_ids_paginated(limit=a[0], offset=a[1]),
                                             [o.get_invocation_ids_paginated(task_id=f[0], statuses=f[1], limit=a[0], offset=a[1])
                                              for f in filt]),
                                  [(2, 0), (100, 1), (1, 50)]),
        "AOrchTaskIds": each(lambda t: o.get_task_invocation_ids(t.task_id), tasks),
        "AOrchCallIds": each(lambda c: o.get_call_invocation_ids(c), call_ids()),
        "AOrchStatus": each(lambda i: o.get_invocation_status(i), ids),
        "AOrchStatusRecord": each(lambda i: o.get_invocation_status_record(i), ids),
        "AOrchRetries": each(lambda i: o.get_invocation_retries(i), ids),
        "AOrchFilter": each(lambda _: (list(o.filter_by_status(ids, frozenset({S.SUCCESS, S.REGISTERED}))), list(o.filter_final(ids))), [0]),
        "AOrchRecoveryScan": each(lambda k: list(o.get_pending_invocations_for_recovery()) if k else list(o.get_running_invocations_for_recovery()), [0, 1]),
        "ASbInvocation": each(lambda i: sb.get_invocation(i), ids),
        "ASbResult": each(lambda i: sb.get_result(i), ids),
        "ASbException": each(lambda i: sb.get_exception(i), ids),
        "ASbHistory": each(lambda i: sb.get_history(i), ids),
        "ASbWorkflowTypes": each(lambda _: sb.get_all_workflow_types(), [0]),
        "ASbWorkflowRuns": each(lambda t: sb.get_workflow_runs(t.task_id), tasks),
        "ASbAllWorkflowRuns": each(lambda _: sb.get_all_workflow_runs(), [0]),
        "ASbIdsByWorkflow": each(lambda i: sb.get_invocation_ids_by_workflow(workflow_id=i), ids),
        "ASbIterHistory": each(lambda _: [b for b in sb.iter_history_in_timerange(t0, t1)], [0]),
        "ASbIterInvocations": each(lambda _: [b for b in sb.iter_invocations_in_timerange(t0, t1)], [0]),
        "ASbRunnerContext": each(lambda r: sb.get_runner_context(r), ["r1", "r2", "nope"]),
        "ASbRunnerContexts": each(lambda rs: sb.get_runner_contexts(rs), [["r1", "r2"], ["nope"], []]),
        "ASbMatchingRunnerContexts": each(lambda p: sb.get_matching_runner_contexts(p), ["r", "zz"]),
        "ASbChildren": each(lambda i: sb.get_child_invocations(i), ids),
        "ASbWorkflowSubs": each(lambda i: sb.get_workflow_sub_invocations(i), ids),
        "ASbWorkflowData": each(lambda i: sb.get_workflow_data(getattr(i, "workflow", i), "k", None), loaded()[:2]),
        "ATrigRead": each(lambda t: (tr.get_conditions_sourced_from_task(t.task_id), tr.get_valid_conditions()), tasks),
        "AAppTasks": each(lambda _: list(app.tasks.values()), [0]),
        "AAppGetTask": each(lambda t: app.get_task(t.task_id), tasks),
        "ACallData": each(lambda inv: (inv.call.arguments.kwargs, inv.call.serialized_arguments, inv.task), loaded()),
        "AMeta": each(lambda c: (c.conf, c.__class__.__name__), [br, o, sb, tr, app.client_data_store, app.runner]),
    }
    if hasattr(br, "peek_invocations"):
        from pynenc.broker.base_broker import BaseBroker
        generic = getattr(BaseBroker, "peek_invocations", None)      # the backend-independent default, if any
        rec["ABrokerPeek"] = each(lambda n: (br.peek_invocations(n), generic(br, n) if generic else None),
                                  [-1, 0, 1, 2, 1000])
    return rec


def run_api_level(ctx: Ctx, w: World, reached: set[str], stats: dict, shift: float = 0.0):
    recs = api_recipes(w)
    n = 0
    for ctor, fn in sorted(recs.items()):
        before = w.snapshot()
        with ShiftedClock(shift), NoLockWait():
            outs = fn()
        after = w.snapshot()
        n += max(1, len(outs))
        stats["api_calls"][ctor] = stats["api_calls"].get(ctor, 0) + len(outs)
        for o_ in outs:
            stats["api_outcomes"][o_] = stats["api_outcomes"].get(o_, 0) + 1
        d = diff_snap(before, after)
        if d:
            key = f"api:{ctor}:changed:{','.join(sorted(d))}" + (":clock-ahead" if shift else "")
            what = (f"{w.kind}: the API method(s) modelled as read-only {ctor}"
                    + (f", called {shift:.0f} s after the last operation," if shift else "")
                    + f" changed {sorted(d)}: {json.dumps(d)[:500]}"
                    + ("" if ctor in reached else "  [not reached by any GET route today]"))
            if ctor in reached:
                ctx.violation(key, what, {"kind": "api", "backend": w.kind, "ctor": ctor, "ops": w.history, "diff": d,
                                          "clock_shift": shift})
            else:
                ctx.notes.setdefault("unreached_read_api_that_mutates", []).append(what)
    return n


def run_broker_sequences(ctx: Ctx, scratch: str, n_seq: int, stats: dict):
    """count / retrieve / route / peek / record lookup on the real brokers against `prim`."""
    from pynenc.identifiers.invocation_id import InvocationId
    rng = ctx.rng
    seqs = []
    for _ in range(n_seq):
        seq = []
        for _ in range(rng.randint(3, 14)):
            r = rng.random()
            if r < 0.4:
                seq.append(("route", rng.randint(0, 5)))
            elif r < 0.7:
                seq.append(("retrieve", 0))
            elif r < 0.85:
                seq.append(("count", 0))
            else:
                seq.append(("peek", rng.randint(0, 4)))
        seqs.append(seq)
    ctor = {"route": "ABrokerRoute", "retrieve": "ABrokerRetrieve", "count": "ABrokerCount", "peek": "ABrokerPeek"}
    render = ("(fun cs => let step := fun (acc : sys * list (list nat)) c => let (s, outs) := acc in let (s', o) := prim s c in "
              "(s', outs ++ [match o with OUnit => [0] | ONone => [1] | ONum n => [2; n] | OIds l => 3 :: l | ORaise => [4] end]) in "
              "let r := fold_left step cs (mk_qsys [] [], []) in (queue (fst r), snd r))")
    exprs = [render + " [" + "; ".join(f"mkCall {ctor[k]} {a} []" for k, a in seq) + "]" for seq in seqs]
    vals = ctx.coq_eval(IMPORTS, exprs, chunk=150)
    n = 0
    for kind in ("mem", "sqlite"):
        w = World(kind, scratch)
        has_peek = hasattr(w.app.broker, "peek_invocations")
        ids = [InvocationId(f"m{k}") for k in range(6)]
        for seq, (mq, mouts) in zip(seqs, vals):
            w.app.broker.purge()
            outs = []
            for k, a in seq:
                br = w.app.broker
                if k == "route":
                    br.route_invocation(ids[a])
                    outs.append([0])
                elif k == "retrieve":
                    v = br.retrieve_invocation()
                    outs.append([1] if v is None else [2, ids.index(v)])
                elif k == "count":
                    outs.append([2, br.count_invocations()])
                elif has_peek:
                    outs.append([3] + [ids.index(v) for v in br.peek_invocations(a)])
                else:
                    outs.append(None)
            q = [ids.index(InvocationId(x)) for x in w.queue()]
            n += 1
            mo = [list(m) if o is not None else None for m, o in zip(mouts, outs)]
            if q != list(mq) or outs != mo:
                ctx.violation(f"broker-model-mismatch:{kind}",
                              f"{kind}: broker op sequence differs from the model: impl queue={q} outs={outs}; model queue={list(mq)} outs={mo}",
                              {"kind": "broker_seq", "backend": kind, "seq": seq, "impl": [q, outs], "model": [list(mq), mo]})
        stats["broker_sequences"] = stats.get("broker_sequences", 0) + len(seqs)
    return n


# =============================================================================== main
WITNESSES = [
    # (name, ops, url)  — the two Coq witnesses of Proofs/MonitorProofs.v on the implementation
    ("witness_long", [("call", "ok"), ("call", "ok"), ("call", "ok")], "/broker/queue?limit=2"),
    ("witness_purged", [("call", "ok"), ("call", "ok"), ("call", "ok"), ("drop_record", 1)], "/broker/queue?limit=5"),
]


def build_world(kind: str, scratch: str, ops: list) -> World:
    w = World(kind, scratch)
    for o in ops:
        w.op(tuple(o))
    w.settle()
    return w


def main(ctx: Ctx) -> int:
    world.quiet()
    warnings.filterwarnings("ignore")
    info = ctx.translate("routes", routes_tr.translate, "gen/Routes_gen.v")
    impl_info = ctx.translate("readimpl", readimpl_tr.translate, "gen/ReadImpl_gen.v")
    if impl_info.get("rows_with_effects_other_than_reads"):
        ctx.log("implementations of read-only classified methods with effects other than reads:",
                json.dumps(impl_info["rows_with_effects_other_than_reads"])[:1500])
    ctx.prove("Props/C20.v")
    stats: dict = {"status_codes": {}, "changed": {}, "api_calls": {}, "api_outcomes": {}, "requests_per_route": {},
                   "flavours": {}, "queue_lengths": {}, "filter_matrix_requests": {}, "clock_shifts_s": {},
                   "partially_purged_states": {}}
    pm, client = monitor()
    live = [r for r in live_routes(pm) if r[2].startswith("pynmon")]
    live_get = [r for r in live if r[0] == "GET"]
    # ---- (1) generated table against the live route table
    if not info.get("degraded"):
        gen_tab = sorted((m, p, mod, fn.split(".")[-1]) for m, p, mod, fn in info["route_table"])
        live_tab = sorted(r[:4] for r in live)
        ctx.notes["route_table"] = {"generated": len(gen_tab), "live": len(live_tab), "equal": gen_tab == live_tab,
                                    "only_generated": [list(x) for x in gen_tab if x not in live_tab],
                                    "only_live": [list(x) for x in live_tab if x not in gen_tab]}
        if gen_tab != live_tab:
            ctx.log("generated route table differs from FastAPI's live table (the read-out of the live routes decides):",
                    ctx.notes["route_table"]["only_generated"], ctx.notes["route_table"]["only_live"])
    mvals = ctx.coq_eval(IMPORTS, ["(qv_shape_code gen_qv, [if qv_restoring gen_qv then 1 else 0; if routes_ok gen_routes then 1 else 0; List.length gen_routes])",
                                   "(map (fun r => List.length (filter (fun a => negb (read_only a)) (r_reach r))) gen_routes, [0])"])
    shape_code, (restoring, table_ok, n_gen) = mvals[0][0], mvals[0][1]
    ctx.notes["model"] = {"queue_view_shape": info.get("queue_view_shape", "(default)"), "shape_code": shape_code,
                          "qv_restoring": bool(restoring), "routes_ok": bool(table_ok), "generated_get_routes": n_gen,
                          "non_read_methods_per_route": mvals[1][0]}
    shape_degraded = bool(info.get("degraded") or (info.get("queue_view_info") or {}).get("degraded"))
    if shape_degraded and not info.get("degraded"):
        ctx.log("queue_view shape not recognised (default shape used, the read-out decides):", info["queue_view_info"]["degraded"])
    suspects = set(info.get("suspect_get_paths") or [])
    reached = set(info.get("api_methods_reached_by_get") or [])
    if not reached:      # degraded translator: take the default table's set
        reached = set(re.findall(r"\b(A[A-Z][A-Za-z]+)\b", open(os.path.join(os.path.dirname(os.path.dirname(os.path.dirname(
            os.path.abspath(__file__)))), "coq", "gen_default", "Routes_gen.v")).read()))
    scratch = world.scratch_dir()
    n_eval = 0
    distinct = set()
    qv_cases: list = []
    try:
        # ---- (2) the two computed witnesses, replayed on both backends (deterministic reproduction of the findings)
        for kind in ("mem", "sqlite"):
            for name, ops, url in WITNESSES:
                w = build_world(kind, scratch, ops)
                w.activate()
                ok = request_and_judge(ctx, w, client, "/broker/queue", url, stats,
                                       {"kind": "route", "backend": kind, "ops": w.history}, qv_cases)
                n_eval += 1
                distinct.add((kind, name))
                stats.setdefault("witnesses", {})[f"{kind}:{name}"] = "unchanged" if ok else "changed"
        # ---- (2b) the queue view on EVERY small state: queue length <= L, every subset of purged records, every limit
        n_eval += run_queue_view_enumeration(ctx, scratch, client, 4 if ctx.thorough else 3, stats, qv_cases, distinct)
        # ---- (2c) the rich state (every task in several statuses, finished invocations, two runners): every pair of
        #           list filters with selecting values; then everything again with the clock ahead of every configured
        #           duration (retention, dead-runner, stuck-invocation thresholds): the state has aged, nothing else
        for kind in ("mem", "sqlite"):
            w = build_world(kind, scratch, RICH_OPS)      # a fresh state for the routes, another for the API methods
            w.activate()
            n_eval += run_filter_matrix(ctx, w, client, live_get, stats, distinct, 400 if ctx.thorough else 60)
            n_eval += run_api_level(ctx, build_world(kind, scratch, RICH_OPS), reached, stats)
            for sname, sops in AGED_STATES:
                w = build_world(kind, scratch, sops)
                shifts = clock_shifts(w.app, ctx.thorough)
                ctx.notes["configured_durations_s"] = configured_durations(w.app)
                for shift in shifts:
                    # route level and API level each on a state of their own (a sweep runs once)
                    w = build_world(kind, scratch, sops)
                    w.activate()
                    n_eval += run_aged(ctx, w, client, live_get, None, stats, distinct, [shift],
                                       3 if ctx.thorough else (2 if sname == "rich" else 1))
                    n_eval += run_api_level(ctx, build_world(kind, scratch, sops), reached, stats, shift=shift)
        # ---- (2d) partially purged stores (one component emptied / swept past the retention, the others intact)
        n_eval += run_partially_purged(ctx, scratch, client, live_get, stats, distinct, 3 if ctx.thorough else 2)
        # ---- (3) API level
        n_eval += run_broker_sequences(ctx, scratch, 400 if ctx.thorough else 30, stats)
        n_states = 24 if ctx.thorough else 3
        flavours = ["long", "purged", "mixed", "plain"]
        per_route = 12 if ctx.thorough else 4
        for si in range(n_states):
            flavour = flavours[si % len(flavours)]
            ops = gen_ops(ctx.rng, ctx.rng.randint(10, 40 if ctx.thorough else 25), flavour)
            for kind in ("mem", "sqlite"):
                w = build_world(kind, scratch, ops)
                w.activate()
                stats["flavours"][flavour] = stats["flavours"].get(flavour, 0) + 1
                ql = len(w.queue())
                stats["queue_lengths"][str(ql)] = stats["queue_lengths"].get(str(ql), 0) + 1
                n_eval += run_api_level(ctx, w, reached, stats)
                # ---- (4) every live GET route
                for (m, path, mod, fn, robj) in live_get:
                    sus = path in suspects
                    urls = gen_requests(ctx.rng, w, path, robj, mod,
                                        per_route + (6 if path == "/broker/queue" or sus else 0), suspect=sus)
                    for url in urls:
                        request_and_judge(ctx, w, client, path, url, stats,
                                          {"kind": "route", "backend": kind, "ops": w.history}, qv_cases)
                        n_eval += 1
                        distinct.add((kind, path, url.split("?")[0] == path, url))
                        stats["requests_per_route"][path] = stats["requests_per_route"].get(path, 0) + 1
                # ---- (4b) filter pairs and the aged clock on the generated state as well
                n_eval += run_filter_matrix(ctx, w, client, live_get, stats, distinct, 60 if ctx.thorough else 24)
                if ctx.thorough or si == 0:
                    sh = clock_shifts(w.app, ctx.thorough)
                    n_eval += run_aged(ctx, w, client, live_get, reached, stats, distinct,
                                       sh if ctx.thorough and si < 2 else sh[-2:-1], 2)
                if len(ctx.coverage["samples"]) < 4:
                    ctx.sample({"backend": kind, "flavour": flavour, "ops": ops[:10], "queue_len": ql, "ids": len(w.ids)})
        # ---- (5) the model's prediction for every queue-view request that ran
        preds = model_queue_view(ctx, [(c["limit"], c["queue"], c["records"]) for c in qv_cases])
        mism = 0
        for c, (mq, mok) in zip(qv_cases, preds):
            n_eval += 1
            if mq != c["impl_after"] or mok != c["impl_ok"]:
                mism += 1
                detail = (f"{c['backend']}: GET {c['url']} queue {c['queue']} records {c['records']}: implementation -> "
                          f"{c['impl_after']} (rendered={c['impl_ok']}), model of queue_view -> {mq} (rendered={mok})")
                if shape_degraded:
                    ctx.notes.setdefault("queue_view_model_mismatch_translator_degraded", []).append(detail)
                else:
                    ctx.violation("queue-view:model-mismatch", detail,
                                  {"kind": "qv_model", **c, "model_after": mq, "model_ok": mok})
        stats["queue_view_cases"] = {"compared_with_model": len(qv_cases), "mismatches": mism,
                                     "impl_changed": sum(1 for c in qv_cases if c["queue"] != c["impl_after"]),
                                     "impl_failed": sum(1 for c in qv_cases if not c["impl_ok"])}
        if len(qv_cases) and len(ctx.coverage["samples"]) < 6:
            ch = [c for c in qv_cases if c["queue"] != c["impl_after"]][:1] or qv_cases[:1]
            ctx.sample({"queue_view": {k: ch[0][k] for k in ("backend", "url", "queue", "records", "impl_after", "impl_ok")}})
        # a restoring verdict of the proof and a changed queue on the implementation contradict each other
        if restoring and not shape_degraded and stats["queue_view_cases"]["impl_changed"]:
            ctx.notes["proof_says_restoring_but_impl_changed"] = True
        if ctx.thorough:
            stats["translator_self_test"] = translator_self_test(scratch)
    finally:
        world.rm_scratch(scratch)
    ctx.count(n_eval, len(distinct))
    write_known_replays(ctx)
    ctx.notes["distribution"] = stats
    ctx.notes["live_get_routes"] = len(live_get)
    ctx.assumptions += [
        "a handler is modelled as an arbitrary interaction tree over the API methods its route can reach through pynmon's own "
        "call graph (translator); code of domain objects reached outside that graph (LazyCall deserialisation, status property) "
        "is covered by the before/after read-out only",
        "API semantics in Model/Monitor.v are abstractions (what is returned is coarse); what is tied to the code is: read-only "
        "classified methods leave the full read-out unchanged on both backends; broker count/retrieve/route/peek agree with prim",
        "sequential requests (no concurrent runner while a page is served)",
        "aged states: only the wall clock read by pynenc.* / pynmon.* module code is moved (time.time, time(), datetime.now / "
        "utcnow / today as bound in those modules); SQLite's own CURRENT_TIMESTAMP and clocks bound as default arguments are not",
        "implementation-effects table (gen/ReadImpl_gen.v): syntactic, per class hierarchy of the four backend components; "
        "effects inside imported helpers of other modules and inside domain objects are not followed (covered by the read-out)",
        "read-out: internal containers of the in-memory components (locks, loggers, caches of runner contexts excluded; empty "
        "default entries ignored) / every table of the SQLite file (queue table projected to the id order)",
    ]
    ctx.trusted += ["AST translator harness/translate/routes.py (route table cross-checked against FastAPI's live table on every run)",
                    "AST translator harness/translate/readimpl.py (thorough tier: seeded edits must flip its table)",
                    "Starlette TestClient as the HTTP front end"]
    return ctx.finish(
        rule="every live GET route x generated states (flavours long/purged/mixed/plain, both backends) x generated path/query "
             "parameters (existing, record-purged, unknown, malformed ids; limits around the queue length); + every read-only "
             "classified API method on every state; + broker op sequences vs prim; + every queue-view request vs qv_run gen_qv; "
             "+ list routes x every pair of selecting filter values on the rich state and on the generated states; + every route "
             "and read-only method with the clock ahead of each configured duration on the aged states (one finished / one failed "
             "/ rich) and on generated states. "
             "distinct_nontrivial = distinct (backend, url) requests")


def run_queue_view_enumeration(ctx: Ctx, scratch: str, client, max_len: int, stats: dict, qv_cases: list, distinct: set) -> int:
    """complete enumeration: queue of L <= max_len fresh invocations x every subset of them with the stored record
    purged x every limit in -1 .. L+1, on both backends (the model is compared on each case in step 5)."""
    import itertools
    n = 0
    for kind in ("mem", "sqlite"):
        w = World(kind, scratch)
        w.activate()
        for L in range(max_len + 1):
            for missing in itertools.product((False, True), repeat=L):
                for lim in range(-1, L + 2):
                    w.app.broker.purge()
                    w.history = [["purge", "broker"]]
                    first = len(w.ids)
                    for _ in range(L):
                        w.op(("call", "ok"))
                    for k, gone in enumerate(missing):
                        if gone:
                            w.op(("drop_record", first + k))
                    # replayable from scratch: the same calls on a fresh world give the same shape of state
                    base = {"kind": "route", "backend": kind,
                            "ops": [["call", "ok"]] * L + [["drop_record", k] for k, g in enumerate(missing) if g]}
                    request_and_judge(ctx, w, client, "/broker/queue", f"/broker/queue?limit={lim}", stats, base, qv_cases)
                    distinct.add((kind, "enum", L, missing, lim))
                    n += 1
        stats["queue_view_enumeration"] = {"max_queue_length": max_len, "cases_per_backend": n // (1 if kind == "mem" else 2),
                                           "complete": True}
    return n


def write_known_replays(ctx: Ctx) -> None:
    """a known finding is reproduced on every run; keep its replay next to the violations' ones"""
    import hashlib
    from harness.common import REPLAYS
    os.makedirs(REPLAYS, exist_ok=True)
    files = []
    for k in ctx.known_hits:
        h = hashlib.sha256(k["key"].encode()).hexdigest()[:8]
        path = os.path.join(REPLAYS, f"{ctx.prop}-known-{h}.json")
        with open(path, "w") as f:
            json.dump({"property": ctx.prop, "key": k["key"], "what": k["what"], "replay": k["replay"], "known_finding": True,
                       "replay_cmd": f"./check {ctx.prop} --replay {path}"}, f, indent=1, default=str)
        files.append(path)
    if files:
        ctx.notes["known_finding_replays"] = files


def translator_self_test(scratch: str) -> dict:
    """thorough tier: seeded edits of a scratch copy of pynmon must flip the generated facts."""
    import shutil
    out = {}
    from harness.common import REPO
    muts = {
        "get_view_purges": ("pynmon/views/broker.py", '        "pending_count": app.broker.count_invocations(),\n    }\n\n    return templates.TemplateResponse(\n        request,\n        "broker/overview.html"',
                            '        "pending_count": app.broker.count_invocations(),\n    }\n    app.broker.purge()\n\n    return templates.TemplateResponse(\n        request,\n        "broker/overview.html"'),
        "queue_view_without_reroute": ("pynmon/views/broker.py", "        app.broker.route_invocation(invocation.invocation_id)\n", "        pass\n"),
        "dynamic_dispatch": ("pynmon/views/home.py", "    broker_pending = active_app.broker.count_invocations()\n",
                             "    broker_pending = getattr(active_app.broker, request.query_params.get('m', 'count_invocations'))()\n"),
    }
    impl_muts = {
        "read_narrows_live_index_in_place": (
            "pynenc/orchestrator/mem_orchestrator.py",
            "            candidates = candidates.intersection(status_matches)\n\n        return len(candidates)",
            "            candidates &= status_matches\n\n        return len(candidates)"),
        "listing_sweeps_first": (
            "pynenc/orchestrator/sqlite_orchestrator.py",
            '        query = f"SELECT invocation_id FROM {self.tables.INVOCATIONS}"\n',
            '        self.auto_purge()\n        query = f"SELECT invocation_id FROM {self.tables.INVOCATIONS}"\n'),
        "read_pops_history": (
            "pynenc/state_backend/mem_state_backend.py",
            "    def _get_history(self, invocation_id: \"InvocationId\") -> list[\"InvocationHistory\"]:\n",
            "    def _get_history(self, invocation_id: \"InvocationId\") -> list[\"InvocationHistory\"]:\n"
            "        self._runner_contexts.pop(invocation_id, None)\n"),
    }
    translators = {name: routes_tr for name in muts}
    translators.update({name: readimpl_tr for name in impl_muts})
    muts = {**muts, **impl_muts}
    for name, (rel, old, new) in muts.items():
        tr = translators[name]
        d = os.path.join(scratch, "selftest_" + name)
        os.makedirs(d)
        shutil.copytree(os.path.join(REPO, "pynmon"), os.path.join(d, "pynmon"))
        shutil.copytree(os.path.join(REPO, "pynenc"), os.path.join(d, "pynenc"), ignore=shutil.ignore_patterns("__pycache__"))
        p = os.path.join(d, rel)
        src = open(p).read()
        if old not in src:
            out[name] = "source text not found (tree differs from the seeded one)"
            continue
        open(p, "w").write(src.replace(old, new, 1))
        try:
            text, _ = tr.translate(d)
            base, _ = tr.translate(REPO)
            out[name] = "detected" if text != base else "NOT DETECTED"
        except Exception as ex:  # noqa: BLE001
            out[name] = f"fails closed ({type(ex).__name__})"
    return out


def replay(ctx: Ctx, path: str) -> int:
    world.quiet()
    warnings.filterwarnings("ignore")
    rp = json.load(open(path))["replay"]
    scratch = world.scratch_dir()
    try:
        if rp["kind"] in ("route", "qv_model"):
            pm, client = monitor()
            kind = rp["backend"]
            if rp["kind"] == "qv_model":
                print("model vs implementation of queue_view:", json.dumps(rp, default=str)[:1500])
                return 0
            w = build_world(kind, scratch, rp["ops"])
            w.activate()
            shift = float(rp.get("clock_shift") or 0.0)
            before = w.snapshot()
            with warnings.catch_warnings():
                warnings.simplefilter("ignore")
                with ShiftedClock(shift), NoLockWait():
                    r = client.get(rp["url"], follow_redirects=False)
            after = w.snapshot()
            idx = {i: k for k, i in enumerate(w.ids)}
            print("backend", kind, "GET", rp["url"], "-> HTTP", r.status_code,
                  f"(clock of pynenc/pynmon {shift:.0f} s ahead while serving)" if shift else "")
            print("queue before", [idx[i] for i in before["queue"]])
            print("queue after ", [idx[i] for i in after["queue"]])
            d = diff_snap(before, after)
            print("changed:", json.dumps(d, indent=1)[:3000] if d else "nothing (system exactly as it was)")
            return 1 if d else 0
        if rp["kind"] == "api":
            w = build_world(rp["backend"], scratch, rp["ops"])
            before = w.snapshot()
            with ShiftedClock(float(rp.get("clock_shift") or 0.0)), NoLockWait():
                outs = api_recipes(w)[rp["ctor"]]()
            d = diff_snap(before, w.snapshot())
            print(rp["ctor"], outs, "changed:", json.dumps(d)[:2000] if d else "nothing")
            return 1 if d else 0
        print(json.dumps(rp, indent=1, default=str)[:3000])
    finally:
        world.rm_scratch(scratch)
    return 0

"""C11 — stopping a runner leaves none of its invocations owned or unqueued.

proof: Props/C11.v — per-invocation component machine (finite; closure computed and checked inside Coq) lifted to any
       number of claimed invocations and any interleaving; stop_hangs_refuted for the liveness half.
tie:   AST facts (order of kill/join, KILLED then REROUTED, refusals ignored) + the REAL ThreadRunner.run() under the
       deterministic scheduler on generated workloads with the stop request injected at every scheduling step.
"""
from __future__ import annotations

import json

from harness import runner_driver as R
from harness import tasks_tree, world
from harness.common import Ctx
from harness.translate import runner_facts

GENERATED = [("harness.translate.runner_facts", "translate", "gen/RunnerFacts_gen.v")]
MANIFEST = {
    "technique": "Coq proof by verified finite-state closure of the per-invocation stop machine, lifted to products of any size; stop injection at every scheduling step of the real ThreadRunner",
    "text": "Theorems (Props/C11.v): for any number of invocations claimed by the runner, in any phase of their task threads, a stop "
            "request at any moment and any interleaving of the stopping loop, the (zombie) task threads and another runner: no "
            "exception escapes _on_stop and every entry that has been dealt with is final, or available+queued+un-owned, or held by "
            "the other runner — never PENDING/RUNNING/KILLED under the stopped runner (component machine instantiated with the "
            "generated facts; its 98-state reachable set is computed, shown closed under all steps and shown to satisfy the "
            "post-condition by vm_compute, then lifted to n components by induction); dropping the reroute or letting a refusal "
            "escape is refuted; the liveness half is refuted on the runner model (parent waiting on a queued child: no task-thread "
            "step changes the state, the join never returns). Tie: AST facts + real ThreadRunner.run() with stop injected at every "
            "scheduling step of independent / nested / retrying / group workloads, 1 and 2 slots, both backends.",
    "note": "PARTIAL: 'the stop completes' holds only if every alive task thread eventually returns; the hang on a parent waiting for a "
            "queued child is a known finding. Trusted: scheduler harness; other runners are abstracted as one 'other' actor in the proof "
            "and absent in the real runs.",
    "design_ref": "DESIGN.md §6 C11, Appendix B",
}

WORKLOADS = {
    "independent": {"roots": [[0, "leaf", []], [1, "leaf", []], [2, "leaf", []]], "fail": {}},
    "nested": {"roots": [[0, "single", [[1, "leaf", []], [2, "leaf", []]]]], "fail": {}},
    "retrying": {"roots": [[0, "leaf", []], [1, "leaf", []]], "fail": {0: 1}},
    "group": {"roots": [[0, "group", [[1, "leaf", []], [2, "leaf", []]]]], "fail": {}},
    "deep": {"roots": [[0, "seq", [[1, "single", [[2, "leaf", []]]], [3, "leaf", []]]]], "fail": {1: 1}},
}
AVAILABLE = ("REGISTERED", "REROUTED", "RETRY")
FINAL = ("SUCCESS", "FAILED", "CONCURRENCY_CONTROLLED_FINAL")


def run_workload(kind, scratch, name, slots, stop_at, budget, signum=None):
    wl = WORKLOADS[name]
    w = R.RunnerWorld(kind, scratch, slots)
    tasks_tree.LOG.clear()
    tasks_tree.FAIL.clear()
    tasks_tree.FAIL.update(wl["fail"])
    tasks_tree.TASK = w.app.task(tasks_tree.node, max_retries=3, retry_for=(tasks_tree.Retry,))
    roots = [tasks_tree.TASK(spec).invocation_id for spec in wl["roots"]]
    runner_actor = w.start_runner()
    rid = w.runner.runner_id
    state = {"stopped_at": None, "all_final_at": None}

    def hook(s):
        k = len(s.trace)
        # "at any moment of its loop": the request is injected once run() has entered the loop (a request that
        # arrives before on_start sets the running flag is outside the statement)
        if state["stopped_at"] is None and stop_at is not None and k >= stop_at and getattr(w.runner, "running", False):
            state["stopped_at"] = k
            state["at_stop"] = {i: w.raw_status(i) for i in w.all_invocations()}
            w.runner.stop_runner_loop(signum) if signum is not None else w.runner.stop_runner_loop()
        if stop_at is None and state["all_final_at"] is None:
            if all((w.raw_status(r) or ("?",))[0] in FINAL for r in roots):
                state["all_final_at"] = k
                w.runner.stop_runner_loop()
                state["stopped_at"] = k
        if runner_actor.state == "done":
            return "stop"
        return None
    try:
        status = w.sched.run(R.fair_chooser("rr", None, hook), max_steps=budget)
    finally:
        pass
    done = runner_actor.state == "done"
    claimed = sorted({i for (i, st, req, ok, _) in w.tlog if ok and st == "PENDING" and req == rid})
    verdict, key = None, None
    invs = w.all_invocations()
    q = w.queue()
    if not done:
        # who is the stop waiting for?  an alive task thread that waits on a child nobody will run
        waiting = [str(x) for x in w.runner.waiting_invocation_ids]
        queued_children = [i for i in invs if (w.raw_status(i) or ("?",))[0] in AVAILABLE and i in q]
        at_stop = state.get("at_stop") or {}
        killed_by_stop = {i for (i, st_, req, ok, _) in w.tlog if ok and st_ == "KILLED" and req == rid}
        own_at_stop = [i for i in queued_children if str(i) not in waiting and i in killed_by_stop and (at_stop.get(i) or ("?", None))[0] in ("PENDING", "RUNNING") and (at_stop.get(i) or ("?", None))[1] == rid]
        if waiting and own_at_stop:
            # not the known gap (a child nobody has started): the stop itself took a RUNNING / PENDING child of this runner away from
            # under a parent it then waits for
            key = "stop-hangs:parent-waits-child-the-stop-requeued"
            verdict = (f"run() did not return within {budget} fair scheduling steps after the stop request at step {state['stopped_at']}: the stop re-queued "
                       f"{len(own_at_stop)} invocation(s) that were PENDING/RUNNING under this runner at the request and then joins a task thread that waits for them")
        elif waiting and queued_children:
            key = "stop-hangs:parent-waits-queued-child"
            verdict = (f"run() did not return within {budget} fair scheduling steps after the stop request at step {state['stopped_at']}: "
                       f"{len(waiting)} task thread(s) wait for sub-tasks that are still queued ({len(queued_children)} queued), the join never returns")
        else:
            key = "stop-hangs:other"
            verdict = f"run() did not return within {budget} steps after the stop request at step {state['stopped_at']} (run ended {status})"
    else:
        if runner_actor.exc is not None:
            key, verdict = "stop-raised", f"run() raised {runner_actor.exc!r} while stopping"
        for i in claimed:
            st = w.raw_status(i)
            ok = st[0] in FINAL or (st[0] in AVAILABLE and st[1] is None and i in q)
            if not ok and not verdict:
                key = f"left-behind:{st[0]}"
                verdict = (f"after run() returned, invocation claimed by the stopped runner is {st[0]} (owner {st[1]}, "
                           f"{q.count(i)} queue entries) — stop requested at step {state['stopped_at']}")
    out = {"verdict": verdict, "key": key, "steps": len(w.sched.trace), "stopped_at": state["stopped_at"], "claimed": len(claimed),
           "returned": done, "statuses": sorted((w.raw_status(i) or ("?",))[0] for i in invs), "all_final_at": state["all_final_at"]}
    w.close()
    return out


def kill_refusals(ctx: Ctx, scratch: str) -> int:
    """_kill_and_reroute by the stopping runner on EVERY (status, owner) an entry of its thread table can be in by the time the
    stop reaches it (another runner may hold it, it may be final or already re-queued): it never raises, and an invocation the
    stopping runner still holds ends REROUTED, un-owned and queued."""
    import types
    from harness.props import c01
    from pynenc.runner.base_runner import BaseRunner
    n = 0
    for kind in ("mem", "sqlite"):
        be = c01.Backend(kind, scratch)
        app = be.app
        me = world.runner_ctx("r1")
        stub = world.RunnerStub(app=app, runner_context=me, logger=app.logger)
        for status in c01.ST:
            for owner in (None, "r1", "r2"):
                inv = be.new_invocation()
                be.inject(inv, status, owner)
                app.broker.purge()
                n += 1
                exc = None
                try:
                    BaseRunner._kill_and_reroute(stub, inv)
                except BaseException as ex:  # noqa: BLE001
                    exc = repr(ex)
                after = be.read(inv)
                held = owner == "r1" and status in ("PENDING", "RUNNING")
                queued = app.broker.count_invocations()
                if exc is not None:
                    ctx.violation(f"kill-raises:{status}:{'own' if owner == 'r1' else 'other' if owner else 'none'}",
                                  f"{kind}: _kill_and_reroute by r1 on an invocation in {status} owned by {owner} raised {exc} (it aborts _on_stop: "
                                  "the remaining entries of the thread table stay owned by the stopped runner)",
                                  {"kind": "kill-refusal", "backend": kind, "status": status, "owner": owner})
                elif held and not (after[0] == "REROUTED" and after[1] is None and queued == 1):
                    ctx.violation(f"kill-leaves:{status}", f"{kind}: _kill_and_reroute on r1's own {status} invocation left {after[:2]} with {queued} queue entries",
                                  {"kind": "kill-refusal", "backend": kind, "status": status, "owner": owner})
        be.flush()
    ctx.notes["kill_refusals"] = {"cases": n, "space": "14 statuses x owner in {none, the stopping runner, another runner} x 2 backends (exhaustive)"}
    return n


def main(ctx: Ctx) -> int:
    world.quiet()
    info = ctx.translate("runner_facts", runner_facts.translate, "gen/RunnerFacts_gen.v")
    ctx.notes["facts"] = info.get("facts")
    ctx.prove("Props/C11.v")
    scratch = world.scratch_dir()
    total, per, outcomes = 0, {}, {}
    try:
        total += kill_refusals(ctx, scratch)
        for kind in ("mem", "sqlite"):
            for name in WORKLOADS:
                for slots in (1, 2):
                    if not ctx.thorough and ((kind == "sqlite" and name in ("deep", "group")) or (slots == 2 and name in ("independent", "deep"))):
                        continue
                    base = run_workload(kind, scratch, name, slots, None, 30000)
                    total += 1
                    T = base["all_final_at"] or base["steps"]
                    stride = 1 if ctx.thorough else (2 if kind == "mem" else 5)
                    offset = ctx.seed % stride
                    n = 0
                    for k in range(offset, T + 1, stride):
                        # the request comes as a plain call or as a termination signal (SIGTERM = 15): alternately in quick, both in thorough
                        for signum in ((None, 15) if ctx.thorough else ((None, 15)[(k // stride) % 2],)):
                          out = run_workload(kind, scratch, name, slots, k, T + 3000, signum)
                          total += 1
                          n += 1
                          cls = out["key"] or ("returned:" + ",".join(sorted(set(out["statuses"]))))
                          outcomes[cls] = outcomes.get(cls, 0) + 1
                          if out["verdict"]:
                            ctx.violation(out["key"], f"{kind}/{name}/{slots} slot(s), stop {'signal ' + str(signum) if signum else 'request'}: {out['verdict']}",
                                          {"kind": "stop", "backend": kind, "workload": name, "slots": slots, "stop_at": k, "budget": T + 3000,
                                           "signum": signum, "observed": out})
                        continue
                        out = run_workload(kind, scratch, name, slots, k, T + 3000)
                        total += 1
                        n += 1
                        cls = out["key"] or ("returned:" + ",".join(sorted(set(out["statuses"]))))
                        outcomes[cls] = outcomes.get(cls, 0) + 1
                        if out["verdict"]:
                            ctx.violation(out["key"], f"{kind}/{name}/{slots} slot(s): {out['verdict']}",
                                          {"kind": "stop", "backend": kind, "workload": name, "slots": slots, "stop_at": k, "budget": T + 3000,
                                           "observed": out})
                    per[f"{kind}:{name}:{slots}"] = {"steps_of_full_run": T, "injection_points": n}
                    if len(ctx.coverage["samples"]) < 5:
                        ctx.sample({"backend": kind, "workload": name, "slots": slots, "full_run_steps": T, "injections": n})
    finally:
        world.rm_scratch(scratch)
    ctx.count(total, total)
    ctx.notes["stop_injection"] = {"runs": total, "per_workload": per, "outcome_classes": outcomes}
    ctx.assumptions += ["round-robin fair schedule; stop injected at scheduling-step granularity", "single runner in the real runs"]
    return ctx.finish(rule="one evaluation = one complete run of ThreadRunner.run() on a workload with the stop request injected at one "
                           "scheduling step (every step in thorough, a seeded stride in quick) + the reference run without injection")


def replay(ctx: Ctx, path: str) -> int:
    world.quiet()
    rp = json.load(open(path))["replay"]
    scratch = world.scratch_dir()
    try:
        if rp.get("kind") == "kill-refusal":
            kill_refusals(ctx, scratch)
            for v in ctx.violations + ctx.known_hits:
                print("REPRODUCED:", v["what"])
            return 0
        print(json.dumps(run_workload(rp["backend"], scratch, rp["workload"], rp["slots"], rp["stop_at"], rp["budget"], rp.get("signum")), indent=1))
    finally:
        world.rm_scratch(scratch)
    return 0

"""C16 — the in-memory and the SQLite backends are observationally equivalent, and both agree with a reference model.

proof: Props/C16.v — two executable Gallina models of orchestrator + wait graph + broker + state backend:
       Model/BackendIndex.v (record dict + incrementally maintained indexes, transcribed from the CURRENT Mem* classes) and
       Model/BackendRel.v (rows + the SQL queries' filters, transcribed from the SQLite* classes = the reference model of the
       documented contract).  For ALL operation sequences inside the domain of Model/BackendGuard.v every answer of the two
       models coincides (simulation relation, induction over the op list) and the index invariant holds; the one defect left
       in the in-memory backend (release_waiters forgets the released invocation's own waits) is refuted by two witnesses.
tie:   the SAME op sequences (exhaustive short ones + seeded random ones, virtual clock) run on the real Mem* objects, the real
       SQLite* objects and both models (vm_compute), with a full read-out (77 queries) after EVERY operation, STRICTLY:
       SQLite == relational model and Mem == relational model on every answer; only after a sequence met the remaining
       finding's guard class may Mem differ, and then exactly as the index model predicts (KNOWN-FINDING).
"""
from __future__ import annotations

import itertools
import json
import multiprocessing as mp
import os

from harness import world
from harness.common import NCPU, Ctx
from harness import c16_driver as D
from harness import c16_trigger as TG

GENERATED: list = []
MANIFEST = {
    "technique": "Coq proof of a simulation between an index model and a relational model of the backends (unbounded, induction "
                 "over the operation list) + differential correspondence of both models with the real Mem* and SQLite* objects",
    "text": "Props/C16.v: for EVERY operation sequence inside the stated domain the index model (Mem* classes: record dict, "
            "status/task/call/argument indexes, retry dict, purge deque, waiting_for/waited_by/_ready) and the relational model "
            "(SQLite* classes: rows + query filters; the reference model of the documented contract) give the same answer to every "
            "operation, unordered answers compared as sorted sets (index_refines_relational), and the indexes are the images of the "
            "record table (index_invariant); the unrestricted statement is refuted by the two faces of the one remaining defect. "
            "Tie: the same sequences (exhaustive to a small length over a reduced alphabet + seeded random up to 300 operations, "
            "VirtualClock on a 1/64 s grid with steps on the purge / pending / heartbeat cut-offs) are executed on the real "
            "MemOrchestrator+MemBroker+MemStateBackend, the real SQLite counterparts and both models with a full read-out after "
            "every operation; both implementations must equal the reference model on every answer.",
    "note": "COVERED BY THEOREM + CORRESPONDENCE (index model vs relational model, different definitions, simulation proof): "
            "register_new_invocations (incl. re-registration of known invocations), set_invocation_status (KeyError / transition / "
            "ownership errors; release + auto-purge set-up on a final status; InvocationNotFound from the trigger report when the "
            "state backend lost the invocation), index_arguments_for_concurrency_control, get_existing_invocations (task x key "
            "arguments x statuses), get_task_invocation_ids, get_call_invocation_ids, get_invocation_ids_paginated, "
            "count_invocations, filter_by_status, get_invocation_status_record, increment/get_invocation_retries (known and unknown "
            "ids), waiting_for_results / release_waiters / get_blocking_invocations (C09's wait-graph invariant reused; awaited ids "
            "need not be registered), get_pending_invocations_for_recovery, get_running_invocations_for_recovery (C04's scan "
            "equivalence reused), orchestrator purge, state-backend purge, auto_purge when nothing is due. "
            "THEOREM DOMAIN (Model/BackendGuard.v), everything except: class 4 = direct release_waiters on an invocation that is not "
            "final and class 1 = registering again an invocation that was auto-purged (the two faces of the remaining known finding "
            "mem-release-of-live-invocation-forgets-its-own-waits, each refuted by a witness in Props/C16.v and reproduced on the real "
            "code); class 3 = an invocation waiting for itself (outside C09's invariant proof; no divergence known; correspondence "
            "covers it strictly); class 7 = auto_purge with due invocations: the purge LOOP (both of its paths) is modelled on both "
            "sides and covered strictly by the correspondence but not by the simulation proof. SHARED-SHAPE PART (one definition "
            "used by both models, theorem trivial there, correspondence runs both implementations against it): "
            "register_runner_heartbeats / get_active_runners, broker route / retrieve / peek / count / purge (FIFO refinement is C08's "
            "theorem), state backend set/get result, exception, workflow data, history, stored invocations, runner contexts, purge. "
            "Also in the shared-shape part: iter_history_in_timerange / iter_invocations_in_timerange (batch sizes 1..3, equal "
            "timestamps inside one operation via the harness' history clock; batches must be full, ordered, nothing missing or "
            "duplicated; the flattened content is compared with the model). IMPLEMENTATION-VS-IMPLEMENTATION ONLY (no model, "
            "strict): record_atomic_service_execution, get_invocation_ids_by_workflow, and the whole TRIGGER STORE "
            "(harness/c16_trigger.py: MemTrigger vs SQLiteTrigger on the same seeded sequences - register conditions of every kind "
            "incl. cron ones with 0 / negative / default timing parameters, register triggers, get_condition / get_trigger / "
            "get_triggers_for_condition / get_conditions_sourced_from_task compared by value with what was registered, record / get "
            "/ clear valid conditions, claim_trigger_run under the virtual clock at the expiry boundary, store / get last cron "
            "execution incl. the compare-and-swap, check_time_based_triggers at instants on and around the schedule points, "
            "clean_task_trigger_definitions, purge - full read-out after every operation, unordered answers as sorted lists). "
            "NOT COVERED: client data store, app-info registry, workflow-run registry, negative limits / offsets. "
            "No translator: the tie is the differential correspondence (every run executes the current source of both backends "
            "against both models; the witnesses of the seven repaired divergences run as regression cases). Trusted: SQLite engine; "
            "harness connection cache (one sqlite3 connection per thread and file instead of one per call; SQL text unchanged); "
            "VirtualClock; status_record_transition = doc_transition (C01's theorem).",
    "design_ref": "DESIGN.md §6 C16",
}

IMPORTS = ["Model.Status", "Model.Blocking", "Model.Recovery", "Model.BackendOps", "Model.BackendRel", "Model.BackendIndex",
           "Model.BackendGuard"]
ST = D.STATUSES
TASK_OF = [t for t, _ in D.SLOT_DESC]
CALL_OF = [0, 1, 0, 2, 3, 4]
KEYCODE = {"a": 0, "b": 1, "x": 2}
ARGS_OF = [[(KEYCODE[k], v) for k, v in kw.items()] for _, kw in D.SLOT_DESC]
PRELUDE = ("let U := {| task_of := fun i => nth i [%s] 9; call_of := fun i => nth i [%s] 9; args_of := fun i => nth i [%s] [] |} in "
           "let C := {| purge_after := %d%%Z; pending_limit := %d%%Z; dead_after := %d%%Z |} in "
           % ("; ".join(map(str, TASK_OF)), "; ".join(map(str, CALL_OF)),
              "; ".join("[" + "; ".join(f"({k}, {v})" for k, v in a) + "]" for a in ARGS_OF),
              D.PURGE_UNITS, D.PENDING_UNITS, D.DEAD_UNITS))
# the one defect left in /repo: MemBlockingControl.release_waiters(x) also forgets what x itself waits for.
# Guard class 4 = release of a live invocation, class 1 = its other face (finished while waiting, auto-purged, registered
# again): only there may the in-memory backend differ from the reference, and only the way the index model predicts.
RELEASE_KEY = "mem-release-of-live-invocation-forgets-its-own-waits"
FINDING_CLASSES = (1, 4)
NESTED_KEY = "sqlite:nested-write-inside-open-transaction"
IMPL_ONLY = ("svc", "q_svc", "q_wfids", "q_children")


# ---------------------------------------------------------------- op -> Gallina
def _l(xs):
    return "[" + "; ".join(str(x) for x in xs) + "]"


def _r(r):
    return f"(Some {D.RUNNERS.index(r) + 1})" if r in D.RUNNERS else "None"


def coq_op(op) -> str:
    k = op[0]
    if k == "tick":
        return f"Tick {op[1]}"
    if k == "reg":
        return f"Reg {_l(op[1])} (Some 9)"
    if k == "set":
        return f"SetSt {op[1]} {op[2]} {_r(op[3])}"
    if k == "idx":
        return f"IdxArgs {op[1]}"
    if k == "incr":
        return f"IncR {op[1]}"
    if k == "hb":
        return f"Hb {_l(D.RUNNERS.index(r) + 1 for r in op[1])} {'true' if op[2] else 'false'}"
    if k == "autopurge":
        return "AutoPurge"
    if k == "wait":
        return f"Wait {op[1]} {_l(op[2])}"
    if k == "release":
        return f"Release {op[1]}"
    if k == "route":
        return f"Route {op[1]}"
    if k in ("retrieve", "bpurge", "sbpurge", "opurge"):
        return {"retrieve": "Retrieve", "bpurge": "BPurge", "sbpurge": "SBPurge", "opurge": "OPurge"}[k]
    if k == "res":
        return f"SetRes {op[1]} {op[2]}"
    if k == "exc":
        return f"SetExc {op[1]} {op[2]}"
    if k == "wf":
        return f"SetWf {op[1]} {op[2]}"
    if k in IMPL_ONLY:
        return "Tick 0"
    if k in ("q_rec", "q_retries", "q_task", "q_call", "q_res", "q_exc", "q_hist", "q_wf", "q_stored", "q_rctx", "q_peek"):
        name = {"q_rec": "QRec", "q_retries": "QRetries", "q_task": "QTask", "q_call": "QCall", "q_res": "QRes", "q_exc": "QExc",
                "q_hist": "QHist", "q_wf": "QWf", "q_stored": "QStored", "q_rctx": "QRctx", "q_peek": "QPeek"}[k]
        return f"{name} {op[1]}"
    if k == "q_existing":
        return f"QExisting {op[1]} {_l(f'({a}, {b})' for a, b in op[2])} {_l(op[3])}"
    if k == "q_page":
        return f"QPage {'None' if op[1] is None else f'(Some {op[1]})'} {_l(op[2])} {op[3]} {op[4]}"
    if k == "q_count":
        return f"QCount {'None' if op[1] is None else f'(Some {op[1]})'} {_l(op[2])}"
    if k == "q_filter":
        return f"QFilter {_l(op[1])} {_l(op[2])}"
    if k in ("q_hrange", "q_irange"):
        return f"{'QHRange' if k == 'q_hrange' else 'QIRange'} {op[1]}%Z {op[2]}%Z"
    if k == "q_blocking":
        return "QBlocking"
    if k in ("q_pending", "q_running", "q_qcount"):
        return {"q_pending": "QPending", "q_running": "QRunning", "q_qcount": "QQCount"}[k]
    if k == "q_active":
        return "QActive " + ("None" if op[1] is None else f"(Some {'true' if op[1] else 'false'})")
    raise ValueError(op)


READOUT = D.readout_ops()


def expand(case):
    """every operation is followed by the full read-out; returns (flat op list, index of the real op each entry belongs to)"""
    flat, owner = [], []
    for j, op in enumerate(case):
        flat.append(op)
        owner.append(j)
        for q in READOUT:
            flat.append(q)
            owner.append(j)
    return flat, owner


def coq_expr(case) -> str:
    flat, _ = expand(case)
    ops = "[" + "; ".join(coq_op(o) for o in flat) + "]"
    return (PRELUDE + f"let ops := {ops} in "
            "[map render (idx_run U C doc_transition idx0 ops); map render (rel_run U C doc_transition rel0 ops); "
            "[[ (let (p, k) := first_bad U C doc_transition [] 0 [] rel0 ops in [Z.of_nat p; Z.of_nat k]); "
            "(let (p, k) := first_bad U C doc_transition [3; 7] 0 [] rel0 ops in [Z.of_nat p; Z.of_nat k]) ]]]")


def norm_model(op, v):
    """model answers are canonical except the active-runner rows (insertion order in the model, any order among equal
    creation times in the contract): sort them here"""
    if op[0] in ("q_active", "q_hrange") and v and v[0] == [7]:
        return [[7]] + sorted(v[1:])
    return v


# ---------------------------------------------------------------- implementation side (worker processes)
_W: dict = {}


def _worker_init(scratch):
    from harness.vclock import VirtualClock
    world.quiet()
    clock = VirtualClock(D.T0).install()
    hclock = D.HistClock(clock).install()
    tclock = TG.TrigClock(clock).install()
    cache = D.ConnCache().install()
    sub = os.path.join(scratch, f"w{os.getpid()}")
    os.makedirs(sub, exist_ok=True)
    _W.update(clock=clock, hclock=hclock, tclock=tclock, cache=cache, impls={k: D.Impl(k, sub, clock, hclock) for k in ("mem", "sqlite")})


def run_case_on(kind, case):
    im = _W["impls"][kind]
    if kind == "sqlite":
        _W["cache"].drop()
    im.reset()
    flat, _ = expand(case)
    out, nested = [], []
    _W["cache"].pop_events()
    for j, op in enumerate(flat):
        out.append(im.do(op))
        if not op[0].startswith("q_"):
            im.flush()
        if kind == "sqlite":
            ev = _W["cache"].pop_events()
            if ev:
                nested.append((j, ev))
    return out, nested


def _worker(args):
    idx, case = args
    if case and case[0] == "TRIGGER":                      # trigger-store differential (no model)
        _W["cache"].drop()
        m = TG.run_case(_W["impls"]["mem"], case[1])
        s = TG.run_case(_W["impls"]["sqlite"], case[1])
        return idx, m, s, []
    m, _ = run_case_on("mem", case)
    s, nested = run_case_on("sqlite", case)
    return idx, m, s, nested


def run_impl(cases, scratch):
    if not cases:
        return {}
    n = min(NCPU, max(1, len(cases)))
    ctxm = mp.get_context("fork")
    with ctxm.Pool(n, initializer=_worker_init, initargs=(scratch,)) as pool:
        res = pool.map(_worker, list(enumerate(cases)), chunksize=max(1, len(cases) // (n * 4)))
    return {i: (m, s, nested) for i, m, s, nested in res}


# ---------------------------------------------------------------- generators
NONFINAL_WALK = ["PENDING", "RUNNING", "RETRY", "PENDING", "RUNNING", "PAUSED", "RESUMED", "KILLED", "REROUTED", "PENDING"]
FINALS = ["SUCCESS", "FAILED", "CONCURRENCY_CONTROLLED_FINAL"]
TICKS = [0, 1, 1, 2, 7, D.PURGE_UNITS - 1, D.PURGE_UNITS, D.PURGE_UNITS + 1, D.PENDING_UNITS - 1, D.PENDING_UNITS,
         D.PENDING_UNITS + 1, D.DEAD_UNITS - 1, D.DEAD_UNITS, D.DEAD_UNITS + 1]
KV_CHOICES = [[], [(0, 1)], [(0, 1), (1, 1)], [(1, 2)], [(2, 1)], [(0, 2)], [(0, 1), (1, 3)]]


def gen_query(rng, ids):
    r = rng.random()
    sts = rng.sample(ST, rng.choice([0, 0, 1, 2, 3]))
    if r < 0.25:
        return ("q_existing", rng.randint(0, 1), rng.choice(KV_CHOICES), sts)
    if r < 0.5:
        return ("q_page", rng.choice([None, 0, 1]), sts, rng.randint(0, 4), rng.randint(0, 3))
    if r < 0.65:
        return ("q_count", rng.choice([None, 0, 1]), sts)
    if r < 0.85:
        return ("q_filter", rng.sample(ids, min(len(ids), rng.randint(0, 4))) if ids else [], rng.sample(ST, rng.randint(0, 5)))
    if r < 0.90:
        a = rng.choice([0, 0, 1, D.PURGE_UNITS, D.PENDING_UNITS])
        return (rng.choice(["q_hrange", "q_irange"]), a, a + rng.choice([0, 1, D.PENDING_UNITS, 100000]), rng.randint(1, 3))
    if r < 0.95:
        return ("q_blocking", rng.randint(0, 3))
    return ("q_active", rng.choice([None, True, False]))


def gen_guarded(rng, n):
    """stays (almost always) inside the theorem's domain: registrations of fresh or still-live invocations only (never of one
    that may have been auto-purged), nobody waits for itself, no direct release; unknown ids, re-registration and
    state-backend purges are all allowed"""
    ops, ever, live, owner = [], [], [], {}
    anyslot = lambda: rng.randrange(D.NSLOT)  # noqa: E731
    for _ in range(n):
        r = rng.random()
        fresh = [i for i in range(D.NSLOT) if i not in ever]
        if (r < 0.10 or not ever) and (fresh or live):
            pool = fresh + live
            ids = rng.sample(pool, rng.randint(1, min(3, len(pool))))
            ops.append(("reg", ids))
            for i in ids:
                if i not in ever:
                    ever.append(i)
                    live.append(i)
        elif r < 0.40 and ever:
            i = rng.choice(ever) if rng.random() < 0.95 else anyslot()
            if rng.random() < 0.12:
                st = rng.choice(FINALS + ["CONCURRENCY_CONTROLLED_FINAL"])
            else:
                st = rng.choice(NONFINAL_WALK) if rng.random() < 0.85 else rng.choice(ST)
            if st in FINALS and i in live:
                live.remove(i)
            rid = owner.get(i) if (i in owner and rng.random() < 0.8) else rng.choice(D.RUNNERS[:2])
            if st == "PENDING":
                owner[i] = rid
            ops.append(("set", i, st, rid))
        elif r < 0.46:
            ops.append(("idx", anyslot()))
        elif r < 0.50:
            ops.append(("incr", anyslot()))
        elif r < 0.56:
            ops.append(("hb", rng.sample(D.RUNNERS, rng.randint(0, 2)), rng.random() < 0.5))
        elif r < 0.68:
            ops.append(("tick", rng.choice(TICKS)))
        elif r < 0.72:
            if rng.random() < 0.5:
                ops.append(("tick", rng.choice([D.PURGE_UNITS, D.PURGE_UNITS + 1])))
            ops.append(("autopurge",))
        elif r < 0.79:
            w = anyslot()
            xs = [x for x in rng.sample(range(D.NSLOT), rng.randint(1, 2)) if x != w]
            ops.append(("wait", w, xs))
        elif r < 0.83:
            ops.append(("route", anyslot()))
        elif r < 0.87:
            ops.append(("retrieve",))
        elif r < 0.89:
            ops.append(("res", anyslot(), rng.randint(0, 3)))
        elif r < 0.91:
            ops.append(("exc", anyslot(), rng.randint(0, 1)))
        elif r < 0.93:
            ops.append(("wf", rng.choice(D.WFKEYS), rng.randint(0, 3)))
        elif r < 0.935:
            ops.append(("bpurge",))
        elif r < 0.94:
            ops.append(("opurge",))
            ever, live = [], []
        elif r < 0.945:
            ops.append(("sbpurge",))
        elif r < 0.955:
            ops += [("svc", rng.choice(D.RUNNERS)), ("q_svc",)]
        else:
            ops.append(gen_query(rng, list(range(D.NSLOT))))
    return ops


def gen_wild(rng, n):
    """anything goes: unknown ids, re-registration, direct release, purges, service windows"""
    ops = []
    for _ in range(n):
        r = rng.random()
        k = lambda: rng.randrange(D.NSLOT)  # noqa: E731
        if r < 0.12:
            ops.append(("reg", rng.sample(range(D.NSLOT), rng.randint(1, 3))))
        elif r < 0.38:
            ops.append(("set", k(), rng.choice(NONFINAL_WALK + FINALS) if rng.random() < 0.8 else rng.choice(ST), rng.choice(D.RUNNERS[:2])))
        elif r < 0.43:
            ops.append(("idx", k()))
        elif r < 0.47:
            ops.append(("incr", k()))
        elif r < 0.53:
            ops.append(("hb", rng.sample(D.RUNNERS, rng.randint(0, 2)), rng.random() < 0.5))
        elif r < 0.63:
            ops.append(("tick", rng.choice(TICKS)))
        elif r < 0.67:
            ops.append(("autopurge",))
        elif r < 0.765:
            ops.append(("wait", k(), rng.sample(range(D.NSLOT), rng.randint(0, 2))))
        elif r < 0.78:
            ops.append(("release", k()))
        elif r < 0.81:
            ops.append(("route", k()))
        elif r < 0.85:
            ops.append(("retrieve",))
        elif r < 0.87:
            ops.append(("res", k(), rng.randint(0, 3)))
        elif r < 0.89:
            ops.append(("exc", k(), rng.randint(0, 1)))
        elif r < 0.91:
            ops.append(("wf", rng.choice(D.WFKEYS), rng.randint(0, 3)))
        elif r < 0.93:
            ops.append((rng.choice(["bpurge", "opurge", "sbpurge"]),))
        elif r < 0.95:
            ops += [("svc", rng.choice(D.RUNNERS)), ("q_svc",)]
        else:
            ops.append(gen_query(rng, list(range(D.NSLOT))))
    return ops


# (a final status must be reachable inside a length-3 sequence: REGISTERED -> CONCURRENCY_CONTROLLED_FINAL is one step)
EXH_CORE = [("reg", [0, 1]), ("set", 0, "PENDING", "r1"), ("set", 0, "RUNNING", "r1"), ("wait", 1, [0]),
            ("tick", D.PENDING_UNITS), ("set", 0, "CONCURRENCY_CONTROLLED_FINAL", "zz"), ("tick", D.PURGE_UNITS), ("autopurge",)]
EXH_WIDE = EXH_CORE + [("idx", 0), ("reg", [2]), ("set", 1, "PENDING", "r2"), ("set", 1, "KILLED", "r2"), ("incr", 0), ("hb", ["r1"], True),
                       ("tick", D.DEAD_UNITS + 1), ("route", 0), ("retrieve",), ("res", 0, 1),
                       ("wf", 0, 2), ("opurge",), ("q_filter", [0, 1], ["PENDING", "SUCCESS"]),
                       ("q_existing", 0, [(0, 1)], ["REGISTERED", "PENDING"])]
# the two faces of the remaining known finding (the same sequences as the `..._refuted` theorems of Props/C16.v)
WITNESSES = {
    4: [("reg", [0, 1, 2]), ("wait", 0, [1]), ("release", 0), ("wait", 2, [0])],
    1: [("reg", [0, 1, 2]), ("wait", 0, [1]), ("set", 0, "CONCURRENCY_CONTROLLED_FINAL", "zz"), ("tick", D.PURGE_UNITS),
        ("autopurge",), ("reg", [0]), ("wait", 2, [0])],
}
# the witnesses of the seven REPAIRED divergences: kept as regression cases, compared strictly
REGRESSIONS = [
    [("reg", [0]), ("set", 0, "PENDING", "r1"), ("incr", 0), ("tick", 1), ("reg", [0])],                 # 34be5dc
    [("incr", 0)],                                                                                        # e9d135c
    [("reg", [1]), ("wait", 1, [0])],                                                                     # d1f591a
    [("reg", [0]), ("q_filter", [0, 1], ["REGISTERED"])],                                                 # 4e5e0b4
    [("reg", [0]), ("set", 0, "PENDING", "r1"), ("wf", 0, 1), ("sbpurge",)],                              # 481f807
    [("reg", [0]), ("set", 0, "CONCURRENCY_CONTROLLED_FINAL", "zz"), ("sbpurge",), ("tick", D.PURGE_UNITS), ("autopurge",),
     ("reg", [0])],                                                                                       # 69caea5
    [("svc", "r1"), ("q_svc",), ("tick", 3), ("hb", ["r1"], False), ("q_svc",)],                          # 4351c43
]


# hand-written scenarios for corners the short exhaustive part cannot reach (several filters combined, boundary instants)
SCENARIOS = [
    [("reg", [0, 1, 2, 4]), ("idx", 0), ("idx", 1), ("idx", 2), ("idx", 4), ("set", 1, "PENDING", "r1"),
     ("q_existing", 0, [(0, 1), (1, 1)], []), ("q_existing", 0, [(0, 1), (1, 2)], ["PENDING"]),
     ("q_existing", 0, [(0, 2)], ["REGISTERED"]), ("q_existing", 0, [(0, 1), (1, 3)], []), ("q_existing", 1, [(0, 1)], []),
     ("set", 1, "RUNNING", "r1"), ("set", 0, "PENDING", "r2"), ("q_existing", 0, [(0, 1)], ["PENDING", "RUNNING"]),
     ("q_page", 0, ["PENDING", "RUNNING", "REGISTERED"], 2, 1), ("q_count", 0, ["PENDING", "RUNNING"]),
     ("q_filter", [0, 1, 2, 4], ["RUNNING", "REGISTERED"])],
    [("reg", [0, 3]), ("set", 0, "PENDING", "r1"), ("set", 3, "PENDING", "r2"), ("hb", ["r1"], False), ("tick", D.PENDING_UNITS - 1),
     ("q_pending",), ("tick", 1), ("q_pending",), ("set", 0, "RUNNING", "r1"), ("set", 3, "RUNNING", "r2"), ("q_running",),
     ("tick", D.DEAD_UNITS - D.PENDING_UNITS), ("q_running",), ("tick", 1), ("q_running",), ("hb", ["r2"], True), ("q_running",),
     ("q_active", True), ("set", 0, "SUCCESS", "r1"), ("tick", D.PURGE_UNITS - 1), ("autopurge",), ("tick", 1), ("autopurge",)],
]


def interleavings(prefix, events):
    """all orders of a small event set after a common prefix: the wait graph x life cycle x purge corner is about ORDER
    (a wait declared before / after the awaited invocation finished, before / after it was purged, ...)"""
    return [list(prefix) + list(p) for p in itertools.permutations(events)]


# P = 0 finishes, W = 1 waits for P, X = 2 waits for W, time passes, auto purge / direct release of the finished P
WAIT_EVENTS = [("wait", 1, [0]), ("wait", 2, [1]), ("set", 0, "CONCURRENCY_CONTROLLED_FINAL", "zz"), ("tick", D.PURGE_UNITS),
               ("autopurge",)]
RELEASE_EVENTS = [("wait", 1, [0]), ("wait", 2, [1]), ("set", 0, "CONCURRENCY_CONTROLLED_FINAL", "zz"), ("release", 0)]


def gen_cases(ctx: Ctx):
    cases = []
    pre = [("reg", [0, 1, 2, 3]), ("set", 3, "CONCURRENCY_CONTROLLED_FINAL", "zz")]      # a second invocation that becomes due
    for sc in interleavings(pre, WAIT_EVENTS) + interleavings(pre, RELEASE_EVENTS):
        cases.append(("interleaving", sc))
    for cls, w in WITNESSES.items():
        cases.append(("witness", w))
    for w in REGRESSIONS:
        cases.append(("regression", w))
    for sc in SCENARIOS:
        cases.append(("scenario", sc))
    for n in (1, 2):
        for p in itertools.product(EXH_WIDE, repeat=n):
            cases.append(("exh", list(p)))
    for p in itertools.product(EXH_CORE if ctx.thorough else EXH_CORE[:6], repeat=3):
        cases.append(("exh", list(p)))
    if ctx.thorough:
        for p in itertools.product(EXH_CORE[:7], repeat=4):
            cases.append(("exh", list(p)))
    rng = ctx.rng
    n_g, n_w = (90, 60) if ctx.thorough else (14, 10)
    for k in range(n_g):
        cases.append(("guarded", gen_guarded(rng, 300 if (k % 7 == 0) else rng.randint(20, 120))))
    for k in range(n_w):
        cases.append(("wild", gen_wild(rng, rng.randint(10, 60))))
    return cases


# ---------------------------------------------------------------- comparison
def blocking_ok(op, impl, model):
    """get_blocking_invocations(n): any n of the candidates (the contract's order is implemented by neither backend)"""
    if model[0] != [4] or impl[0] != [4]:
        return impl == model
    cands, got, n = model[1], impl[1], op[1]
    return set(got) <= set(cands) and len(got) == min(max(n, 0), len(cands))


def same(op, impl, model):
    if op[0] == "q_blocking":
        return blocking_ok(op, impl, model)
    return impl == model


def check_case(ctx: Ctx, kind, case, mem, sql, model_val, stats):
    """STRICT: SQLite == reference model and in-memory == reference model on every answer.  The only tolerated difference:
    after the sequence has met guard class 1 / 4 (the remaining known finding) the in-memory backend may differ from the
    reference exactly as the index model (= transcription of the current code) predicts -> KNOWN-FINDING."""
    flat, owner = expand(case)
    I, R, (pos, cls0), (fpos, cls) = model_val[0], model_val[1], model_val[2][0][0], model_val[2][0][1]
    assert len(I) == len(R) == len(flat) == len(mem) == len(sql), (len(I), len(R), len(flat), len(mem), len(sql))
    stats["steps"] += len(flat)
    stats["inside_domain" if cls0 == 0 else {1: "leaves_domain_reregister_purged", 3: "leaves_domain_self_wait",
                                              4: "leaves_domain_release_live", 7: "leaves_domain_purge_loop"}[cls0]] += 1
    done_mem = done_sql = False
    idx_valid = True          # False once the real in-memory backend followed the reference where the index model has the quirk
    for j, op in enumerate(flat):
        in_domain = j < pos
        finding_zone = j >= fpos and cls in FINDING_CLASSES
        if op[0] in IMPL_ONLY:
            if mem[j] != sql[j] and not done_mem:
                done_mem = True
                ctx.violation(f"mem-vs-sqlite:{op[0]}", f"{op} (compared between the two implementations, no model): in-memory {mem[j]} vs SQLite {sql[j]} after {case[owner[j]]}",
                              {"ops": case[:owner[j] + 1], "probe": list(op), "backend": "mem", "observed": mem[j], "expected": sql[j]})
            continue
        i_v, r_v = norm_model(op, I[j]), norm_model(op, R[j])
        if i_v != r_v and not finding_zone:
            ctx.violation("models-disagree" + ("-inside-domain" if in_domain else ""),
                          f"index and relational model disagree at {op} where no finding is known",
                          {"ops": case[:owner[j] + 1], "probe": list(op), "backend": "mem", "index": i_v, "expected": r_v})
        if not done_sql and not same(op, sql[j], r_v):
            done_sql = True
            ctx.violation(f"sqlite:{case[owner[j]][0]}:{op[0]}",
                          f"SQLite backend differs from the reference model after {case[owner[j]]} at {op}: observed {sql[j]}, reference {r_v}",
                          {"ops": case[:owner[j] + 1], "probe": list(op), "backend": "sqlite", "observed": sql[j], "expected": r_v})
        if done_mem:
            continue
        if not same(op, mem[j], r_v):
            done_mem = True
            if finding_zone and idx_valid and same(op, mem[j], i_v):
                stats["finding_reproduced"] += 1
                ctx.violation(RELEASE_KEY,
                              f"in-memory backend leaves the contract (SQLite and the reference model agree): after {case[owner[j]]}, {op} gives {mem[j]}, "
                              f"reference {r_v}; first operation of guard class {cls}: {flat[fpos]}",
                              {"ops": case[:owner[j] + 1], "probe": list(op), "backend": "mem", "observed": mem[j], "expected": r_v,
                               "class": cls})
            else:
                ctx.violation(f"mem:{case[owner[j]][0]}:{op[0]}",
                              f"in-memory backend differs from the reference model{' INSIDE the theorem domain' if in_domain else ''}: "
                              f"after {case[owner[j]]}, {op} gives {mem[j]}, reference {r_v}, index model {i_v}",
                              {"ops": case[:owner[j] + 1], "probe": list(op), "backend": "mem", "observed": mem[j], "expected": r_v,
                               "index_model": i_v})
        elif idx_valid and not same(op, mem[j], i_v):
            # only possible in the finding zone (elsewhere i_v == r_v was demanded above): the tree has the release repair
            idx_valid = False
            stats["mem_follows_reference_in_finding_zone"] += 1
    return


def pos_flat(pos):
    return pos


def main(ctx: Ctx) -> int:
    world.quiet()
    ctx.prove("Props/C16.v")
    cases = gen_cases(ctx)
    if os.environ.get("C16_DEV"):                     # development aid only: a thinned-out case list
        k = int(os.environ["C16_DEV"])
        cases = [c for n, c in enumerate(cases) if c[0] != "exh" or n % k == 0]
    ctx.log(f"{len(cases)} sequences; {sum(len(c) for _, c in cases)} operations; read-out of {len(READOUT)} queries after each")
    scratch = world.scratch_dir()
    try:
        import threading
        impl_res: dict = {}
        tcases = TG.gen_cases(ctx.rng, ctx.thorough)
        th = threading.Thread(target=lambda: impl_res.update(run_impl([c for _, c in cases] + [("TRIGGER", tc) for _, tc in tcases], scratch)))
        th.start()
        # long sequences get a coqc process each (they dominate the wall time); the many short ones are batched
        heavy = [n for n, (_, c) in enumerate(cases) if len(c) > 12]
        light = [n for n, (_, c) in enumerate(cases) if len(c) <= 12]
        heavy.sort(key=lambda n: -len(cases[n][1]))
        vals: list = [None] * len(cases)
        hv = ctx.coq_eval(IMPORTS, [coq_expr(cases[n][1]) for n in heavy], chunk=1, scope="nat_scope", timeout=1500)
        lv = ctx.coq_eval(IMPORTS, [coq_expr(cases[n][1]) for n in light], chunk=max(1, len(light) // (NCPU * 3) + 1),
                          scope="nat_scope", timeout=1500)
        for n, v in zip(heavy, hv):
            vals[n] = v
        for n, v in zip(light, lv):
            vals[n] = v
        ctx.log("models evaluated")
        th.join()
        ctx.log("implementations done")
    finally:
        world.rm_scratch(scratch)
    stats: dict = {"steps": 0, "inside_domain": 0, "leaves_domain_reregister_purged": 0, "leaves_domain_self_wait": 0,
                   "leaves_domain_release_live": 0, "leaves_domain_purge_loop": 0, "finding_reproduced": 0,
                   "mem_follows_reference_in_finding_zone": 0}
    kinds: dict = {}
    for n, ((kind, case), val) in enumerate(zip(cases, vals)):
        mem, sql, nested = impl_res[n]
        kinds[kind] = kinds.get(kind, 0) + 1
        if nested:
            flat, owner = expand(case)
            j, ev = nested[0]
            stats["nested_writes"] = stats.get("nested_writes", 0) + len(nested)
            ctx.violation(NESTED_KEY,
                          f"SQLite backend: during {flat[j]} a second connection to the same database file writes ({ev[0]!r}) while the "
                          "operation's own connection holds an open write transaction; on real separate connections the inner write blocks on "
                          "the outer lock until the 30 s busy timeout (x retries) and fails with 'database is locked', nothing of the operation "
                          "is committed (the harness shares one connection per file, so it only records the nesting and does not wait)",
                          {"ops": case[:owner[j] + 1], "probe": ["q_count", None, []], "backend": "sqlite", "nested_writes": ev,
                           "observed": "nested write inside an open write transaction", "expected": "no nested write"})
        check_case(ctx, kind, case, mem, sql, val, stats)
        if kind == "guarded" and len(ctx.coverage["samples"]) < 3:
            ctx.sample({"kind": kind, "ops": case[:10], "length": len(case)})
    # ---- trigger store: Mem vs SQLite directly
    t_steps = 0
    t_ops: dict = {}
    for k, (fkey, tc) in enumerate(tcases):
        mem_t, sql_t, _ = impl_res[len(cases) + k]
        t_steps += len(tc)
        for o in tc:
            t_ops[o[0]] = t_ops.get(o[0], 0) + 1
        d = TG.first_difference(mem_t, sql_t)
        if d:
            j, what, a, b = d
            ctx.violation(fkey or f"trigger:{tc[j][0]}:{what.split('[')[0]}",
                          f"trigger store: after {tc[j]} the two stores differ at {what}: in-memory {json.dumps(a)[:300]} vs SQLite {json.dumps(b)[:300]}",
                          {"component": "trigger", "ops": [list(o) for o in tc[:j + 1]], "probe": what, "backend": "mem-vs-sqlite",
                           "observed": a, "expected": b})
    ctx.count(t_steps * 2 * 50, len({json.dumps(tc) for _, tc in tcases}))
    ctx.notes["trigger_store"] = {"sequences": len(tcases), "operations": t_steps, "operation_histogram": t_ops,
                                  "readout_values_per_operation": 50, "comparison": "MemTrigger vs SQLiteTrigger, by value, no model"}
    lens: dict = {}
    opk: dict = {}
    for _, c in cases:
        b = "1-3" if len(c) <= 3 else "4-20" if len(c) <= 20 else "21-120" if len(c) <= 120 else "121-300"
        lens[b] = lens.get(b, 0) + 1
        for o in c:
            opk[o[0]] = opk.get(o[0], 0) + 1
    ctx.count(stats["steps"] * 2, len({json.dumps(c) for _, c in cases}))
    ctx.notes["sequences"] = {"by_kind": kinds, "length_histogram": lens, "operation_histogram": opk,
                              "readout_queries_per_operation": len(READOUT), "stats": stats}
    ctx.assumptions += [
        "universes: 6 invocation slots (2 tasks, 5 calls, argument keys a/b/x with values 1/2), runners r1..r3 + the client's own context",
        "time on a 1/64 s grid (exact in binary64, datetime microseconds and SQLite REAL); auto-purge after 225, pending limit 320, runner dead after 960 units",
        "history entries are stamped with the virtual time + 1 microsecond per state-changing operation since the last tick: equal inside one operation, distinct across operations",
        "pages are compared as their timestamp sequences (order among equal timestamps is open), get_blocking_invocations(n) as 'any n of the candidates'",
        "history entries are written by pynenc's own writer threads; the harness joins them after every operation",
    ]
    ctx.trusted += ["harness/c16_driver.py:ConnCache (connection reuse per thread+file; SQL text, PRAGMAs, BEGIN IMMEDIATE, commit/rollback are pynenc's own; "
                    "a write through a connection requested inside another user's open write transaction is reported as a violation instead of waiting for the busy timeout)",
                    "SQLite engine; harness/vclock.py"]
    return ctx.finish(
        rule="one case = one operation sequence run from an empty application on MemX, SQLiteX, the index model and the relational model, "
             "every operation followed by the full read-out; evaluations = (operations + read-out queries) x 2 backends; "
             "distinct_nontrivial = distinct sequences; all orders of the wait-graph x final status x purge/release event sets; exhaustive part: all sequences up to length 2 over the 22-operation alphabet and all of "
             "length 3 over a 6-operation core (thorough: length 3 over the 8-operation core, length 4 over 7 of them); random part: guarded walks (inside the theorem's domain) up to 300 operations and wild walks")


def replay(ctx: Ctx, path: str) -> int:
    world.quiet()
    rp = json.load(open(path))["replay"]
    if rp.get("component") == "trigger":
        scratch = world.scratch_dir()
        try:
            _worker_init(scratch)
            case = [tuple(o) for o in rp["ops"]]
            m = TG.run_case(_W["impls"]["mem"], case)
            s = TG.run_case(_W["impls"]["sqlite"], case)
            for op, a, b in zip(case, m, s):
                print(f"{op!r}: mem -> {a[0]}   sqlite -> {b[0]}")
            print("first difference (step, what, mem, sqlite):", TG.first_difference(m, s))
        finally:
            world.rm_scratch(scratch)
        return 0
    case = [tuple(o) for o in rp["ops"]]
    probe = tuple(rp["probe"])
    scratch = world.scratch_dir()
    try:
        _worker_init(scratch)
        for kind in ("mem", "sqlite"):
            im = _W["impls"][kind]
            im.reset()
            for op in case:
                r = im.do(op)
                im.flush()
                print(f"{kind:6s} {op!r} -> {r}")
            if kind == "sqlite" and _W["cache"].events:
                print(f"sqlite nested writes inside an open write transaction: {_W['cache'].pop_events()}")
            print(f"{kind:6s} probe {probe!r} -> {im.do(probe)}    (reference model: {rp.get('expected')}; recorded on {rp.get('backend')}: {rp.get('observed')})")
        _W["cache"].uninstall()
        _W["hclock"].uninstall()
        _W["tclock"].uninstall()
        _W["clock"].uninstall()
    finally:
        world.rm_scratch(scratch)
    return 0

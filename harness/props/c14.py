"""C14 — process-based runners keep their worker pool at capacity when workers die; heartbeats
only on behalf of live workers.

proof: Props/C14.v over the loop bodies / heartbeat selectors generated from the runner sources
       (gen/Pool_gen.v) interpreted by Model/Pool.v.
tie:   the REAL MultiThreadRunner / PersistentProcessRunner / ProcessRunner objects are driven
       through on_start / runner_loop_iteration / _report_child_runner_heartbeats with
       multiprocessing.Process / Manager / cpu_count replaced in the runner modules by
       controllable stand-ins; death sequences (any subset, repeatedly, all at once), queue
       changes and configurations are generated (exhaustive two-round subsets for small pools +
       seeded random histories); after EVERY event the tracked workers, their liveness, the broker
       queue length and the ids passed to register_runner_heartbeats are compared with the model
       (`traceG`, Eval vm_compute), and an oracle that does not use the model checks the property
       statement on the observations.
ids:   a worker is identified by its RUNNER ID (the key of child_runner_ids, numbered by first
       appearance), not by its process: the oracle remembers every id whose process was seen dead and
       no later call of register_runner_heartbeats may name it (a replacement process tracked under
       the id of the worker it replaces keeps the dead worker's invocations unrecoverable).  The
       source of the ids of new workers is a generated fact (gen/PoolIds_gen.v) under every theorem.
recov: "so the unfinished invocations of dead workers become recoverable" is also observed end to end:
       workers take invocations and set them RUNNING as the worker processes do, die, the parent
       keeps cycling (clock tick, heartbeat report, loop iteration) on a harness-owned clock, and
       get_running_invocations_for_recovery() must list the invocation once the dead-runner timeout
       has passed since the death.
"""
from __future__ import annotations

import contextlib
import itertools
import json
import signal
import threading
import warnings

from harness import world
from harness.common import Ctx
from harness.translate import pool_loops
from harness.vclock import VirtualClock

GENERATED = [("harness.translate.pool_loops", "translate", "gen/Pool_gen.v"),
             ("harness.translate.pool_loops", "translate_ids", "gen/PoolIds_gen.v")]

MANIFEST = {
    "technique": "Coq proof over loop bodies and worker-id sources generated from the runner sources + differential run of the real "
                 "runners on process stand-ins and a harness-owned clock",
    "text": "Machine-checked theorems (Props/C14.v) about Model/Pool.v instantiated with the runner_loop_iteration bodies, the "
            "get_active_child_runner_ids selectors (gen/Pool_gen.v) and the source of the runner ids of new workers (gen/PoolIds_gen.v: "
            "fresh uuid4 per spawn vs an id taken back from a forgotten worker) regenerated from multi_thread_runner.py, "
            "persistent_process_runner.py, process_runner.py, base_runner.py and runner_context.py on every run: for EVERY history of "
            "worker deaths (any subsets, repeatedly, all at once), queue changes, iterations and heartbeats, one or more further "
            "iterations leave no dead worker tracked and the configured number alive (persistent: exactly num_processes; process "
            "runner: full or queue empty, exactly min(free, waiting) picked up; multi-thread: decided by the generated loop body — "
            "restored if it prunes before scaling, refuted by a closed witness if it only scales up); a dead worker's RUNNER ID is "
            "untracked by the next iteration and never tracked or heart-beaten again, by whatever process (all stated over the "
            "generated id sources through the fact worker_ids_are_fresh; with recycled ids the same loop is proved to report a dead "
            "worker's id again). Tie: the real runner classes are driven through on_start / runner_loop_iteration / "
            "_report_child_runner_heartbeats with Process/Manager/cpu_count stand-ins; every observation (tracked runner ids, "
            "liveness, queue length, ids passed to register_runner_heartbeats) is compared with the model after every event, "
            "exhaustive over death subsets for small pools plus seeded random histories; a model-independent oracle evaluates the "
            "statement on the real observations, following runner ids over time (an id whose process was seen dead never gets "
            "another heartbeat, also when a live replacement is tracked under it) and, end to end, requiring that a RUNNING "
            "invocation taken by a worker that died is listed by get_running_invocations_for_recovery() once the dead-runner timeout "
            "has passed while the parent keeps cycling (every non-empty owner subset x death subset for small pools, two timings, "
            "second death round of the replacements).",
    "note": "Trusted: Coq kernel; AST translators of the loop bodies and of the worker-id sources (fail-closed, two generated files so "
            "that one degrading does not hide the other); hand mirror of _scale_up_processes / _cleanup_dead_processes / spawn helpers / "
            "_on_start capacity resolution in Model/Pool.v (tied by the differential run + AST shape hashes); IdRecycled is modelled as "
            "last-forgotten-first reuse (other reuse orders show up as oracle violations / model mismatches, not as proofs); process "
            "stand-ins (is_alive/start/join/terminate/kill/pid) in place of OS processes; the worker's own part (context, first "
            "heartbeat, taking an invocation, RUNNING) is played by the harness with the real orchestrator calls on the in-memory "
            "backend under a harness-owned clock; real death, Process.is_alive semantics and the child processes' own code are outside "
            "the model. Fixed finding (defect #2, afe09cc): MultiThreadRunner.runner_loop_iteration never pruned dead workers.",
    "design_ref": "DESIGN.md §6 C14",
}

IMPORTS = ["Model.Pool", "gen.Pool_gen", "gen.PoolIds_gen"]
DEAD_AFTER_MIN = 1.0   # runner_considered_dead_after_minutes of every app built here (harness-owned clock)
WORKER_CLS = {"mtr": "ThreadRunner", "ppr": "PPRWorker", "pr": "ProcessRunnerWorker"}
SETTLE = 3          # "within the next loop iterations": the oracle looks at the 3rd consecutive iteration
KNOWN_KEY = "mtr:dead-workers-still-tracked"


# ---------------------------------------------------------------- stand-ins
class FakeManager:
    def dict(self, *a, **k):
        return dict(*a, **k)

    def Event(self):
        return threading.Event()

    def shutdown(self):
        return None


class _OsShim:
    """`os` as seen from persistent_process_runner: cpu_count is controlled, the rest is real."""

    def __init__(self, real, cpu):
        self._real, self._cpu = real, cpu

    def cpu_count(self):
        return self._cpu

    def __getattr__(self, name):
        return getattr(self._real, name)


class World:
    """One real runner of `kind` on a fresh in-memory app, with process stand-ins and a harness-owned clock.

    A worker is identified by its RUNNER ID — the key under which the parent tracks it in child_runner_ids —
    numbered by first appearance (`ord`).  The stand-in processes have their own serial numbers; with a fresh id
    per spawn the two numberings coincide, and the oracle does not rely on that."""

    def __init__(self, kind: str, params: dict):
        self.kind, self.params = kind, dict(params)
        self.procs: list = []          # stand-in processes in creation order
        self.hb_calls: list = []       # ids passed to register_runner_heartbeats since last reset
        self.ord: dict[str, int] = {}  # runner id -> ordinal by first appearance in child_runner_ids
        self.claims: list = []         # (invocation id, owner ordinal): invocations set RUNNING by a worker
        self.clock = VirtualClock()
        self._stack = contextlib.ExitStack()
        w = self

        class FakeProcess:
            def __init__(self, group=None, target=None, name=None, args=(), kwargs=None, *, daemon=None):
                self.serial = len(w.procs)
                self.target, self.args, self.kwargs, self.daemon = target, args, kwargs or {}, daemon
                self._alive = False
                self.pid = None
                self.exitcode = None
                w.procs.append(self)

            def start(self):
                self._alive = True
                self.pid = 10_000 + self.serial

            def is_alive(self):
                return self._alive

            def join(self, timeout=None):
                return None

            def terminate(self):
                self.die(-15)

            def kill(self):
                self.die(-9)

            def die(self, code=None):
                # "for whatever reason": SIGKILL, error exit, clean exit, SIGTERM — varies with the worker
                if self._alive:
                    self._alive = False
                    self.exitcode = (-9, 1, 0, -15)[self.serial % 4] if code is None else code

        self.FakeProcess = FakeProcess

    def __enter__(self):
        import pynenc.runner.multi_thread_runner as m_mtr
        import pynenc.runner.persistent_process_runner as m_ppr
        import pynenc.runner.process_runner as m_pr
        from harness import tasks_basic
        st = self._stack
        pr = self.params
        cpu = pr.get("cpu", 4)
        mod = {"mtr": m_mtr, "ppr": m_ppr, "pr": m_pr}[self.kind]
        st.enter_context(self.clock)
        st.enter_context(_patched(mod, "Process", self.FakeProcess))
        st.enter_context(_patched(mod, "Manager", FakeManager))
        if self.kind == "ppr":
            st.enter_context(_patched(mod, "os", _OsShim(mod.os, cpu or None)))
        else:
            st.enter_context(_patched(mod, "cpu_count", lambda: cpu))
        cfg = {"runner_loop_sleep_time_sec": 0.0, "runner_considered_dead_after_minutes": DEAD_AFTER_MIN}
        if self.kind == "mtr":
            cfg.update(min_processes=pr["min_processes"], max_processes=pr["max_processes"],
                       enforce_max_processes=bool(pr["enforce"]))
            cls = m_mtr.MultiThreadRunner
        elif self.kind == "ppr":
            cfg.update(min_parallel_slots=pr["min_parallel_slots"], num_processes=pr["num_processes"])
            cls = m_ppr.PersistentProcessRunner
        else:
            cfg.update(min_parallel_slots=pr["min_parallel_slots"])
            cls = m_pr.ProcessRunner
        self.app = world.make_app("mem", **cfg)
        self.task = tasks_basic.bind(self.app, tasks_basic.add_one)
        self.n_routed = 0
        self.runner = cls(self.app)
        orch = self.app.orchestrator
        real_reg = orch.register_runner_heartbeats
        self._real_reg = real_reg

        def recording(runner_ids, *a, **k):
            self.hb_calls.append(list(runner_ids))
            return real_reg(runner_ids, *a, **k)
        st.enter_context(_patched(orch, "register_runner_heartbeats", recording, instance=True))
        # real start code (on_start installs signal handlers when on the main thread: restore them afterwards)
        saved = {s: signal.getsignal(s) for s in (signal.SIGINT, signal.SIGTERM)} \
            if threading.current_thread() is threading.main_thread() else {}
        try:
            with warnings.catch_warnings():
                warnings.simplefilter("ignore")
                self.runner.on_start()
        finally:
            for s, h in saved.items():
                signal.signal(s, h)
        self._scan()
        return self

    def __exit__(self, *exc):
        try:
            sb = self.app.state_backend
            if hasattr(sb, "wait_for_all_async_operations"):
                sb.wait_for_all_async_operations()
        except Exception:  # noqa: BLE001 - teardown only
            pass
        self._stack.close()
        return False

    # -- observations
    def _proc(self, v):
        return v.process if hasattr(v, "process") else v

    def _scan(self):
        for rid in self.runner.child_runner_ids:
            if rid not in self.ord:
                self.ord[rid] = len(self.ord)

    def rid_of(self, o):
        """the runner id with ordinal o if it is tracked now"""
        for rid in self.runner.child_runner_ids:
            if self.ord.get(rid) == o:
                return rid
        return None

    def tracked(self):
        self._scan()
        return [[self.ord[rid], 1 if self._proc(v).is_alive() else 0]
                for rid, v in self.runner.child_runner_ids.items()]

    def tracked_procs(self):
        """[[id ordinal, process serial]] of the tracked workers"""
        return [[self.ord[rid], self._proc(v).serial] for rid, v in self.runner.child_runner_ids.items()]

    def queue(self):
        return self.app.broker.count_invocations()

    def claims_obs(self):
        """[[claim index, owner id ordinal, 1 if still RUNNING, 1 if listed by get_running_invocations_for_recovery()]]"""
        if not self.claims:
            return []
        from pynenc.invocation.status import InvocationStatus
        orch = self.app.orchestrator
        recoverable = set(orch.get_running_invocations_for_recovery())
        out = []
        for k, (inv_id, o) in enumerate(self.claims):
            running = orch.get_invocation_status(inv_id) == InvocationStatus.RUNNING
            out.append([k, o, 1 if running else 0, 1 if inv_id in recoverable else 0])
        return out

    # -- the worker process's part: take an invocation and set it RUNNING under the worker's runner id
    def _claim(self, o):
        from pynenc.invocation.status import InvocationStatus
        rid = self.rid_of(o)
        if rid is None or any(c[1] == o for c in self.claims):
            return
        entry = self.runner.child_runner_ids[rid]
        if not self._proc(entry).is_alive():
            return
        orch = self.app.orchestrator
        ctx = self.runner.runner_context.new_child_context(WORKER_CLS[self.kind], runner_id=rid)
        if self.kind == "pr":
            inv_id = entry.invocation_id        # reserved for this worker by the parent's loop iteration
        else:
            # what the worker's main function does first: store its context, register its own first heartbeat
            self.app.state_backend.store_runner_context(ctx)
            self._real_reg([rid])
            self.n_routed += 1
            self.task(self.n_routed)
            got = list(orch.get_invocations_to_run(1, ctx))
            if not got:
                return
            inv_id = got[0].invocation_id
        orch.set_invocation_status(inv_id, InvocationStatus.RUNNING, ctx)
        self.claims.append((inv_id, o))

    # -- events
    def apply(self, ev):
        """returns (tracked [[id, alive]], queue, heartbeat ids (EBeat), ids registered during the event, extra)"""
        kind = ev[0]
        self.hb_calls.clear()
        if kind == "kill":
            for o in ev[1]:
                rid = self.rid_of(o)
                if rid is not None:
                    self._proc(self.runner.child_runner_ids[rid]).die()
        elif kind == "enqueue":
            for _ in range(ev[1]):
                self.n_routed += 1
                self.task(self.n_routed)
        elif kind == "drain":
            self.app.broker.purge()
        elif kind == "iter":
            self.runner.runner_loop_iteration()
        elif kind == "beat":
            self.runner._report_child_runner_heartbeats()
        elif kind == "claim":
            for o in ev[1]:
                self._claim(o)
        elif kind == "tick":
            self.clock.advance(float(ev[1]))
        else:
            raise ValueError(kind)
        self._scan()
        reported = [self.ord.get(i, -1) for call in self.hb_calls for i in call]
        extra = {"procs": self.tracked_procs(), "now": self.clock.now, "claims": self.claims_obs()}
        return self.tracked(), self.queue(), (reported if kind == "beat" else []), reported, extra


@contextlib.contextmanager
def _patched(obj, name, value, instance=False):
    missing = object()
    old = obj.__dict__.get(name, missing) if instance else getattr(obj, name)
    setattr(obj, name, value)
    try:
        yield
    finally:
        if old is missing:
            delattr(obj, name)
        else:
            setattr(obj, name, old)


# ---------------------------------------------------------------- oracle (model-independent)
def configured(kind: str, pr: dict) -> dict:
    """the configured numbers as documented (docs/reference/runners.md, config_runner.py)"""
    if kind == "mtr":
        return {"cap": pr["max_processes"] or pr["cpu"], "enforce": bool(pr["enforce"])}
    if kind == "ppr":
        return {"cap": max(pr["min_parallel_slots"], pr["num_processes"] or pr["cpu"] or 1)}
    return {"cap": max(pr["min_parallel_slots"], pr["cpu"])}


def oracle(kind: str, pr: dict, events: list, obs: list, stats: dict | None = None) -> list[tuple[str, str, int]]:
    """-> [(key, what, event index)]; obs[i] = (tracked [[id, alive]], queue, beat, registered, extra) after events[i].
    Ids are RUNNER IDS (ordinals by first appearance).  `died[id]` = (event index, clock) at which the process tracked
    under that id was first seen dead: from then on the id stands for a dead worker, whatever is tracked under it later."""
    conf = configured(kind, pr)
    timeout = DEAD_AFTER_MIN * 60.0
    out = []
    consecutive = 0
    died: dict[int, tuple[int, float]] = {}
    st = stats if stats is not None else {}
    for i, (ev, ob) in enumerate(zip(events, obs)):
        tracked, queue, beat, registered = ob[:4]
        extra = ob[4] if len(ob) > 4 else {}
        alive_now = {s for s, a in tracked if a}
        tracked_dead = {s for s, a in tracked if not a}
        consecutive = consecutive + 1 if ev[0] == "iter" else 0
        if ev[0] == "beat":
            # state is unchanged by a heartbeat report: alive_now is the liveness at the time of the call
            bad = [s for s in beat if s not in alive_now]
            if bad:
                out.append((f"hb:{kind}:dead-worker-reported",
                            f"{kind}: _report_child_runner_heartbeats passed worker(s) {bad} to register_runner_heartbeats; "
                            f"tracked [id, alive] = {tracked}", i))
        elif registered:
            bad = [s for s in registered if s not in alive_now]
            if bad:
                out.append((f"hb:{kind}:dead-worker-registered",
                            f"{kind}: event {ev} registered a heartbeat for worker(s) {bad} that are not alive afterwards; "
                            f"tracked = {tracked}", i))
        # follow the ids: an id whose process died earlier must never get another heartbeat, also when a live
        # (replacement) process is tracked under it now
        st["heartbeat_ids_checked_against_dead_ids"] = st.get("heartbeat_ids_checked_against_dead_ids", 0) + len(registered)
        again = sorted({s for s in registered if s in died and s not in tracked_dead})
        if again:
            procs = {o: sr for o, sr in extra.get("procs", [])}
            out.append((f"hb:{kind}:dead-worker-id-heartbeat-after-death",
                        f"{kind} {pr}: event {i} {ev} passed runner id(s) {again} to register_runner_heartbeats although the "
                        f"worker process(es) of these ids died at event(s) {[died[s][0] for s in again]}; now tracked under these "
                        f"ids: process serial(s) {[procs.get(s) for s in again]} (a replacement carrying the dead worker's id "
                        f"keeps its heartbeat alive: its unfinished invocations never become recoverable); tracked={tracked}", i))
        for s in tracked_dead:
            if s not in died:
                died[s] = (i, extra.get("now", 0.0))
                st["ids_seen_dead"] = st.get("ids_seen_dead", 0) + 1
        # end to end: the RUNNING invocation of a dead worker is recoverable once the dead-runner timeout has passed
        for k, owner, running, recoverable in extra.get("claims", []):
            if owner in died and running:
                overdue = extra["now"] - died[owner][1] > timeout
                if overdue:
                    st["recoverability_judgements"] = st.get("recoverability_judgements", 0) + 1
                    if not recoverable:
                        out.append((f"recover:{kind}:dead-workers-invocation-not-recoverable",
                                    f"{kind} {pr}: worker id {owner} died at event {died[owner][0]} "
                                    f"({extra['now'] - died[owner][1]:.0f} s ago, dead-runner timeout {timeout:.0f} s) while its "
                                    f"invocation (claim {k}) was RUNNING; after event {i} {ev} get_running_invocations_for_recovery() "
                                    f"does not list it; tracked={tracked}", i))
        if ev[0] == "iter" and consecutive >= SETTLE:
            dead_tracked = [s for s, a in tracked if not a]
            live = len(alive_now)
            if dead_tracked:
                out.append((f"{kind}:dead-workers-still-tracked",
                            f"{kind} {pr}: after {consecutive} consecutive loop iterations dead worker(s) {dead_tracked} are still "
                            f"tracked; live={live}, configured={conf['cap']}, queue={queue}", i))
                continue
            if kind == "mtr":
                need = conf["cap"] if conf["enforce"] else min(queue, conf["cap"])
                ok = live >= need
                what = f"live={live} < demanded={need}"
            elif kind == "ppr":
                ok = live == conf["cap"]
                what = f"live={live} != num_processes={conf['cap']}"
            else:
                ok = live <= conf["cap"] and (live == conf["cap"] or queue == 0)
                what = f"live={live}, capacity={conf['cap']}, still queued={queue}"
            if not ok:
                out.append((f"{kind}:pool-not-at-capacity",
                            f"{kind} {pr}: after {consecutive} consecutive loop iterations {what}; tracked={tracked}", i))
    return out


# ---------------------------------------------------------------- model side
def coq_cfg(kind: str, pr: dict) -> str:
    if kind == "mtr":
        return f"(mtr_cfg {pr['min_processes']} {pr['max_processes']} {pr['cpu']} {'true' if pr['enforce'] else 'false'})"
    if kind == "ppr":
        return f"(ppr_cfg {pr['min_parallel_slots']} {pr['num_processes']} {pr['cpu']})"
    return f"(pr_cfg {pr['min_parallel_slots']} {pr['cpu']})"


def coq_events(events: list) -> str:
    def one(ev):
        if ev[0] == "kill":
            return "EKill [" + "; ".join(str(s) for s in ev[1]) + "]"
        if ev[0] == "enqueue":
            return f"EEnqueue {ev[1]}"
        if ev[0] in ("claim", "tick"):
            # no pool effect: a worker routing+taking one invocation leaves the queue length as it was; the clock is
            # not part of the pool
            return "EEnqueue 0"
        return {"drain": "EDrain", "iter": "EIter", "beat": "EBeat"}[ev[0]]
    return "[" + "; ".join(one(e) for e in events) + "]"


def coq_case(kind: str, pr: dict, events: list, ops: str | None = None, sel: str | None = None,
             src: str | None = None) -> str:
    c = coq_cfg(kind, pr)
    return (f"(obs_pool (start {c}), traceG {src or kind + '_id_src'} {c} {ops or kind + '_loop_ops'} "
            f"{sel or kind + '_hb_sel'} (start {c}) {coq_events(events)})")


def model_self_test(ctx: Ctx, runs) -> dict:
    """Thorough tier: the comparison must notice deliberately wrong models (a loop without the prune, a heartbeat
    selector that reports every tracked worker, replacements that take over the ids of forgotten workers) on the
    traces just recorded from the real runners."""
    out = {}
    for name, kind, ops, sel, src in (("ppr_loop_without_prune", "ppr", "[LSpawnTo]", None, None),
                                      ("pr_heartbeat_for_all_tracked", "pr", None, "HbAll", None),
                                      ("ppr_recycled_worker_ids", "ppr", None, None, "IdRecycled"),
                                      ("mtr_recycled_worker_ids", "mtr", None, None, "IdRecycled"),
                                      ("pr_recycled_worker_ids", "pr", None, None, "IdRecycled")):
        sub = [r for r in runs if r[0] == kind][:120]
        vals = ctx.coq_eval(IMPORTS, [coq_case(k, pr, ev, ops, sel, src) for k, pr, ev, _s, _o in sub], chunk=60)
        differ = 0
        for (_k, _pr, _ev, start, obs), v in zip(sub, vals):
            model_trace = [[[list(x) for x in t], q, list(h)] for (t, q, h) in v[1]]
            if [list(x) for x in v[0]] != start or model_trace != [[o[0], o[1], o[2]] for o in obs]:
                differ += 1
        out[name] = {"cases": len(sub), "detected": differ}
        if differ == 0:
            from harness.common import CheckError
            raise CheckError(f"self-test: the wrong model {name} was not told apart from the implementation")
    return out


def norm_model(v):
    start, tr = v
    return [list(map(list, start))], [[list(map(list, t)), q, list(h)] for (t, q, h) in ((x[0], x[1], x[2]) for x in tr)]


# ---------------------------------------------------------------- case generation (online: kills pick from what is tracked)
class Script:
    """A case = configuration + a function producing the next event from the current observation."""

    def __init__(self, kind, params, plan):
        self.kind, self.params, self.plan = kind, params, plan   # plan: list of event templates


def resolve(template, tracked, n_issued, rng):
    """event template -> concrete event (kill templates choose among the currently tracked workers)"""
    t = template[0]
    if t == "kill_mask":        # bitmask over the currently tracked workers (exhaustive stream)
        ids = [s for k, (s, _a) in enumerate(tracked) if template[1] >> k & 1]
        return ["kill", ids]
    if t == "kill_all":
        return ["kill", [s for s, _ in tracked]]
    if t == "kill_random":
        ids = [s for s, _ in tracked if rng.random() < template[1]]
        if rng.random() < 0.15:
            ids.append(rng.randrange(0, n_issued + 3))      # an id that is forgotten, dead already or not issued yet
        return ["kill", sorted(set(ids))]
    if t == "kill_one":
        return ["kill", [rng.choice(tracked)[0]] if tracked else []]
    if t == "claim_mask":       # the tracked workers selected by the bitmask each take an invocation and set it RUNNING
        return ["claim", [s for k, (s, _a) in enumerate(tracked) if template[1] >> k & 1]]
    if t == "claim_random":
        return ["claim", [s for s, a in tracked if a and rng.random() < template[1]]]
    return list(template)


def exhaustive_plans(ctx: Ctx):
    """two rounds of deaths; in each round EVERY subset of the tracked workers dies; heartbeat before and after."""
    cases = []
    tail = [["iter"]] * SETTLE + [["beat"]]
    ppr = [(1, 1, 4), (1, 2, 4), (1, 3, 4), (2, 0, 2), (3, 2, 1)] + ([(1, 4, 4)] if ctx.thorough else [])
    for ms, n, cpu in ppr:
        size = max(ms, n or cpu or 1)
        for m1 in range(2 ** size):
            for m2 in range(2 ** size):
                plan = [["kill_mask", m1], ["beat"], ["iter"], ["kill_mask", m2], ["beat"]] + tail
                cases.append(("ppr", {"min_parallel_slots": ms, "num_processes": n, "cpu": cpu}, plan))
    mtr = [(1, 2, 4, True), (2, 2, 4, True), (0, 0, 2, True), (2, 3, 4, False), (1, 2, 4, False), (3, 2, 4, True)]
    if ctx.thorough:
        mtr += [(2, 3, 4, True), (0, 3, 4, False), (3, 0, 3, False)]
    for mn, mx, cpu, enf in mtr:
        size = max(mn, (mx or cpu)) if enf else max(mn, mx or cpu)
        for q in ((0,) if enf else (0, 2, 5)):
            for m1 in range(2 ** size):
                for m2 in (range(2 ** size) if size <= 2 or ctx.thorough else (0, 2 ** size - 1, 1)):
                    plan = ([["enqueue", q]] if q else []) + [["iter"], ["kill_mask", m1], ["beat"], ["iter"],
                                                               ["kill_mask", m2], ["beat"]] + tail
                    cases.append(("mtr", {"min_processes": mn, "max_processes": mx, "cpu": cpu, "enforce": enf}, plan))
    for ms, cpu in [(1, 2), (3, 2), (1, 3)]:
        size = max(ms, cpu)
        for q1, q2 in ((size + 1, 0), (size - 1, 2), (1, size + 2)):
            for m1 in range(2 ** size):
                for m2 in (range(2 ** size) if size <= 2 or ctx.thorough else (0, 2 ** size - 1, 2)):
                    plan = [["enqueue", q1], ["iter"], ["kill_mask", m1], ["beat"], ["iter"]] \
                        + ([["enqueue", q2]] if q2 else []) + [["kill_mask", m2], ["beat"]] + tail
                    cases.append(("pr", {"min_parallel_slots": ms, "cpu": cpu}, plan))
    return cases


def cycles(dt, n):
    """what BaseRunner.run() does each cycle, on the harness-owned clock: (time passes) heartbeat report, loop iteration"""
    return [["tick", dt], ["beat"], ["iter"]] * n


def recovery_plans(ctx: Ctx):
    """workers take invocations (RUNNING under their runner id); EVERY non-empty subset of the pool dies; the parent
    keeps cycling past the dead-runner timeout (many short cycles / one long one); optionally a second death round
    in the middle.  Judged by the id-following heartbeat oracle and by get_running_invocations_for_recovery()."""
    cases = []
    T = DEAD_AFTER_MIN * 60.0
    timings = [cycles(T / 2.4, 3) + cycles(T + 1, 1), cycles(T + 1, 1) + cycles(T / 2.4, 2)]
    if ctx.thorough:
        timings += [cycles(T / 6, 8), cycles(2 * T, 2)]
    confs = [("ppr", {"min_parallel_slots": 1, "num_processes": 2, "cpu": 4}, 2, []),
             ("ppr", {"min_parallel_slots": 1, "num_processes": 3, "cpu": 4}, 3, []),
             ("mtr", {"min_processes": 2, "max_processes": 2, "cpu": 4, "enforce": True}, 2, [["iter"]]),
             ("mtr", {"min_processes": 1, "max_processes": 3, "cpu": 4, "enforce": False}, 3, [["enqueue", 4], ["iter"]]),
             ("pr", {"min_parallel_slots": 1, "cpu": 2}, 2, [["enqueue", 3], ["iter"]]),
             ("pr", {"min_parallel_slots": 3, "cpu": 2}, 3, [["enqueue", 5], ["iter"]])]
    if ctx.thorough:
        confs += [("ppr", {"min_parallel_slots": 4, "num_processes": 0, "cpu": 2}, 4, []),
                  ("mtr", {"min_processes": 3, "max_processes": 0, "cpu": 3, "enforce": True}, 3, [["iter"]]),
                  ("pr", {"min_parallel_slots": 1, "cpu": 4}, 4, [["enqueue", 4], ["iter"]])]
    for kind, pr, size, pre in confs:
        full = 2 ** size - 1
        for tm_i, tm in enumerate(timings):
            for kill in range(1, 2 ** size):
                claim_masks = range(1, 2 ** size) if (size <= 2 or ctx.thorough) else sorted({kill, full, kill ^ full or full, 1})
                for claim in claim_masks:
                    if not claim & kill:
                        continue        # nobody who dies owns an invocation: covered by the other families
                    plan = pre + [["claim_mask", claim], ["beat"], ["kill_mask", kill]] + tm + [["beat"]]
                    cases.append((kind, pr, plan))
                    if tm_i == 0:
                        # a second round: the replacements take work and die too, half-way through
                        half = len(tm) // 2 // 3 * 3
                        plan2 = pre + [["claim_mask", claim], ["kill_mask", kill]] + tm[:half] \
                            + [["claim_mask", full], ["kill_mask", kill]] + tm[half:] + cycles(T + 1, 1) + [["beat"]]
                        cases.append((kind, pr, plan2))
    return cases


def random_plans(ctx: Ctx):
    rng = ctx.rng
    n = 1500 if ctx.thorough else 150
    cases = []
    for k in range(n):
        kind = ("mtr", "ppr", "pr")[k % 3]
        if kind == "mtr":
            pr = {"min_processes": rng.choice((0, 1, 1, 2, 3)), "max_processes": rng.choice((0, 1, 2, 3, 4, 6)),
                  "cpu": rng.choice((1, 2, 3, 5)), "enforce": rng.random() < 0.5}
        elif kind == "ppr":
            pr = {"min_parallel_slots": rng.choice((1, 1, 2, 4)), "num_processes": rng.choice((0, 1, 2, 3, 5, 7)),
                  "cpu": rng.choice((0, 1, 2, 3))}
        else:
            pr = {"min_parallel_slots": rng.choice((1, 1, 2, 4)), "cpu": rng.choice((1, 2, 3, 5))}
        plan = []
        for _ in range(rng.randint(1, 6 if ctx.thorough else 4)):       # rounds
            r = rng.random()
            if r < 0.25:
                plan.append(["kill_all"])
            elif r < 0.45:
                plan.append(["kill_one"])
            elif r < 0.85:
                plan.append(["kill_random", rng.choice((0.3, 0.5, 0.8))])
            q = rng.random()
            if q < 0.35:
                plan.append(["enqueue", rng.choice((1, 2, 3, 6))])
            elif q < 0.45:
                plan.append(["drain"])
            if rng.random() < 0.6:
                plan.append(["beat"])
            if rng.random() < 0.35:
                plan.append(["tick", rng.choice((5.0, 20.0, 31.0, 61.0))])
            plan += [["iter"]] * rng.choice((1, 1, 2, 3, 3, 4))
            if rng.random() < 0.3:
                plan.append(["claim_random", rng.choice((0.4, 0.8))])
            if rng.random() < 0.3:
                plan.append(["beat"])
        if rng.random() < 0.4:
            plan += cycles(rng.choice((25.0, 61.0, 130.0)), rng.choice((1, 3)))
        plan += [["iter"]] * SETTLE + [["beat"]]
        cases.append((kind, pr, plan))
    return cases


def run_impl(kind, pr, plan, rng, concrete=False):
    """-> (events, start_tracked, obs)"""
    events, obs = [], []
    with World(kind, pr) as w:
        start = w.tracked()
        for tpl in plan:
            ev = list(tpl) if concrete else resolve(tpl, w.tracked(), len(w.procs), rng)
            events.append(ev)
            obs.append(w.apply(ev))
    return events, start, obs


# ---------------------------------------------------------------- main
def main(ctx: Ctx) -> int:
    world.quiet()
    info = ctx.translate("pool_loops", pool_loops.translate, "gen/Pool_gen.v")
    info_ids = ctx.translate("pool_ids", pool_loops.translate_ids, "gen/PoolIds_gen.v")
    if info.get("shape_changed"):
        ctx.log("helper shapes changed:", info["shape_changed"], "- relying on the differential run")
    ctx.prove("Props/C14.v")
    cases = exhaustive_plans(ctx)
    n_exh = len(cases)
    cases += recovery_plans(ctx)
    n_rec = len(cases) - n_exh
    cases += random_plans(ctx)
    ctx.log(f"{len(cases)} cases ({n_exh} exhaustive two-round death subsets + {n_rec} death-then-recovery histories + "
            f"{len(cases) - n_exh - n_rec} random histories)")
    runs = []
    stats = {"events": {}, "kills_by_size": {}, "kill_all_events": 0, "by_kind": {}, "configs": set(), "seq_len": {}}
    for kind, pr, plan in cases:
        events, start, obs = run_impl(kind, pr, plan, ctx.rng)
        runs.append((kind, pr, events, start, obs))
        stats["by_kind"][kind] = stats["by_kind"].get(kind, 0) + 1
        stats["configs"].add(kind + json.dumps(pr, sort_keys=True))
        stats["seq_len"][len(events)] = stats["seq_len"].get(len(events), 0) + 1
        prev = start
        for ev, ob in zip(events, obs):
            stats["events"][ev[0]] = stats["events"].get(ev[0], 0) + 1
            if ev[0] == "kill":
                hit = len([s for s, a in prev if a and s in ev[1]])
                stats["kills_by_size"][hit] = stats["kills_by_size"].get(hit, 0) + 1
                if prev and hit == len([1 for _s, a in prev if a]) and hit > 0:
                    stats["kill_all_events"] += 1
            prev = ob[0]
    ctx.log("implementation runs done; evaluating the model")
    exprs = [coq_case(kind, pr, events) for kind, pr, events, _s, _o in runs]
    vals = ctx.coq_eval(IMPORTS, exprs, chunk=120)
    n_mismatch = 0
    oracle_hits: dict[str, int] = {}
    oracle_stats: dict[str, int] = {}
    distinct = set()
    for (kind, pr, events, start, obs), v in zip(runs, vals):
        distinct.add(json.dumps([kind, pr, events], sort_keys=True))
        m_start, m_trace = v[0], v[1]
        impl_trace = [[o[0], o[1], o[2]] for o in obs]
        model_trace = [[[list(x) for x in t], q, list(h)] for (t, q, h) in m_trace]
        verdicts = oracle(kind, pr, events, obs, oracle_stats)
        for key, what, idx in verdicts:
            oracle_hits[key] = oracle_hits.get(key, 0) + 1
            ctx.violation(key, what, {"kind": kind, "params": pr, "events": events[:idx + 1], "failing_event": idx,
                                      "observed": obs[idx][:3], "id_to_process_serial": obs[idx][4]["procs"],
                                      "claims_k_owner_running_recoverable": obs[idx][4]["claims"]})
        same = [list(x) for x in m_start] == start and model_trace == impl_trace
        if not same:
            n_mismatch += 1
            first = next((i for i, (a, b) in enumerate(zip(model_trace, impl_trace)) if a != b), -1)
            if not verdicts:
                ctx.violation(f"model-mismatch:{kind}",
                              f"{kind} {pr}: the real runner and the model of its loop (gen/Pool_gen.v + Model/Pool.v) differ at event "
                              f"{first} {events[first] if first >= 0 else 'start'}: impl {impl_trace[first] if first >= 0 else start} "
                              f"model {model_trace[first] if first >= 0 else m_start}; the theorems no longer describe this code",
                              {"kind": kind, "params": pr, "events": events[:first + 1] if first >= 0 else [],
                               "failing_event": first, "observed": impl_trace[first] if first >= 0 else start,
                               "model": model_trace[first] if first >= 0 else m_start, "correspondence": "trace"})
        if len(ctx.coverage["samples"]) < 6 and any(e[0] == "kill" and len(e[1]) >= 2 for e in events) \
                and stats["by_kind"].get("_s_" + kind, 0) < 2:
            stats["by_kind"]["_s_" + kind] = stats["by_kind"].get("_s_" + kind, 0) + 1
            ctx.sample({"runner": kind, "params": pr, "events": events, "start": start,
                        "after_each_event": [[t, q, b] for t, q, b in impl_trace]})
    n_events = sum(len(r[2]) for r in runs)
    ctx.count(n_events, len(distinct))
    if ctx.thorough and not ctx.violations and n_mismatch == 0:
        # guards a PASS against a comparison that cannot tell models apart; with violations on the table the wrong
        # models may well coincide with the (changed) implementation
        ctx.notes["self_test_wrong_models_detected"] = model_self_test(ctx, runs)
    ctx.notes["correspondence"] = {
        "cases": len(runs), "exhaustive_two_round_cases": n_exh, "death_then_recovery_histories": n_rec,
        "random_histories": len(runs) - n_exh - n_rec,
        "events_compared_with_model": n_events, "model_mismatches": n_mismatch,
        "cases_by_runner": {k: v for k, v in stats["by_kind"].items() if not k.startswith("_s_")},
        "distinct_configurations": len(stats["configs"]),
        "event_histogram": stats["events"],
        "live_workers_killed_per_death_event": {str(k): v for k, v in sorted(stats["kills_by_size"].items())},
        "death_events_killing_every_live_worker": stats["kill_all_events"],
        "history_length_histogram": {str(k): v for k, v in sorted(stats["seq_len"].items())},
        "oracle_hits": oracle_hits,
        "id_following_oracle": oracle_stats,
        "invocations_claimed_by_workers": sum(len(r[4][-1][4]["claims"]) for r in runs if r[4]),
    }
    ctx.notes["generated_id_sources"] = {k: info_ids.get(k) for k in ("mtr_id_src", "ppr_id_src", "pr_id_src")} \
        if not info_ids.get("degraded") else "translator degraded: committed default (IdFresh for all three runners)"
    ctx.notes["generated_loops"] = {k: info.get(k) for k in ("mtr_loop", "ppr_loop", "pr_loop", "mtr_hb", "ppr_hb", "pr_hb",
                                                              "base_reports_active")}
    ctx.notes["mtr_verdict_branch"] = ("restored (loop prunes before scaling up)" if info.get("mtr_loop") == ["LPrune", "LScaleUp"]
                                       else "refuted (loop only scales up): theorem mtr_pool_restored_or_refuted proves the refutation "
                                            "witness; mtr_pool_restored_partial is the proved part") if not info.get("degraded") else \
        "translator degraded: committed default loop bodies"
    ctx.assumptions += [
        "worker processes are stand-ins (is_alive/start/join/terminate/kill/pid) whose liveness the harness controls; a death is "
        "is_alive() turning False between two calls of the runner's methods",
        "worker ids in the model and in the oracle are RUNNER IDS numbered by first appearance as a key of child_runner_ids "
        "(the real ids are strings); the stand-in processes carry their own serial numbers, reported in the messages only",
        "a worker's part (store its context, first heartbeat, take one invocation, set it RUNNING under its runner id) is played "
        "by the harness with the real orchestrator calls; time is a harness-owned clock (runner_considered_dead_after_minutes = "
        f"{DEAD_AFTER_MIN}); an invocation of a dead worker must be listed by get_running_invocations_for_recovery() once more than "
        "that timeout has passed since the death was possible to observe",
        "the oracle judges capacity at the 3rd consecutive loop iteration after the last other event ('within the next loop iterations')",
        "non-enforcing multi-thread configuration: demand = min(queue length, max_processes) (min_processes is an initial size only)",
        "in-memory broker/orchestrator/state backend behind the runners (the runners' pool logic does not depend on the backend)",
    ]
    ctx.trusted += [
        "hand mirror in Model/Pool.v of _scale_up_processes, _cleanup_dead_processes, the spawn helpers and the capacity resolution of "
        "_on_start/max_parallel_slots — tied by the per-event differential run and AST shape hashes",
        "process stand-ins replace multiprocessing.Process/Manager/cpu_count inside the three runner modules",
        "harness/vclock.py replaces the clock of the in-memory orchestrator and of the status records",
        "AST classification of the worker-id source (str(uuid4()) / uuid4().hex / f-string with uuid4 / new_child_context() default "
        "= fresh; a value taken from a container, attribute, name or uuid-free literal = recycled; unknown calls fail closed)",
    ]
    return ctx.finish(
        rule="exhaustive stream: for each small configuration two rounds of deaths where every subset of the tracked workers dies "
             "(bitmask), heartbeat before/after, 3 settling iterations; recovery stream: per runner and small configuration every "
             "non-empty subset of workers owning a RUNNING invocation x every non-empty death subset x timings (short cycles / one "
             "long cycle past the dead-runner timeout), with and without a second death round of the replacements; random stream: "
             "seeded histories of 1-6 rounds (kill all / one / random subset incl. unknown ids, enqueue/drain, heartbeats, clock "
             "ticks, workers taking invocations, 1-4 iterations) over random configurations; evaluations = "
             "events whose observation was compared with the model and judged by the oracle; distinct_nontrivial = distinct "
             "(runner, configuration, concrete event list)")


def replay(ctx: Ctx, path: str) -> int:
    world.quiet()
    rp = json.load(open(path))["replay"]
    kind, pr, events = rp["kind"], rp["params"], rp["events"]
    # settle so that the oracle's capacity judgement applies to the replayed prefix as recorded
    evs, start, obs = run_impl(kind, pr, events, ctx.rng, concrete=True)
    print("runner", kind, "params", pr, "configured", configured(kind, pr))
    print("start tracked [id, alive]:", start)
    for i, (ev, ob) in enumerate(zip(evs, obs)):
        print(f"{i:3d} {ev!s:32} tracked[id,alive]={ob[0]} [id,process]={ob[4]['procs']} queue={ob[1]}"
              + (f" heartbeats={ob[2]}" if ev[0] == "beat" else "")
              + (f" registered={ob[3]}" if ev[0] != "beat" and ob[3] else "")
              + (f" t={ob[4]['now'] - 1_700_000_000.0:.0f}s claims[k,owner,running,recoverable]={ob[4]['claims']}" if ob[4]["claims"] else ""))
    verdicts = oracle(kind, pr, evs, obs)
    for key, what, idx in verdicts:
        print("ORACLE", key, "at event", idx, ":", what)
    if "model" in rp:
        print("model expected at event", rp["failing_event"], ":", rp["model"], " observed:", obs[rp["failing_event"]][:3]
              if rp["failing_event"] >= 0 else start)
    print("reproduced" if (verdicts or "model" in rp) else "not reproduced")
    return 0

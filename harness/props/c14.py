"""C14 — process-based runners keep their worker pool at capacity when workers die; heartbeats
only on behalf of live workers.

proof: Props/C14.v over the loop bodies / heartbeat selectors generated from the runner sources
       (gen/Pool_gen.v) interpreted by Model/Pool.v.
tie:   the REAL MultiThreadRunner / PersistentProcessRunner / ProcessRunner objects are driven
       through on_start / runner_loop_iteration / _report_child_runner_heartbeats with
       multiprocessing.Process / Manager / cpu_count replaced in the runner modules by
       controllable stand-ins; death sequences (any subset, repeatedly, all at once), queue
       changes and configurations are generated (exhaustive two-round subsets for small pools +
       seeded random histories); after EVERY event the tracked workers, their liveness, the broker
       queue length and the ids passed to register_runner_heartbeats are compared with the model
       (`trace`, Eval vm_compute), and an oracle that does not use the model checks the property
       statement on the observations.
"""
from __future__ import annotations

import contextlib
import itertools
import json
import signal
import threading
import warnings

from harness import world
from harness.common import Ctx
from harness.translate import pool_loops

GENERATED = [("harness.translate.pool_loops", "translate", "gen/Pool_gen.v")]

MANIFEST = {
    "technique": "Coq proof over loop bodies generated from the runner sources + differential run of the real runners on process stand-ins",
    "text": "Machine-checked theorems (Props/C14.v) about Model/Pool.v instantiated with the runner_loop_iteration bodies and "
            "get_active_child_runner_ids selectors regenerated from multi_thread_runner.py, persistent_process_runner.py, "
            "process_runner.py and base_runner.py on every run: for EVERY history of worker deaths (any subsets, repeatedly, all "
            "at once), queue changes, iterations and heartbeats, one or more further iterations leave no dead worker tracked and "
            "the configured number alive (persistent: exactly num_processes; process runner: full or queue empty, exactly "
            "min(free, waiting) picked up; multi-thread: decided by the generated loop body — restored if it prunes before "
            "scaling, refuted by a closed witness if it only scales up); a dead worker's id is untracked by the next iteration and "
            "never tracked or heart-beaten again. Tie: the real runner classes are driven through on_start / "
            "runner_loop_iteration / _report_child_runner_heartbeats with Process/Manager/cpu_count stand-ins; every observation "
            "(tracked ids, liveness, queue length, ids passed to register_runner_heartbeats) is compared with the model after every "
            "event, exhaustive over death subsets for small pools plus seeded random histories; a model-independent oracle "
            "evaluates the statement on the real observations.",
    "note": "Trusted: Coq kernel; AST translator of the loop bodies (fail-closed); hand mirror of _scale_up_processes / "
            "_cleanup_dead_processes / spawn helpers / _on_start capacity resolution in Model/Pool.v (tied by the differential run + "
            "AST shape hashes); process stand-ins (is_alive/start/join/terminate/kill/pid) in place of OS processes; real death, "
            "Process.is_alive semantics and the child processes' own code are outside the model. Known finding (defect #2): "
            "MultiThreadRunner.runner_loop_iteration never prunes dead workers — proposed_fixes/C14-mtr-loop-prunes-dead.diff.",
    "design_ref": "DESIGN.md §6 C14",
}

IMPORTS = ["Model.Pool", "gen.Pool_gen"]
SETTLE = 3          # "within the next loop iterations": the oracle looks at the 3rd consecutive iteration
KNOWN_KEY = "mtr:dead-workers-still-tracked"


# ---------------------------------------------------------------- stand-ins
class FakeManager:
    def dict(self, *a, **k):
        return dict(*a, **k)

    def Event(self):
        return threading.Event()

    def shutdown(self):
        return None


class _OsShim:
    """`os` as seen from persistent_process_runner: cpu_count is controlled, the rest is real."""

    def __init__(self, real, cpu):
        self._real, self._cpu = real, cpu

    def cpu_count(self):
        return self._cpu

    def __getattr__(self, name):
        return getattr(self._real, name)


class World:
    """One real runner of `kind` on a fresh in-memory app, with process stand-ins."""

    def __init__(self, kind: str, params: dict):
        self.kind, self.params = kind, dict(params)
        self.procs: list = []          # stand-in processes in creation order; index = model worker id
        self.hb_calls: list = []       # ids passed to register_runner_heartbeats since last reset
        self._stack = contextlib.ExitStack()
        w = self

        class FakeProcess:
            def __init__(self, group=None, target=None, name=None, args=(), kwargs=None, *, daemon=None):
                self.serial = len(w.procs)
                self.target, self.args, self.kwargs, self.daemon = target, args, kwargs or {}, daemon
                self._alive = False
                self.pid = None
                self.exitcode = None
                w.procs.append(self)

            def start(self):
                self._alive = True
                self.pid = 10_000 + self.serial

            def is_alive(self):
                return self._alive

            def join(self, timeout=None):
                return None

            def terminate(self):
                self.die(-15)

            def kill(self):
                self.die(-9)

            def die(self, code=None):
                # "for whatever reason": SIGKILL, error exit, clean exit, SIGTERM — varies with the worker
                if self._alive:
                    self._alive = False
                    self.exitcode = (-9, 1, 0, -15)[self.serial % 4] if code is None else code

        self.FakeProcess = FakeProcess

    def __enter__(self):
        import pynenc.runner.multi_thread_runner as m_mtr
        import pynenc.runner.persistent_process_runner as m_ppr
        import pynenc.runner.process_runner as m_pr
        from harness import tasks_basic
        st = self._stack
        pr = self.params
        cpu = pr.get("cpu", 4)
        mod = {"mtr": m_mtr, "ppr": m_ppr, "pr": m_pr}[self.kind]
        st.enter_context(_patched(mod, "Process", self.FakeProcess))
        st.enter_context(_patched(mod, "Manager", FakeManager))
        if self.kind == "ppr":
            st.enter_context(_patched(mod, "os", _OsShim(mod.os, cpu or None)))
        else:
            st.enter_context(_patched(mod, "cpu_count", lambda: cpu))
        cfg = {"runner_loop_sleep_time_sec": 0.0}
        if self.kind == "mtr":
            cfg.update(min_processes=pr["min_processes"], max_processes=pr["max_processes"],
                       enforce_max_processes=bool(pr["enforce"]))
            cls = m_mtr.MultiThreadRunner
        elif self.kind == "ppr":
            cfg.update(min_parallel_slots=pr["min_parallel_slots"], num_processes=pr["num_processes"])
            cls = m_ppr.PersistentProcessRunner
        else:
            cfg.update(min_parallel_slots=pr["min_parallel_slots"])
            cls = m_pr.ProcessRunner
        self.app = world.make_app("mem", **cfg)
        self.task = tasks_basic.bind(self.app, tasks_basic.add_one)
        self.n_routed = 0
        self.runner = cls(self.app)
        orch = self.app.orchestrator
        real_reg = orch.register_runner_heartbeats

        def recording(runner_ids, *a, **k):
            self.hb_calls.append(list(runner_ids))
            return real_reg(runner_ids, *a, **k)
        st.enter_context(_patched(orch, "register_runner_heartbeats", recording, instance=True))
        # real start code (on_start installs signal handlers when on the main thread: restore them afterwards)
        saved = {s: signal.getsignal(s) for s in (signal.SIGINT, signal.SIGTERM)} \
            if threading.current_thread() is threading.main_thread() else {}
        try:
            with warnings.catch_warnings():
                warnings.simplefilter("ignore")
                self.runner.on_start()
        finally:
            for s, h in saved.items():
                signal.signal(s, h)
        return self

    def __exit__(self, *exc):
        try:
            sb = self.app.state_backend
            if hasattr(sb, "wait_for_all_async_operations"):
                sb.wait_for_all_async_operations()
        except Exception:  # noqa: BLE001 - teardown only
            pass
        self._stack.close()
        return False

    # -- observations
    def _proc(self, v):
        return v.process if hasattr(v, "process") else v

    def serial_of(self, runner_id):
        v = self.runner.child_runner_ids.get(runner_id)
        return None if v is None else self._proc(v).serial

    def tracked(self):
        return [[self._proc(v).serial, 1 if self._proc(v).is_alive() else 0]
                for v in self.runner.child_runner_ids.values()]

    def queue(self):
        return self.app.broker.count_invocations()

    def _ids_to_serials(self, ids, idmap):
        return [idmap.get(i, -1) for i in ids]

    # -- events
    def apply(self, ev):
        """returns (tracked, queue, heartbeat serials (EBeat), ids registered during the event as serials)"""
        kind = ev[0]
        self.hb_calls.clear()
        idmap_before = {rid: self._proc(v).serial for rid, v in self.runner.child_runner_ids.items()}
        if kind == "kill":
            for s in ev[1]:
                if 0 <= s < len(self.procs):
                    self.procs[s].die()
        elif kind == "enqueue":
            for _ in range(ev[1]):
                self.n_routed += 1
                self.task(self.n_routed)
        elif kind == "drain":
            self.app.broker.purge()
        elif kind == "iter":
            self.runner.runner_loop_iteration()
        elif kind == "beat":
            self.runner._report_child_runner_heartbeats()
        else:
            raise ValueError(kind)
        idmap = dict(idmap_before)
        idmap.update({rid: self._proc(v).serial for rid, v in self.runner.child_runner_ids.items()})
        reported = [idmap.get(i, -1) for call in self.hb_calls for i in call]
        return self.tracked(), self.queue(), (reported if kind == "beat" else []), reported


@contextlib.contextmanager
def _patched(obj, name, value, instance=False):
    missing = object()
    old = obj.__dict__.get(name, missing) if instance else getattr(obj, name)
    setattr(obj, name, value)
    try:
        yield
    finally:
        if old is missing:
            delattr(obj, name)
        else:
            setattr(obj, name, old)


# ---------------------------------------------------------------- oracle (model-independent)
def configured(kind: str, pr: dict) -> dict:
    """the configured numbers as documented (docs/reference/runners.md, config_runner.py)"""
    if kind == "mtr":
        return {"cap": pr["max_processes"] or pr["cpu"], "enforce": bool(pr["enforce"])}
    if kind == "ppr":
        return {"cap": max(pr["min_parallel_slots"], pr["num_processes"] or pr["cpu"] or 1)}
    return {"cap": max(pr["min_parallel_slots"], pr["cpu"])}


def oracle(kind: str, pr: dict, events: list, obs: list) -> list[tuple[str, str, int]]:
    """-> [(key, what, event index)]; obs[i] = (tracked, queue, beat, registered) after events[i]"""
    conf = configured(kind, pr)
    out = []
    consecutive = 0
    for i, (ev, (tracked, queue, beat, registered)) in enumerate(zip(events, obs)):
        alive_now = {s for s, a in tracked if a}
        consecutive = consecutive + 1 if ev[0] == "iter" else 0
        if ev[0] == "beat":
            # state is unchanged by a heartbeat report: alive_now is the liveness at the time of the call
            bad = [s for s in beat if s not in alive_now]
            if bad:
                out.append((f"hb:{kind}:dead-worker-reported",
                            f"{kind}: _report_child_runner_heartbeats passed worker(s) {bad} to register_runner_heartbeats; "
                            f"tracked [id, alive] = {tracked}", i))
        elif registered:
            bad = [s for s in registered if s not in alive_now]
            if bad:
                out.append((f"hb:{kind}:dead-worker-registered",
                            f"{kind}: event {ev} registered a heartbeat for worker(s) {bad} that are not alive afterwards; "
                            f"tracked = {tracked}", i))
        if ev[0] == "iter" and consecutive >= SETTLE:
            dead_tracked = [s for s, a in tracked if not a]
            live = len(alive_now)
            if dead_tracked:
                out.append((f"{kind}:dead-workers-still-tracked",
                            f"{kind} {pr}: after {consecutive} consecutive loop iterations dead worker(s) {dead_tracked} are still "
                            f"tracked; live={live}, configured={conf['cap']}, queue={queue}", i))
                continue
            if kind == "mtr":
                need = conf["cap"] if conf["enforce"] else min(queue, conf["cap"])
                ok = live >= need
                what = f"live={live} < demanded={need}"
            elif kind == "ppr":
                ok = live == conf["cap"]
                what = f"live={live} != num_processes={conf['cap']}"
            else:
                ok = live <= conf["cap"] and (live == conf["cap"] or queue == 0)
                what = f"live={live}, capacity={conf['cap']}, still queued={queue}"
            if not ok:
                out.append((f"{kind}:pool-not-at-capacity",
                            f"{kind} {pr}: after {consecutive} consecutive loop iterations {what}; tracked={tracked}", i))
    return out


# ---------------------------------------------------------------- model side
def coq_cfg(kind: str, pr: dict) -> str:
    if kind == "mtr":
        return f"(mtr_cfg {pr['min_processes']} {pr['max_processes']} {pr['cpu']} {'true' if pr['enforce'] else 'false'})"
    if kind == "ppr":
        return f"(ppr_cfg {pr['min_parallel_slots']} {pr['num_processes']} {pr['cpu']})"
    return f"(pr_cfg {pr['min_parallel_slots']} {pr['cpu']})"


def coq_events(events: list) -> str:
    def one(ev):
        if ev[0] == "kill":
            return "EKill [" + "; ".join(str(s) for s in ev[1]) + "]"
        if ev[0] == "enqueue":
            return f"EEnqueue {ev[1]}"
        return {"drain": "EDrain", "iter": "EIter", "beat": "EBeat"}[ev[0]]
    return "[" + "; ".join(one(e) for e in events) + "]"


def coq_case(kind: str, pr: dict, events: list, ops: str | None = None, sel: str | None = None) -> str:
    c = coq_cfg(kind, pr)
    return (f"(obs_pool (start {c}), trace {c} {ops or kind + '_loop_ops'} {sel or kind + '_hb_sel'} "
            f"(start {c}) {coq_events(events)})")


def model_self_test(ctx: Ctx, runs) -> dict:
    """Thorough tier: the comparison must notice deliberately wrong models (a loop without the prune, a heartbeat
    selector that reports every tracked worker) on the traces just recorded from the real runners."""
    out = {}
    for name, kind, ops, sel in (("ppr_loop_without_prune", "ppr", "[LSpawnTo]", None),
                                 ("pr_heartbeat_for_all_tracked", "pr", None, "HbAll")):
        sub = [r for r in runs if r[0] == kind][:120]
        vals = ctx.coq_eval(IMPORTS, [coq_case(k, pr, ev, ops, sel) for k, pr, ev, _s, _o in sub], chunk=60)
        differ = 0
        for (_k, _pr, _ev, start, obs), v in zip(sub, vals):
            model_trace = [[[list(x) for x in t], q, list(h)] for (t, q, h) in v[1]]
            if [list(x) for x in v[0]] != start or model_trace != [[t, q, b] for (t, q, b, _r) in obs]:
                differ += 1
        out[name] = {"cases": len(sub), "detected": differ}
        if differ == 0:
            from harness.common import CheckError
            raise CheckError(f"self-test: the wrong model {name} was not told apart from the implementation")
    return out


def norm_model(v):
    start, tr = v
    return [list(map(list, start))], [[list(map(list, t)), q, list(h)] for (t, q, h) in ((x[0], x[1], x[2]) for x in tr)]


# ---------------------------------------------------------------- case generation (online: kills pick from what is tracked)
class Script:
    """A case = configuration + a function producing the next event from the current observation."""

    def __init__(self, kind, params, plan):
        self.kind, self.params, self.plan = kind, params, plan   # plan: list of event templates


def resolve(template, tracked, n_issued, rng):
    """event template -> concrete event (kill templates choose among the currently tracked workers)"""
    t = template[0]
    if t == "kill_mask":        # bitmask over the currently tracked workers (exhaustive stream)
        ids = [s for k, (s, _a) in enumerate(tracked) if template[1] >> k & 1]
        return ["kill", ids]
    if t == "kill_all":
        return ["kill", [s for s, _ in tracked]]
    if t == "kill_random":
        ids = [s for s, _ in tracked if rng.random() < template[1]]
        if rng.random() < 0.15:
            ids.append(rng.randrange(0, n_issued + 3))      # an id that is forgotten, dead already or not issued yet
        return ["kill", sorted(set(ids))]
    if t == "kill_one":
        return ["kill", [rng.choice(tracked)[0]] if tracked else []]
    return list(template)


def exhaustive_plans(ctx: Ctx):
    """two rounds of deaths; in each round EVERY subset of the tracked workers dies; heartbeat before and after."""
    cases = []
    tail = [["iter"]] * SETTLE + [["beat"]]
    ppr = [(1, 1, 4), (1, 2, 4), (1, 3, 4), (2, 0, 2), (3, 2, 1)] + ([(1, 4, 4)] if ctx.thorough else [])
    for ms, n, cpu in ppr:
        size = max(ms, n or cpu or 1)
        for m1 in range(2 ** size):
            for m2 in range(2 ** size):
                plan = [["kill_mask", m1], ["beat"], ["iter"], ["kill_mask", m2], ["beat"]] + tail
                cases.append(("ppr", {"min_parallel_slots": ms, "num_processes": n, "cpu": cpu}, plan))
    mtr = [(1, 2, 4, True), (2, 2, 4, True), (0, 0, 2, True), (2, 3, 4, False), (1, 2, 4, False), (3, 2, 4, True)]
    if ctx.thorough:
        mtr += [(2, 3, 4, True), (0, 3, 4, False), (3, 0, 3, False)]
    for mn, mx, cpu, enf in mtr:
        size = max(mn, (mx or cpu)) if enf else max(mn, mx or cpu)
        for q in ((0,) if enf else (0, 2, 5)):
            for m1 in range(2 ** size):
                for m2 in (range(2 ** size) if size <= 2 or ctx.thorough else (0, 2 ** size - 1, 1)):
                    plan = ([["enqueue", q]] if q else []) + [["iter"], ["kill_mask", m1], ["beat"], ["iter"],
                                                               ["kill_mask", m2], ["beat"]] + tail
                    cases.append(("mtr", {"min_processes": mn, "max_processes": mx, "cpu": cpu, "enforce": enf}, plan))
    for ms, cpu in [(1, 2), (3, 2), (1, 3)]:
        size = max(ms, cpu)
        for q1, q2 in ((size + 1, 0), (size - 1, 2), (1, size + 2)):
            for m1 in range(2 ** size):
                for m2 in (range(2 ** size) if size <= 2 or ctx.thorough else (0, 2 ** size - 1, 2)):
                    plan = [["enqueue", q1], ["iter"], ["kill_mask", m1], ["beat"], ["iter"]] \
                        + ([["enqueue", q2]] if q2 else []) + [["kill_mask", m2], ["beat"]] + tail
                    cases.append(("pr", {"min_parallel_slots": ms, "cpu": cpu}, plan))
    return cases


def random_plans(ctx: Ctx):
    rng = ctx.rng
    n = 1500 if ctx.thorough else 150
    cases = []
    for k in range(n):
        kind = ("mtr", "ppr", "pr")[k % 3]
        if kind == "mtr":
            pr = {"min_processes": rng.choice((0, 1, 1, 2, 3)), "max_processes": rng.choice((0, 1, 2, 3, 4, 6)),
                  "cpu": rng.choice((1, 2, 3, 5)), "enforce": rng.random() < 0.5}
        elif kind == "ppr":
            pr = {"min_parallel_slots": rng.choice((1, 1, 2, 4)), "num_processes": rng.choice((0, 1, 2, 3, 5, 7)),
                  "cpu": rng.choice((0, 1, 2, 3))}
        else:
            pr = {"min_parallel_slots": rng.choice((1, 1, 2, 4)), "cpu": rng.choice((1, 2, 3, 5))}
        plan = []
        for _ in range(rng.randint(1, 6 if ctx.thorough else 4)):       # rounds
            r = rng.random()
            if r < 0.25:
                plan.append(["kill_all"])
            elif r < 0.45:
                plan.append(["kill_one"])
            elif r < 0.85:
                plan.append(["kill_random", rng.choice((0.3, 0.5, 0.8))])
            q = rng.random()
            if q < 0.35:
                plan.append(["enqueue", rng.choice((1, 2, 3, 6))])
            elif q < 0.45:
                plan.append(["drain"])
            if rng.random() < 0.6:
                plan.append(["beat"])
            plan += [["iter"]] * rng.choice((1, 1, 2, 3, 3, 4))
            if rng.random() < 0.3:
                plan.append(["beat"])
        plan += [["iter"]] * SETTLE + [["beat"]]
        cases.append((kind, pr, plan))
    return cases


def run_impl(kind, pr, plan, rng, concrete=False):
    """-> (events, start_tracked, obs)"""
    events, obs = [], []
    with World(kind, pr) as w:
        start = w.tracked()
        for tpl in plan:
            ev = list(tpl) if concrete else resolve(tpl, w.tracked(), len(w.procs), rng)
            events.append(ev)
            obs.append(w.apply(ev))
    return events, start, obs


# ---------------------------------------------------------------- main
def main(ctx: Ctx) -> int:
    world.quiet()
    info = ctx.translate("pool_loops", pool_loops.translate, "gen/Pool_gen.v")
    if info.get("shape_changed"):
        ctx.log("helper shapes changed:", info["shape_changed"], "- relying on the differential run")
    ctx.prove("Props/C14.v")
    cases = exhaustive_plans(ctx)
    n_exh = len(cases)
    cases += random_plans(ctx)
    ctx.log(f"{len(cases)} cases ({n_exh} exhaustive two-round death subsets + {len(cases) - n_exh} random histories)")
    runs = []
    stats = {"events": {}, "kills_by_size": {}, "kill_all_events": 0, "by_kind": {}, "configs": set(), "seq_len": {}}
    for kind, pr, plan in cases:
        events, start, obs = run_impl(kind, pr, plan, ctx.rng)
        runs.append((kind, pr, events, start, obs))
        stats["by_kind"][kind] = stats["by_kind"].get(kind, 0) + 1
        stats["configs"].add(kind + json.dumps(pr, sort_keys=True))
        stats["seq_len"][len(events)] = stats["seq_len"].get(len(events), 0) + 1
        prev = start
        for ev, ob in zip(events, obs):
            stats["events"][ev[0]] = stats["events"].get(ev[0], 0) + 1
            if ev[0] == "kill":
                hit = len([s for s, a in prev if a and s in ev[1]])
                stats["kills_by_size"][hit] = stats["kills_by_size"].get(hit, 0) + 1
                if prev and hit == len([1 for _s, a in prev if a]) and hit > 0:
                    stats["kill_all_events"] += 1
            prev = ob[0]
    ctx.log("implementation runs done; evaluating the model")
    exprs = [coq_case(kind, pr, events) for kind, pr, events, _s, _o in runs]
    vals = ctx.coq_eval(IMPORTS, exprs, chunk=120)
    n_mismatch = 0
    oracle_hits: dict[str, int] = {}
    distinct = set()
    for (kind, pr, events, start, obs), v in zip(runs, vals):
        distinct.add(json.dumps([kind, pr, events], sort_keys=True))
        m_start, m_trace = v[0], v[1]
        impl_trace = [[t, q, b] for (t, q, b, _r) in obs]
        model_trace = [[[list(x) for x in t], q, list(h)] for (t, q, h) in m_trace]
        verdicts = oracle(kind, pr, events, obs)
        for key, what, idx in verdicts:
            oracle_hits[key] = oracle_hits.get(key, 0) + 1
            ctx.violation(key, what, {"kind": kind, "params": pr, "events": events[:idx + 1], "failing_event": idx,
                                      "observed": obs[idx][:3]})
        same = [list(x) for x in m_start] == start and model_trace == impl_trace
        if not same:
            n_mismatch += 1
            first = next((i for i, (a, b) in enumerate(zip(model_trace, impl_trace)) if a != b), -1)
            if not verdicts:
                ctx.violation(f"model-mismatch:{kind}",
                              f"{kind} {pr}: the real runner and the model of its loop (gen/Pool_gen.v + Model/Pool.v) differ at event "
                              f"{first} {events[first] if first >= 0 else 'start'}: impl {impl_trace[first] if first >= 0 else start} "
                              f"model {model_trace[first] if first >= 0 else m_start}; the theorems no longer describe this code",
                              {"kind": kind, "params": pr, "events": events[:first + 1] if first >= 0 else [],
                               "failing_event": first, "observed": impl_trace[first] if first >= 0 else start,
                               "model": model_trace[first] if first >= 0 else m_start, "correspondence": "trace"})
        if len(ctx.coverage["samples"]) < 6 and any(e[0] == "kill" and len(e[1]) >= 2 for e in events) \
                and stats["by_kind"].get("_s_" + kind, 0) < 2:
            stats["by_kind"]["_s_" + kind] = stats["by_kind"].get("_s_" + kind, 0) + 1
            ctx.sample({"runner": kind, "params": pr, "events": events, "start": start,
                        "after_each_event": [[t, q, b] for t, q, b in impl_trace]})
    n_events = sum(len(r[2]) for r in runs)
    ctx.count(n_events, len(distinct))
    if ctx.thorough:
        ctx.notes["self_test_wrong_models_detected"] = model_self_test(ctx, runs)
    ctx.notes["correspondence"] = {
        "cases": len(runs), "exhaustive_two_round_cases": n_exh, "random_histories": len(runs) - n_exh,
        "events_compared_with_model": n_events, "model_mismatches": n_mismatch,
        "cases_by_runner": {k: v for k, v in stats["by_kind"].items() if not k.startswith("_s_")},
        "distinct_configurations": len(stats["configs"]),
        "event_histogram": stats["events"],
        "live_workers_killed_per_death_event": {str(k): v for k, v in sorted(stats["kills_by_size"].items())},
        "death_events_killing_every_live_worker": stats["kill_all_events"],
        "history_length_histogram": {str(k): v for k, v in sorted(stats["seq_len"].items())},
        "oracle_hits": oracle_hits,
    }
    ctx.notes["generated_loops"] = {k: info.get(k) for k in ("mtr_loop", "ppr_loop", "pr_loop", "mtr_hb", "ppr_hb", "pr_hb",
                                                              "base_reports_active")}
    ctx.notes["mtr_verdict_branch"] = ("restored (loop prunes before scaling up)" if info.get("mtr_loop") == ["LPrune", "LScaleUp"]
                                       else "refuted (loop only scales up): theorem mtr_pool_restored_or_refuted proves the refutation "
                                            "witness; mtr_pool_restored_partial is the proved part") if not info.get("degraded") else \
        "translator degraded: committed default loop bodies"
    ctx.assumptions += [
        "worker processes are stand-ins (is_alive/start/join/terminate/kill/pid) whose liveness the harness controls; a death is "
        "is_alive() turning False between two calls of the runner's methods",
        "worker ids in the model are spawn serial numbers; the real ids are uuid4 strings mapped by spawn order",
        "the oracle judges capacity at the 3rd consecutive loop iteration after the last other event ('within the next loop iterations')",
        "non-enforcing multi-thread configuration: demand = min(queue length, max_processes) (min_processes is an initial size only)",
        "in-memory broker/orchestrator/state backend behind the runners (the runners' pool logic does not depend on the backend)",
    ]
    ctx.trusted += [
        "hand mirror in Model/Pool.v of _scale_up_processes, _cleanup_dead_processes, the spawn helpers and the capacity resolution of "
        "_on_start/max_parallel_slots — tied by the per-event differential run and AST shape hashes",
        "process stand-ins replace multiprocessing.Process/Manager/cpu_count inside the three runner modules",
    ]
    return ctx.finish(
        rule="exhaustive stream: for each small configuration two rounds of deaths where every subset of the tracked workers dies "
             "(bitmask), heartbeat before/after, 3 settling iterations; random stream: seeded histories of 1-6 rounds (kill all / one / "
             "random subset incl. unknown ids, enqueue/drain, heartbeats, 1-4 iterations) over random configurations; evaluations = "
             "events whose observation was compared with the model and judged by the oracle; distinct_nontrivial = distinct "
             "(runner, configuration, concrete event list)")


def replay(ctx: Ctx, path: str) -> int:
    world.quiet()
    rp = json.load(open(path))["replay"]
    kind, pr, events = rp["kind"], rp["params"], rp["events"]
    # settle so that the oracle's capacity judgement applies to the replayed prefix as recorded
    evs, start, obs = run_impl(kind, pr, events, ctx.rng, concrete=True)
    print("runner", kind, "params", pr, "configured", configured(kind, pr))
    print("start tracked [id, alive]:", start)
    for i, (ev, ob) in enumerate(zip(evs, obs)):
        print(f"{i:3d} {ev!s:32} tracked={ob[0]} queue={ob[1]}" + (f" heartbeats={ob[2]}" if ev[0] == "beat" else "")
              + (f" registered={ob[3]}" if ev[0] != "beat" and ob[3] else ""))
    verdicts = oracle(kind, pr, evs, obs)
    for key, what, idx in verdicts:
        print("ORACLE", key, "at event", idx, ":", what)
    if "model" in rp:
        print("model expected at event", rp["failing_event"], ":", rp["model"], " observed:", obs[rp["failing_event"]][:3]
              if rp["failing_event"] >= 0 else start)
    print("reproduced" if (verdicts or "model" in rp) else "not reproduced")
    return 0

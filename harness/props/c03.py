"""C03 — no accepted invocation is lost when a process dies at any step.

proof: Props/C03.v — the per-invocation crash machine (Model/Crash.v) built from the GENERATED effect sequences; its
       reachable set (9292 states) and the set of states that can still finish are computed and verified inside Coq;
       every reachable state can finish or is explained by a crash inside one of the listed windows; each window is
       a real hole (refuted); fault-free executions are never stranded.
tie:   AST translator of the effect sequences + crash-point enumeration on the REAL code: every actor role is run under
       the deterministic scheduler, the victim is hard-crashed after its k-th backend effect for every k, virtual time
       passes, the real recovery core tasks and surviving polling runners run (seeded interleavings), and the outcome
       (final + body completed, or stranded) is compared with the model's prediction for the same crash point; the
       fault-free effect trace of every role is compared with the model's program.
"""
from __future__ import annotations

import json
import random
import types

from harness import conc_driver as D
from harness import sched as S
from harness import tasks_c03, world
from harness.common import Ctx
from harness.translate import crash_progs
from harness.vclock import VirtualClock

GENERATED = [("harness.translate.crash_progs", "translate", "gen/CrashProgs_gen.v"),
             ("harness.translate.pool_loops", "translate_ids", "gen/PoolIds_gen.v")]
MANIFEST = {
    "technique": "Coq proof by verified finite-state closure and co-reachability of the per-invocation crash machine built from generated effect sequences; crash injection after every backend effect of every real actor role, then real recovery tasks and surviving runners in virtual time",
    "text": "Theorems (Props/C03.v) about the crash machine instantiated with the effect sequences regenerated from "
            "base_orchestrator.py / base_runner.py / core_tasks.py: for ANY interleaving of a victim process (poll+run, retry, "
            "failure, concurrency-control reroute / final, kill-and-reroute, pending and running recovery task), a survivor doing "
            "the same and a crash of the victim between ANY two effects, the invocation can still reach a final status with its "
            "body completed — unless the crash fell in one of 14 listed windows or a poll raised after consuming the message "
            "(never_stranded_partial); every listed window really strands (crash_windows_refuted: no crash-free continuation ever "
            "finishes); fault-free executions are never stranded; 'stranded' is decided by the verified computed set. "
            "Tie: AST translator + crash after every effect of every real role on both backends, recovery + drain by 1-2 surviving "
            "runners under seeded schedules, outcome compared with the model's prediction per crash point; real effect traces "
            "compared with the model programs.",
    "note": "PARTIAL: the full statement is refuted — the 14 windows are known findings (no small safe repair: they need a new "
            "recovery scan for available-but-unqueued and for KILLED / *_RECOVERY / CONCURRENCY_CONTROLLED statuses). Modelled, not "
            "verified: one invocation at a time (invocations interact only through concurrency control, abstracted as a free choice of "
            "the poll outcome), time abstracted (recovery may pick up any PENDING / dead-owner RUNNING invocation), client crash and "
            "wait-graph writes only on the implementation side. Trusted: scheduler harness, virtual clock.",
    "design_ref": "DESIGN.md §6 C03",
}

LIMIT, DEAD_MIN = 60.0, 1.0
ROLE = {"run": "RClaimRun", "retry": "RClaimRetry", "fail": "RClaimFail", "cc": "RClaimCC", "ccfinal": "RClaimCCFinal",
        "kill_pending": "RKill", "kill_running": "RKill", "rec_pending": "RRecPending", "rec_running": "RRecRunning"}
POLL_ROLES = {"run", "retry", "fail", "cc", "ccfinal"}
FINAL = ("SUCCESS", "FAILED", "CONCURRENCY_CONTROLLED_FINAL")
STATUSES = crash_progs.STATUSES


class CW:
    """one real app, effect instrumentation, a victim that can be hard-crashed after its k-th effect"""

    def __init__(self, kind: str, scratch: str, clock: VirtualClock):
        self.kind, self.clock = kind, clock
        self.w = D.World(kind, scratch, max_pending_seconds=LIMIT, runner_considered_dead_after_minutes=DEAD_MIN)
        self.app = self.w.app
        self.sched = S.Sched()
        self.effects: list[tuple[str, str]] = []
        self.victim: S.Actor | None = None
        self.crash_at: int | None = None
        self.vcount = 0
        self.crashed_after: str | None = None
        tasks_c03.DONE.clear()
        tasks_c03.ATTEMPTS.clear()
        tasks_c03.EFFECT = self.eff
        app, orch, sb, br = self.app, self.app.orchestrator, self.app.state_backend, self.app.broker

        def wrap(obj, name, label, only_if=None):
            real = getattr(obj, name)

            def f(*a, **k):
                r = real(*a, **k)
                if only_if is None or only_if(r):
                    self.eff(label(a, k) if callable(label) else label)
                return r
            setattr(obj, name, f)
        wrap(br, "retrieve_invocation", "pop", only_if=lambda r: r is not None)
        wrap(br, "route_invocation", "push")
        wrap(br, "route_invocations", "push")
        wrap(orch, "_atomic_status_transition", lambda a, k: "T:" + a[1].name)      # a refusal raises: no effect
        wrap(orch, "_register_new_invocations", "register")
        wrap(orch, "increment_invocation_retries", "other")
        wrap(orch, "index_arguments_for_concurrency_control", "other")
        wrap(orch, "waiting_for_results", "other")
        wrap(sb, "set_result", "other")
        wrap(sb, "set_exception", "other")
        wrap(sb, "upsert_invocations", "other")

    def eff(self, name: str) -> None:
        a = self.sched.me()
        self.effects.append((a.name if a else "main", name))
        if a is None:
            return
        if a is self.victim:
            self.vcount += 1
            if self.crash_at is not None and self.vcount == self.crash_at:
                self.crashed_after = name
                self.sched.crash(a)
                self.sched.yield_point("crashed")          # never scheduled again
                return
        self.sched.yield_point("eff:" + name)

    def ctx(self, rid: str):
        return world.runner_ctx(rid)

    def heartbeat(self, rid: str) -> None:
        self.app.orchestrator.register_runner_heartbeats([rid])

    def core_task(self, which: str, rid: str):
        """actor body: the real recovery core task under runner `rid`"""
        from pynenc import context, core_tasks
        fn = getattr(core_tasks, which)

        def f():
            context.set_current_app(self.app)
            context.set_runner_context(self.app.app_id, self.ctx(rid))
            fn()
        return f

    def status(self, inv_id):
        return self.w.status(inv_id)

    def close(self):
        tasks_c03.EFFECT = None
        self.sched.shutdown()


def setup(cw: CW, scenario: str):
    """prepare the pre-state (main thread: no yields, no crash), return (tracked invocation ids, victim body, extra)"""
    from pynenc.conf.config_task import ConcurrencyControlType as CT
    from pynenc.invocation.status import InvocationStatus as St
    from pynenc.runner.base_runner import BaseRunner
    app, orch = cw.app, cw.app.orchestrator
    out: list = []
    extra: dict = {}
    for r in ("V", "S", "S2"):
        cw.heartbeat(r)
    if scenario in ("run", "kill_pending", "kill_running", "rec_pending", "rec_running"):
        t = app.task(tasks_c03.plain)
    elif scenario == "retry":
        t = app.task(tasks_c03.retry_once, max_retries=3, retry_for=(tasks_c03.Again,))
    elif scenario == "fail":
        t = app.task(tasks_c03.fails)
    elif scenario == "cc":
        t = app.task(tasks_c03.serial, running_concurrency=CT.TASK, reroute_on_concurrency_control=True)
    elif scenario == "ccfinal":
        t = app.task(tasks_c03.serial_final, running_concurrency=CT.TASK, reroute_on_concurrency_control=False)
    elif scenario == "client":
        t = app.task(tasks_c03.plain)
        accepted: list = []

        def client():
            from pynenc import context
            context.set_current_app(app)
            accepted.append(t(1).invocation_id)
            accepted.append(t(2).invocation_id)
            for inv in t.parallelize([(i,) for i in range(3, 6)]).invocations:
                accepted.append(inv.invocation_id)
            accepted.append(t(7).invocation_id)
        extra["accepted"] = accepted
        return accepted, client, extra
    else:
        raise ValueError(scenario)
    if scenario in ("cc", "ccfinal"):
        # the blocker: an invocation of the same task RUNNING under the (alive) survivor
        blocker = t(0)
        got = list(orch.get_invocations_to_run(1, cw.ctx("S")))
        assert [g.invocation_id for g in got] == [blocker.invocation_id]
        orch.set_invocation_status(blocker.invocation_id, St.RUNNING, cw.ctx("S"))
        extra["blocker"] = blocker
    inv = t(1)
    iid = inv.invocation_id
    if scenario in ("run", "retry", "fail"):
        body = cw.w.polling_runner("V", 1, out)
    elif scenario in ("cc", "ccfinal"):
        body = cw.w.poller("V", 1, out)
    elif scenario in ("kill_pending", "kill_running"):
        got = list(orch.get_invocations_to_run(1, cw.ctx("V")))
        assert [g.invocation_id for g in got] == [iid]
        if scenario == "kill_running":
            orch.set_invocation_status(iid, St.RUNNING, cw.ctx("V"))
        stub = world.RunnerStub(app=app, runner_context=cw.ctx("V"), logger=app.logger)

        def body():
            BaseRunner._kill_and_reroute(stub, iid)
    else:  # rec_pending / rec_running: the owner X died long ago
        got = list(orch.get_invocations_to_run(1, cw.ctx("X")))
        assert [g.invocation_id for g in got] == [iid]
        if scenario == "rec_running":
            orch.set_invocation_status(iid, St.RUNNING, cw.ctx("X"))
        cw.clock.advance(max(LIMIT, DEAD_MIN * 60) + 5)
        for r in ("V", "S", "S2"):
            cw.heartbeat(r)
        body = cw.core_task("recover_pending_invocations" if scenario == "rec_pending" else "recover_running_invocations", "V")
    cw.effects.clear()
    return [iid], body, extra


def run_point(kind: str, scratch: str, scenario: str, k: int | None, seed: int, survivors: int = 1, cycles: int = 3,
              concurrent: bool = False) -> dict:
    """victim runs (alone, or interleaved with a polling survivor when `concurrent`) and is crashed after its k-th effect
    (k=None: never); then recovery + drain"""
    clock = VirtualClock()
    with clock:
        cw = CW(kind, scratch, clock)
        try:
            tracked, body, extra = setup(cw, scenario)
            rng = random.Random(seed)
            cw.crash_at = k
            if k != 0:
                cw.victim = cw.sched.spawn("V", body)
                if concurrent:
                    pre: list = []
                    cw.sched.spawn("S-pre", cw.w.polling_runner("S", 1, pre, rounds=2))
                    cw.sched.run(S.random_chooser(rng, 0.5), max_steps=5000)
                else:
                    cw.sched.run(lambda r, s: r[0], max_steps=5000)
            vtrace = [n for (who, n) in cw.effects if who == "V"]
            crashed = cw.victim is not None and cw.victim.crashed
            vexc = repr(cw.victim.exc) if cw.victim is not None and cw.victim.exc is not None else None
            at_crash = {i: cw.status(i) for i in tracked} if tracked else {}
            queue_at_crash = cw.w.queue()
            # ---- recovery and drain by the survivors
            names = ["S", "S2"][:survivors]
            if "blocker" in extra:
                b = extra["blocker"]
                cw.app.orchestrator.set_invocation_result(b, 0, cw.ctx("S"))
            for c in range(cycles):
                clock.advance(max(LIMIT, DEAD_MIN * 60) + 5)
                for r in names:
                    cw.heartbeat(r)
                outs: list = []
                for r in names:
                    cw.sched.spawn(f"{r}-recp{c}", cw.core_task("recover_pending_invocations", r))
                    cw.sched.spawn(f"{r}-recr{c}", cw.core_task("recover_running_invocations", r))
                    cw.sched.spawn(f"{r}-run{c}", cw.w.polling_runner(r, 2, outs, rounds=3))
                cw.sched.run(S.random_chooser(rng, 0.4), max_steps=20000)
            acc = list(extra["accepted"]) if "accepted" in extra else tracked
            final = {i: cw.status(i) for i in acc}
            stranded = [i for i in acc if not (final[i][0] in FINAL and (i in tasks_c03.DONE or final[i][0] == "CONCURRENCY_CONTROLLED_FINAL"))]
            errs = [(a.name, repr(a.exc)) for a in cw.sched.actors if a.exc is not None and a is not cw.victim]
            return {"scenario": scenario, "backend": kind, "k": k, "crashed": crashed, "crashed_after": cw.crashed_after, "vtrace": vtrace,
                    "victim_exc": vexc, "at_crash": [at_crash[i] for i in tracked], "queue_at_crash": len(queue_at_crash),
                    "accepted": len(acc), "final": [final[i] for i in acc], "stranded": len(stranded),
                    "stranded_status": [final[i][0] for i in stranded], "queue_end": len(cw.w.queue()), "survivor_errors": errs,
                    "bodies_completed": len(tasks_c03.DONE)}
        finally:
            cw.close()


def run_worker_main(kind: str, scratch: str) -> dict:
    """fault-free: the REAL PersistentProcessRunner worker loop (persistent_process_main, driven in this thread with a counting
    stop event) polls a queue [blocked-by-concurrency-control, runnable]: the same poll defers one invocation and claims
    another; the deferred one must come back (the poll generator has to be run to its end)."""
    import signal
    from pynenc.conf.config_task import ConcurrencyControlType as CT
    from pynenc.invocation.status import InvocationStatus as St
    from pynenc.runner.persistent_process_runner import persistent_process_main
    clock = VirtualClock()
    with clock:
        tasks_c03.DONE.clear()
        app = world.make_app(kind, scratch, builder_hook=lambda b: b.persistent_process_runner(num_processes=1),
                             max_pending_seconds=LIMIT, runner_considered_dead_after_minutes=DEAD_MIN)
        orch = app.orchestrator
        t_excl = app.task(tasks_c03.serial, running_concurrency=CT.TASK, reroute_on_concurrency_control=True)
        t_plain = app.task(tasks_c03.plain)
        ctx_l = world.runner_ctx("L")
        orch.register_runner_heartbeats(["L"])
        e1 = t_excl(1)
        got = list(orch.get_invocations_to_run(1, ctx_l))
        assert [g.invocation_id for g in got] == [e1.invocation_id]
        orch.set_invocation_status(e1.invocation_id, St.RUNNING, ctx_l)
        e2, p = t_excl(2), t_plain(3)

        class Stop:
            def __init__(self):
                self.calls, self.forced = 0, False

            def is_set(self):
                self.calls += 1
                if self.calls == 2:
                    tasks_c03.DONE.append(e1.invocation_id)
                    orch.set_invocation_result(got[0], 1, ctx_l)          # the blocker finishes after the first poll
                if self.calls > 1:
                    orch.register_runner_heartbeats(["L", "W"])
                return self.forced or self.calls > 8

            def set(self):
                self.forced = True
        prev = signal.getsignal(signal.SIGTERM)
        exc = None
        try:
            persistent_process_main(app, runner_cache={}, stop_event=Stop(), parent_runner_ctx_json=app.runner.runner_context.to_json(),
                                    child_runner_id="W")
        except BaseException as ex:  # noqa: BLE001
            exc = repr(ex)
        finally:
            signal.signal(signal.SIGTERM, prev)
        final = {n: orch.get_invocation_status(i.invocation_id).name for n, i in (("blocker", e1), ("deferred", e2), ("other", p))}
        stranded = [n for n, i in (("blocker", e1), ("deferred", e2), ("other", p))
                    if not (final[n] in FINAL and i.invocation_id in tasks_c03.DONE)]
        return {"backend": kind, "final": final, "stranded": stranded, "queue_end": app.broker.count_invocations(), "exc": exc}


def run_lost_race(kind: str, scratch: str, which: str) -> dict:
    """fault-free: a recovery run scans two stuck invocations; after it has marked the first, the (slow but live) owner of the
    second moves on, so the second transition is refused.  The first must still be re-queued and finished."""
    from pynenc import context, core_tasks
    from pynenc.invocation.status import InvocationStatus as St
    clock = VirtualClock()
    with clock:
        cw = CW(kind, scratch, clock)
        try:
            app, orch = cw.app, cw.app.orchestrator
            t = app.task(tasks_c03.plain)
            invs = [t(i) for i in range(2)]
            ids = [i.invocation_id for i in invs]
            for r in ("X", "S"):
                cw.heartbeat(r)
            got = [g.invocation_id for g in orch.get_invocations_to_run(2, cw.ctx("X"))]
            assert sorted(got) == sorted(ids)
            if which == "running":
                for i in ids:
                    orch.set_invocation_status(i, St.RUNNING, cw.ctx("X"))
            clock.advance(max(LIMIT, DEAD_MIN * 60) + 5)
            cw.heartbeat("S")
            scan_name = "get_pending_invocations_for_recovery" if which == "pending" else "get_running_invocations_for_recovery"
            real_scan = getattr(orch, scan_name)
            order: list = []

            def scan():
                found = list(real_scan())
                order.extend(str(x) for x in found)
                for k, x in enumerate(found):
                    if k == 1:
                        # the owner of the second one is slow, not dead: it moves on right now
                        orch.set_invocation_status(x, St.RUNNING if which == "pending" else St.SUCCESS, cw.ctx("X"))
                        if which == "running":
                            tasks_c03.DONE.append(str(x))
                    yield x
            setattr(orch, scan_name, scan)
            context.set_current_app(app)
            context.set_runner_context(app.app_id, cw.ctx("S"))
            exc = None
            try:
                getattr(core_tasks, "recover_pending_invocations" if which == "pending" else "recover_running_invocations")()
            except BaseException as ex:  # noqa: BLE001
                exc = repr(ex)
            delattr(orch, scan_name)
            first = order[0] if order else ids[0]
            after_run = cw.status(first)
            queued = first in cw.w.queue()
            # drain by the survivor (the first invocation only; the second is its live owner's business)
            outs: list = []
            for _ in range(2):
                clock.advance(1.0)
                cw.heartbeat("S")
                cw.sched.spawn("S-run", cw.w.polling_runner("S", 2, outs, rounds=2))
                cw.sched.run(lambda r, s: r[0], max_steps=5000)
            final = cw.status(first)
            stranded = not (final[0] in FINAL and first in tasks_c03.DONE)
            return {"backend": kind, "which": which, "scanned": len(order), "recovery_exception": exc, "first_after_run": after_run,
                    "first_queued_after_run": queued, "first_final": final, "stranded": stranded}
        finally:
            cw.close()


EFF_NAME = {"EPop": "pop", "EPush": "push", "EBody": "body", "EOther": "other"}


def model_queries(scenarios: dict[str, int]):
    """Coq expressions: per scenario the model program, and per crash point whether the canonical survivor schedule finishes"""
    step = "(cstep gen_p_retry gen_p_reroute gen_p_kill_head gen_p_finish_ok gen_p_finish_err gen_pop_before_claim gen_recovery_continues gen_poll_exhausted)"
    code = ("(fun e => match e with EPop => [0] | EPush => [1] | EBody => [2] | EOther => [3] | ETrans t => [4; status_code t] end)")
    prog = lambda r: (f"(map {code} ((if pops_at_start gen_pop_before_claim {r} then [EPop] else []) ++ "
                      f"prog_of gen_p_retry gen_p_reroute gen_p_kill_head gen_p_finish_ok gen_p_finish_err gen_pop_before_claim gen_recovery_continues gen_poll_exhausted {r}))")
    flush = "; ".join(["LSStep"] * 10)
    rec = "; ".join(["LSStart RRecPending", "LSStep", "LSStep", "LSStep", "LSStart RRecRunning", "LSStep", "LSStep", "LSStep",
                     "LSStart RClaimRun"] + ["LSStep"] * 8)
    survivor = f"[{flush}; {rec}; {rec}; {rec}]"
    progs, points = {}, {}
    for sc, n in scenarios.items():
        r = ROLE[sc]
        progs[sc] = prog(r)
        for k in range(0, n + 1):
            if sc in POLL_ROLES:
                path = [] if k == 0 else [f"LVStart {r}"] + ["LVStep"] * (k - 1)
                init = "cinit"
            elif sc in ("kill_pending", "kill_running"):
                path = ["LVStart RClaimRun", "LVStep"] + (["LVStep"] if sc == "kill_running" else []) + ["LVKillStart"] + ["LVKillStep"] * k
                init = "cinit"
            elif sc == "rec_pending":
                path = ["LSStart RClaimRun", "LSStep", "LVStart RRecPending"] + ["LVStep"] * k
                init = "cinit"
            else:
                path = ["LVStart RRecRunning"] + ["LVStep"] * k
                init = "cinit_x"
            path.append("LCrash")
            s = f"(fold_left {step} [{'; '.join(path)}] {init})"
            points[(sc, k)] = (f"(let s := {s} in [if finished (fold_left {step} {survivor} s) then 1 else 0; "
                               f"if in_window s then 1 else 0; match crashed_in s with Some (_, n) => S n | None => 0 end; status_code (cst s); cq s])")
    return progs, points


def decode_prog(p) -> list[str]:
    out = []
    for e in p:
        out.append(["pop", "push", "body", "other"][e[0]] if e[0] < 4 else "T:" + STATUSES[e[1]])
    return out


def main(ctx: Ctx) -> int:
    world.quiet()
    info = ctx.translate("crash_progs", crash_progs.translate, "gen/CrashProgs_gen.v")
    ctx.notes["effect_sequences"] = {k: v for k, v in info.items() if k not in ("degraded", "differs_from_default")}
    from harness.translate import pool_loops
    ctx.translate("pool_ids", pool_loops.translate_ids, "gen/PoolIds_gen.v")
    ctx.prove("Props/C03.v", timeout=1500)
    S.SQL_YIELD = False
    scratch = world.scratch_dir()
    total, nontrivial = 0, 0
    table: dict = {}
    try:
        # ---- 1. fault-free traces of every role on the implementation = the model's programs
        lengths: dict[str, int] = {}
        traces: dict = {}
        for kind in ("mem", "sqlite"):
            for sc in ROLE:
                out = run_point(kind, scratch, sc, None, ctx.seed)
                total += 1
                traces[(kind, sc)] = out
                lengths[sc] = max(lengths.get(sc, 0), len(out["vtrace"]))
                if out["stranded"]:
                    ctx.violation(f"strand:{sc}:fault-free", f"{kind}/{sc}: without any crash the invocation is not finished after recovery + drain: {out}",
                                  {"kind": "crash-point", "backend": kind, "scenario": sc, "k": None, "seed": ctx.seed, "observed": out})
        progs, points = model_queries(lengths)
        keys_p, keys_q = list(progs), list(points)
        res_p = ctx.coq_eval(["Model.Status", "Model.Crash", "gen.CrashProgs_gen"], [progs[k] for k in keys_p])
        res_q = ctx.coq_eval(["Model.Status", "Model.Crash", "Model.CrashSpec", "gen.CrashProgs_gen"], [points[k] for k in keys_q])
        mprog = {k: decode_prog(v) for k, v in zip(keys_p, res_p)}
        mpoint = {k: {"finishes": v[0] == 1, "in_window": v[1] == 1, "crash_pos": v[2] - 1 if v[2] else None, "status": STATUSES[v[3]], "queued": v[4]}
                  for k, v in zip(keys_q, res_q)}
        for (kind, sc), out in traces.items():
            if out["vtrace"] != mprog[sc]:
                ctx.violation(f"corr:program:{sc}", f"{kind}/{sc}: the victim's effect trace {out['vtrace']} differs from the model program {mprog[sc]}",
                              {"kind": "crash-point", "backend": kind, "scenario": sc, "k": None, "seed": ctx.seed, "observed": out, "model": mprog[sc]})
        # the model's own consistency: the canonical survivor schedule fails exactly inside the windows
        for (sc, k), m in mpoint.items():
            if m["finishes"] == m["in_window"]:
                ctx.violation(f"corr:model:{sc}:{k}", f"model: crash point {sc}/{k}: canonical recovery finishes={m['finishes']} but in_window={m['in_window']}",
                              {"kind": "model", "scenario": sc, "k": k, "model": m})
        # ---- 2. crash after every effect of every role
        seeds = [ctx.seed + j for j in range(4 if ctx.thorough else 1)]
        for kind in ("mem", "sqlite"):
            for sc in ROLE:
                for k in range(0, lengths[sc] + 1):
                    for seed in seeds:
                        for survivors in ((1, 2) if ctx.thorough else (1 + (seed + k) % 2,)):
                            out = run_point(kind, scratch, sc, k, seed, survivors)
                            total += 1
                            nontrivial += 1 if out["crashed"] else 0
                            m = mpoint[(sc, k)]
                            row = table.setdefault(f"{sc}:{k}", {"after": out["crashed_after"], "model": "strands" if not m["finishes"] else "recovers",
                                                                  "impl": {}, "status_at_crash": m["status"], "queued_at_crash": m["queued"]})
                            row["impl"][kind] = "strands" if out["stranded"] else "recovers"
                            rp = {"kind": "crash-point", "backend": kind, "scenario": sc, "k": k, "seed": seed, "survivors": survivors, "observed": out, "model": m}
                            if out["at_crash"] and out["crashed"] and (out["at_crash"][0][0] != m["status"] or out["queue_at_crash"] != m["queued"]):
                                ctx.violation(f"corr:state:{sc}:{k}", f"{kind}/{sc}: state at the crash after effect {k}: impl {out['at_crash'][0]} queue {out['queue_at_crash']}, "
                                              f"model {m['status']} queue {m['queued']}", rp)
                            if out["stranded"]:
                                ctx.violation(f"strand:{ROLE[sc]}:{m['crash_pos'] if m['crash_pos'] is not None else k}",
                                              f"{kind}/{sc}: victim killed after its effect #{k} ({out['crashed_after']}): the accepted invocation is left "
                                              f"{out['stranded_status']} with {out['queue_end']} queue entries after {3} rounds of recovery tasks + surviving runners "
                                              f"(model: {'strands' if not m['finishes'] else 'RECOVERS'})", rp)
                            elif not m["finishes"]:
                                ctx.violation(f"corr:outcome:{sc}:{k}", f"{kind}/{sc}: the model strands the invocation after effect {k} but the implementation recovered it", rp)
                            if out["survivor_errors"]:
                                ctx.violation(f"survivor-raised:{sc}:{k}", f"{kind}/{sc}: a survivor raised {out['survivor_errors']}", rp)
        # ---- 3. a client dying while it routes single and batch calls: every call that RETURNED must finish
        for kind in ("mem", "sqlite"):
            base = run_point(kind, scratch, "client", None, ctx.seed)
            total += 1
            n = len(base["vtrace"])
            if base["stranded"]:
                ctx.violation("strand:client:fault-free", f"{kind}/client: fault-free run strands {base}", {"kind": "crash-point", "backend": kind, "scenario": "client", "k": None, "seed": ctx.seed})
            for k in range(0, n + 1):
                out = run_point(kind, scratch, "client", k, ctx.seed)
                total += 1
                nontrivial += 1
                table.setdefault(f"client:{k}", {"after": out["crashed_after"], "impl": {}})["impl"][kind] = f"accepted {out['accepted']}, stranded {out['stranded']}"
                if out["stranded"]:
                    ctx.violation(f"strand:client:{k}", f"{kind}/client: client killed after its effect #{k} ({out['crashed_after']}): {out['stranded']} of the "
                                  f"{out['accepted']} invocations it had been handed back are not finished: {out['stranded_status']}",
                                  {"kind": "crash-point", "backend": kind, "scenario": "client", "k": k, "seed": ctx.seed, "observed": out})
        # ---- 4. interleavings before the crash: the victim and a polling survivor run concurrently (seeded schedules),
        #         without a crash and with a crash at a seeded effect
        n_seeds = 40 if ctx.thorough else 6
        inter = 0
        for kind in ("mem", "sqlite"):
            for sc in ("run", "retry", "fail", "cc"):
                for j in range(n_seeds):
                    seed = ctx.seed * 1000 + j
                    k = None if j % 2 == 0 else 1 + (seed // 2) % lengths[sc]
                    out = run_point(kind, scratch, sc, k, seed, 1 + j % 2, concurrent=True)
                    total += 1
                    inter += 1
                    nontrivial += 1 if out["crashed"] else 0
                    if out["stranded"]:
                        pos = len(out["vtrace"])
                        key = f"strand:{sc}:fault-free-interleaved" if not out["crashed"] else f"strand:{ROLE[sc]}:{pos}"
                        ctx.violation(key, f"{kind}/{sc}: victim and a polling survivor interleaved (seed {seed}), victim "
                                      + (f"killed after its effect #{pos} ({out['crashed_after']})" if out["crashed"] else "never killed")
                                      + f": the accepted invocation is left {out['stranded_status']} with {out['queue_end']} queue entries",
                                      {"kind": "crash-point", "backend": kind, "scenario": sc, "k": k, "seed": seed, "survivors": 1 + j % 2,
                                       "concurrent": True, "observed": out})
        ctx.notes["interleaved_runs"] = inter
        # ---- 6. a recovery run that loses the race for its second invocation (fault-free)
        for kind in ("mem", "sqlite"):
            for which in ("pending", "running"):
                out = run_lost_race(kind, scratch, which)
                total += 1
                ctx.notes.setdefault("lost_race", {})[f"{kind}:{which}"] = out
                if out["stranded"] or out["scanned"] != 2:
                    ctx.violation(f"strand:lost-race:{which}",
                                  f"{kind}: recover_{which}_invocations scanned {out['scanned']} stuck invocations, marked the first, lost the race for the "
                                  f"second (its owner moved on): the first is left {out['first_after_run']} (queued: {out['first_queued_after_run']}), "
                                  f"finally {out['first_final']}; recovery raised {out['recovery_exception']} — without any crash",
                                  {"kind": "lost-race", "backend": kind, "which": which, "observed": out})
        # ---- 5. the real worker loop of the persistent process runner on a queue [deferred, runnable] (fault-free)
        for kind in ("sqlite", "mem"):
            try:
                out = run_worker_main(kind, scratch)
            except Exception as ex:  # noqa: BLE001 - a backend the runner refuses to be built with is not a verdict
                ctx.notes.setdefault("worker_main_skipped", {})[kind] = repr(ex)[:200]
                continue
            total += 1
            ctx.notes.setdefault("worker_main", {})[kind] = out
            if out["stranded"] or out["exc"]:
                ctx.violation("strand:worker-main:deferred-not-requeued",
                              f"{kind}: real persistent_process_main on a queue [blocked by concurrency control, runnable]: {out['stranded']} not finished "
                              f"({out['final']}, {out['queue_end']} queue entries, exception {out['exc']}) — without any crash",
                              {"kind": "worker-main", "backend": kind, "observed": out})
    finally:
        S.SQL_YIELD = True
        world.rm_scratch(scratch)
    ctx.count(total, nontrivial)
    ctx.notes["crash_points"] = table
    ctx.notes["model_programs"] = {k: v for k, v in mprog.items()}
    for key in list(table)[:6]:
        ctx.sample({key: table[key]})
    ctx.assumptions += ["victim runs alone up to the crash; survivors interleave under seeded random schedules at effect granularity",
                        "crash points are effect boundaries (each backend effect is one committed transaction / one in-memory call)",
                        "history and trigger side channels silenced; wait-graph writes not enumerated"]
    return ctx.finish(rule="one evaluation = one complete real run: role set-up, victim crashed after effect k (or not at all), 3 rounds of "
                           "virtual-time advance + real recovery core tasks + surviving polling runners; non-trivial = the victim was actually crashed")


def replay(ctx: Ctx, path: str) -> int:
    world.quiet()
    rp = json.load(open(path))["replay"]
    S.SQL_YIELD = False
    scratch = world.scratch_dir()
    try:
        if rp.get("kind") == "lost-race":
            print(json.dumps(run_lost_race(rp["backend"], scratch, rp["which"]), indent=1, default=str))
            return 0
        if rp.get("kind") == "worker-main":
            print(json.dumps(run_worker_main(rp["backend"], scratch), indent=1, default=str))
            return 0
        if rp.get("kind") == "model":
            print(json.dumps(rp, indent=1))
            return 0
        print(json.dumps(run_point(rp["backend"], scratch, rp["scenario"], rp["k"], rp["seed"], rp.get("survivors", 1),
                                   concurrent=rp.get("concurrent", False)), indent=1, default=str))
    finally:
        world.rm_scratch(scratch)
    return 0

"""C07 — registration concurrency collapses duplicate submissions onto one invocation.

proof: Props/C07.v (machine of Model/ConcControl.v instantiated with gen/ConcFacts_gen.v).
tie:   AST facts + op sequences (submissions in every spelling, batch path, polls, starts, finishes, retries, kills)
       on both real backends against the model, with the per-key REGISTERED count as an independent oracle.
"""
from __future__ import annotations

import json

from harness import cc_driver as C
from harness import world
from harness.common import Ctx
from harness.translate import conc_facts

GENERATED = [("harness.translate.conc_facts", "translate", "gen/ConcFacts_gen.v")]
MANIFEST = {
    "technique": "Coq invariant proof over the submission/poll/worker machine (induction over operation sequences) instantiated with generated facts + differential correspondence on both backends",
    "text": "Theorems (Props/C07.v): for every history of submissions (single and batch path), polls, starts, finishes, retries and "
            "kills, for every task configuration (registration mode x key arguments x raise option), two distinct REGISTERED "
            "invocations of a task with registration concurrency enabled never share the registration key (so sequential "
            "submissions never leave more than one REGISTERED per key); a submission that finds a REGISTERED match returns it or, "
            "with KEYS + raise and different other arguments, is rejected — in both cases the state is unchanged; with registration "
            "concurrency disabled every submission creates a fresh distinct invocation. Tie: AST facts (lookup statuses, single-path "
            "indexing) + seeded op sequences with positional/keyword spellings on MemOrchestrator and SQLiteOrchestrator compared "
            "step by step with the model (outputs, all statuses, queue).",
    "note": "Trusted: argument values are small ints, two tasks with parameters (a, b), key argument 'a'; binding of spellings to "
            "canonical arguments is C15's subject (exercised here through 4 spellings); workers are real DistributedInvocation.run "
            "parked in the body by the scheduler; a poll is get_invocations_to_run limited to one queue entry.",
    "design_ref": "DESIGN.md §6 C07",
}
IMPORTS = ["Model.Status", "Model.ConcControl", "gen.ConcFacts_gen"]


def key_of(mode, args):
    return {"DISABLED": (), "TASK": (), "ARGUMENTS": tuple(args), "KEYS": (args[0],)}[mode]


def run_case(ctx: Ctx, kind, scratch, cfgs, ops, spell_seed, prop: str):
    conf = {"auto_final_invocation_purge_hours": 0.0} if any(o[0] == "autopurge" for o in ops) else {}
    r = C.Runner(kind, scratch, cfgs, **conf)
    outs, bad = [], None
    prev_sts: list = []
    args_of: dict[int, tuple] = {}
    task_of: dict[int, int] = {}
    try:
        for n, o in enumerate(ops):
            out = r.apply(o, spelling=(spell_seed + n))
            outs.append(out)
            if o[0] == "submit" and out[0] == 0:
                args_of[out[1]], task_of[out[1]] = tuple(o[2]), o[1]
            if o[0] == "nested" and out[0] == 0:
                args_of[out[1]], task_of[out[1]] = tuple(o[3]), o[2]
            if o[0] == "batch":
                for i, a in zip(out[1:], o[2]):
                    args_of[i], task_of[i] = tuple(a), o[1]
            sts, q = r.observe()
            # ---- oracles, straight from the property statements
            from harness.translate.status_table import STATUSES
            if prop == "C07":
                seen = {}
                for i, st in enumerate(sts):
                    t = task_of.get(i)
                    if t is None or st == 99 or cfgs[t]["reg"] == "DISABLED" or STATUSES[st] != "REGISTERED":
                        continue
                    k = (t, key_of(cfgs[t]["reg"], args_of[i]))
                    if k in seen and not bad:
                        bad = (n, f"two REGISTERED invocations (#{seen[k]}, #{i}) for registration key {k} after op #{n} {o}")
                    seen[k] = i
                if o[0] == "submit" and cfgs[o[1]]["reg"] == "DISABLED" and out[0] != 0 and not bad:
                    bad = (n, f"registration concurrency disabled but submission #{n} did not create a new invocation: {out}")
            else:
                seen = {}
                for i, st in enumerate(sts):
                    t = task_of.get(i)
                    if t is None or st == 99 or cfgs[t]["run"] == "DISABLED" or STATUSES[st] != "RUNNING":
                        continue
                    k = (t, key_of(cfgs[t]["run"], args_of[i]))
                    if k in seen and not bad:
                        bad = (n, f"two RUNNING invocations (#{seen[k]}, #{i}) with running-concurrency key {k} after op #{n} {o}")
                    seen[k] = i
                if out[0] == 10 and not bad:
                    i = out[1]
                    was = STATUSES[prev_sts[i]] if i < len(prev_sts) and prev_sts[i] != 99 else "?"
                    t = task_of.get(i)
                    target = "CONCURRENCY_CONTROLLED" if (t is not None and cfgs[t]["reroute"]) else "CONCURRENCY_CONTROLLED_FINAL"
                    bad = (n, f"poll raised while handling blocked invocation #{i} in status {was} (needs {was}->{target}, op #{n})")
            prev_sts = sts
        sts, q = r.observe()
    finally:
        r.close()
    return outs, sts, q, bad


def classify_poll_raise(ops, outs, cfgs, n):
    """signature of a raising poll: which available status the blocked invocation was in and the task option"""
    return "poll-raises"


def long_key(a: str, b: int = 0) -> int:
    return len(a) + b


def long_keys(ctx: Ctx, scratch: str, prop: str) -> int:
    """the key of a call is made of SERIALIZED argument values: big values (externalised by the client data store, or kept inline
    because caching is disabled for them) must give the same key at submission, in the index and at lookup"""
    from pynenc.conf.config_task import ConcurrencyControlType as CT
    from pynenc.invocation.dist_invocation import ReusedInvocation
    n = 0
    for kind in ("mem", "sqlite"):
        for mode in ("KEYS", "ARGUMENTS"):
            for disable in ((), ("a",), ("*",)):
                for size in (8, 1021, 1022, 1030, 6000):
                    app = world.make_app(kind, scratch)
                    opts = dict(key_arguments=("a",), disable_cache_args=disable)
                    if prop == "C07":
                        opts["registration_concurrency"] = CT[mode]
                    else:
                        opts.update(running_concurrency=CT[mode], reroute_on_concurrency_control=True)
                    t = app.task(long_key, **opts)
                    va, vb = "A" * size, "B" * size
                    n += 1
                    what = f"{kind}/{mode}/disable_cache_args={disable}/key of {size} chars"
                    rp = {"kind": "long-keys", "backend": kind, "mode": mode, "disable": list(disable), "size": size}
                    if prop == "C07":
                        i1, i2, i3, i4 = t(va, 1), t(va, 1), t(vb, 1), t(va, 1)
                        ids = [x.invocation_id for x in (i1, i2, i3, i4)]
                        if not (ids[0] == ids[1] == ids[3]) or ids[2] == ids[0] or not isinstance(i2, ReusedInvocation):
                            ctx.violation("long-key:registration", f"{what}: submissions f(A), f(A), f(B), f(A) while everything is REGISTERED gave invocations "
                                          f"{[ids.index(x) for x in ids]} (expected [0, 0, 2, 0])", rp)
                    else:
                        i1, i2 = t(va, 1), t(va, 1)
                        r1 = world.runner_ctx("r1")
                        got = [g.invocation_id for g in app.orchestrator.get_invocations_to_run(1, r1)]
                        from pynenc.invocation.status import InvocationStatus as St
                        if got:
                            app.orchestrator.set_invocation_status(got[0], St.RUNNING, r1)
                        got2 = [g.invocation_id for g in app.orchestrator.get_invocations_to_run(1, world.runner_ctx("r2"))]
                        sts = [app.orchestrator.get_invocation_status(x.invocation_id).name for x in (i1, i2)]
                        if got2 or sts.count("RUNNING") + sts.count("PENDING") > 1:
                            ctx.violation("long-key:running", f"{what}: two invocations with the same key; after the first is RUNNING a second poll returned "
                                          f"{len(got2)} invocation(s); statuses {sts}", rp)
    ctx.notes["long_keys"] = {"cases": n}
    return n


def impl_only_cases(ctx: Ctx, prop: str):
    rng = ctx.rng
    mode = "run" if prop == "C06" else "reg"
    out = []
    for m in ("ARGUMENTS", "KEYS", "TASK"):
        base = {"reg": "DISABLED", "raise": False, "run": "DISABLED", "reroute": True}
        c = dict(base, **{mode: m})
        cf = dict(c, reroute=False)
        if prop == "C06":
            out += [
                # an older finished same-key invocation is purged while another one is RUNNING; then a third arrives
                ([c, c], [("submit", 0, (1, 1)), ("poll", 1), ("start", 0), ("finish", 0), ("submit", 0, (1, 1)), ("poll", 1), ("start", 1),
                          ("autopurge",), ("submit", 0, (1, 1)), ("poll", 2), ("start", 2), ("poll", 2)], 0),
                ([c, c], [("submit", 0, (1, 2)), ("submit", 0, (1, 1)), ("poll", 1), ("poll", 1), ("start", 0), ("finish", 0), ("start", 1),
                          ("autopurge",), ("submit", 0, (1, 1)), ("submit", 0, (1, 2)), ("poll", 2), ("poll", 2), ("start", 2), ("start", 3)], 1),
                # a RUNNING invocation submits, from inside its body, a call with its OWN concurrency key
                ([c, c], [("submit", 0, (1, 1)), ("poll", 1), ("start", 0), ("nested", 0, 0, (1, 1)), ("poll", 2), ("start", 1), ("poll", 2)], 0),
                ([cf, cf], [("submit", 0, (2, 1)), ("poll", 1), ("start", 0), ("nested", 0, 0, (2, 1)), ("nested", 0, 0, (2, 2)), ("poll", 2), ("poll", 2),
                            ("start", 1), ("start", 2)], 2),
            ]
        else:
            out += [
                ([c, c], [("submit", 0, (1, 1)), ("poll", 1), ("start", 0), ("finish", 0), ("submit", 0, (1, 1)), ("autopurge",), ("submit", 0, (1, 1)),
                          ("submit", 0, (1, 2)), ("submit", 0, (1, 1))], 0),
                ([c, c], [("submit", 0, (1, 1)), ("poll", 1), ("start", 0), ("nested", 0, 0, (1, 1)), ("nested", 0, 0, (1, 1)), ("submit", 0, (1, 1))], 1),
            ]
    for k in range(40 if ctx.thorough else 10):
        cfgs = C.gen_cfgs(rng)
        cfgs[0][mode] = rng.choice(C.MODES[1:])
        if prop == "C06":
            cfgs[0]["reg"] = "DISABLED"
        ops = C.gen_ops(rng, cfgs, rng.randint(10, 26))
        # sprinkle the two extra operations
        for _ in range(rng.randint(1, 4)):
            pos = rng.randint(2, len(ops))
            n_inv = sum(1 for o in ops[:pos] if o[0] == "submit") + sum(len(o[2]) for o in ops[:pos] if o[0] == "batch")
            ops.insert(pos, ("autopurge",) if rng.random() < 0.4 else ("nested", rng.randrange(max(1, n_inv)), rng.randrange(2), (rng.randint(1, 2), rng.randint(1, 2))))
        out.append((cfgs, ops, rng.randrange(4)))
    return out


def main(ctx: Ctx, prop: str = "C07") -> int:
    world.quiet()
    info = ctx.translate("conc_facts", conc_facts.translate, "gen/ConcFacts_gen.v")
    ctx.notes["facts"] = info.get("facts")
    ctx.prove(f"Props/{prop}.v")
    n_seq = (220 if ctx.thorough else 36)
    cases = []
    rng = ctx.rng
    for k in range(n_seq):
        cfgs = C.gen_cfgs(rng)
        if prop == "C07" and k % 3 != 2:
            cfgs[0]["reg"] = rng.choice(C.MODES[1:])
        if prop == "C06" and k % 3 != 2:
            cfgs[0]["run"] = rng.choice(C.MODES[1:])
            cfgs[0]["reg"] = "DISABLED" if rng.random() < 0.7 else cfgs[0]["reg"]
        cases.append((cfgs, C.gen_ops(rng, cfgs, rng.randint(6, 28)), rng.randrange(4)))
    # corpus: the shapes behind the known defects / refutations
    cc = {"reg": "DISABLED", "raise": False, "run": "ARGUMENTS", "reroute": True}
    ccf = dict(cc, reroute=False)
    cases += [([cc, cc], [("batch", 0, [(1, 1), (1, 1)]), ("poll", 1), ("start", 0), ("poll", 1), ("start", 1)], 0),
              # a lookup for a partially overlapping key must not disturb the index of the others (multi-pair intersection)
              ([cc, cc], [("submit", 0, (1, 1)), ("poll", 1), ("start", 0), ("submit", 0, (1, 2)), ("poll", 1), ("start", 1),
                          ("submit", 0, (2, 1)), ("poll", 2), ("submit", 0, (1, 1)), ("poll", 2), ("start", 3), ("poll", 2)], 0),
              ([{"reg": "ARGUMENTS", "raise": False, "run": "DISABLED", "reroute": False}] * 2,
               [("submit", 0, (1, 1)), ("submit", 0, (2, 2)), ("submit", 0, (1, 2)), ("submit", 0, (1, 1)), ("submit", 0, (2, 2)), ("submit", 0, (2, 1)), ("submit", 0, (1, 2))], 2),
              # the SECOND duplicate of a batch running while a later same-key call arrives (every member of a batch must be indexed)
              ([cc, cc], [("batch", 0, [(1, 1), (1, 1)]), ("poll", 1), ("start", 0), ("finish", 0), ("poll", 1), ("start", 1),
                          ("submit", 0, (1, 1)), ("poll", 2), ("start", 2), ("poll", 2)], 0),
              ([dict(cc, run="KEYS"), cc], [("batch", 0, [(2, 1), (1, 2), (2, 1), (2, 2)]), ("poll", 1), ("start", 0), ("finish", 0), ("poll", 1), ("start", 1),
                                            ("poll", 1), ("start", 2), ("submit", 0, (2, 1)), ("poll", 2), ("poll", 2), ("poll", 2)], 1),
              ([cc, cc], [("submit", 0, (1, 1)), ("submit", 0, (1, 1)), ("poll", 1), ("start", 0), ("retry", 0), ("poll", 1), ("start", 1), ("poll", 1)], 0),
              ([ccf, ccf], [("submit", 0, (1, 1)), ("submit", 0, (1, 1)), ("poll", 1), ("kill", 0), ("poll", 1), ("start", 1), ("poll", 1)], 0),
              ([{"reg": "KEYS", "raise": True, "run": "DISABLED", "reroute": False}] * 2,
               [("submit", 0, (1, 1)), ("submit", 0, (1, 1)), ("submit", 0, (1, 2)), ("submit", 0, (2, 2)), ("poll", 1), ("submit", 0, (1, 2))], 1)]
    vals = ctx.coq_eval(IMPORTS, [C.model_expr(cfgs, ops) for cfgs, ops, _ in cases], chunk=60)
    scratch = world.scratch_dir()
    n_exec, opc = 0, {}
    try:
        for kind in ("mem", "sqlite"):
            for (cfgs, ops, sp), m in zip(cases, vals):
                outs, sts, q, bad = run_case(ctx, kind, scratch, cfgs, ops, sp, prop)
                n_exec += 1
                for o in ops:
                    opc[o[0]] = opc.get(o[0], 0) + 1
                m_outs, m_sts, m_q = [list(x) for x in m[0]], list(m[1]), list(m[2])
                if bad:
                    n, what = bad
                    if "poll raised" in what:
                        key = "poll-raises:" + what.split("(needs ")[1].split(",")[0]
                    elif "RUNNING" in what:
                        key = "two-running:" + ("batch-path" if any(o[0] == "batch" for o in ops[:n + 1]) else "single-path")
                    else:
                        key = what.split(" ")[0] + "-" + what.split(" ")[1]
                    ctx.violation(f"{key}", f"{kind}: {what}; task options {cfgs}",
                                  {"kind": "sequence", "backend": kind, "cfgs": cfgs, "ops": ops[:n + 1], "spelling": sp, "observed": outs[:n + 1]})
                elif (outs, sts, sorted(q)) != (m_outs, m_sts, sorted(m_q)):
                    k = next((i for i, (a, b) in enumerate(zip(outs, m_outs)) if a != b), None)
                    ctx.violation(f"model-mismatch:{ops[k][0] if k is not None else 'state'}",
                                  f"{kind}: implementation and model disagree at op #{k} {ops[k] if k is not None else ''}: impl {outs[k] if k is not None else (sts, q)}, model {m_outs[k] if k is not None else (m_sts, m_q)}",
                                  {"kind": "sequence", "backend": kind, "cfgs": cfgs, "ops": ops, "spelling": sp,
                                   "observed": [outs, sts, q], "model": [m_outs, m_sts, m_q]})
                if kind == "mem" and len(ctx.coverage["samples"]) < 4:
                    ctx.sample({"cfgs": cfgs, "ops": ops[:10], "outputs": outs[:10]})
        # ---- sequences with operations the model does not have (a submission made from INSIDE a running body; the auto-purge of
        #      final invocations): run on the implementation only and judged by the oracle of the statement after every operation
        n_exec += long_keys(ctx, scratch, prop)
        extra = impl_only_cases(ctx, prop)
        for kind in ("mem", "sqlite"):
            for cfgs, ops, sp in extra:
                outs, sts, q, bad = run_case(ctx, kind, scratch, cfgs, ops, sp, prop)
                n_exec += 1
                for o in ops:
                    opc[o[0]] = opc.get(o[0], 0) + 1
                if bad:
                    n, what = bad
                    key = ("poll-raises:" + what.split("(needs ")[1].split(",")[0]) if "poll raised" in what else \
                        (("two-running:" if "RUNNING" in what else "two-registered:") + ("nested" if any(o[0] == "nested" for o in ops[:n + 1]) else
                                                                                        "after-purge" if any(o[0] == "autopurge" for o in ops[:n + 1]) else "plain"))
                    ctx.violation(key, f"{kind}: {what}; task options {cfgs}",
                                  {"kind": "sequence", "backend": kind, "cfgs": cfgs, "ops": ops[:n + 1], "spelling": sp, "observed": outs[:n + 1]})
    finally:
        world.rm_scratch(scratch)
    ctx.notes["impl_only_sequences"] = len(extra)
    ctx.count(n_exec, len({json.dumps([c, o]) for c, o, _ in cases}))
    ctx.notes["sequences"] = {"cases": len(cases), "executions": n_exec, "op_histogram": opc}
    ctx.assumptions += ["two tasks (a, b), values in {1,2}, key argument a; runners r1, r2"]
    return ctx.finish(rule="seeded op sequences (6-28 ops) over random task configurations (4x4 modes, raise/reroute flags) + corpus of "
                           "defect-shaped sequences, each on mem and sqlite, compared with the Coq model after every op; "
                           "distinct = distinct (configuration, sequence) pairs")


def replay(ctx: Ctx, path: str, prop: str = "C07") -> int:
    world.quiet()
    rp = json.load(open(path))["replay"]
    if rp.get("kind") == "long-keys":
        world.quiet()
        scratch = world.scratch_dir()
        try:
            long_keys(ctx, scratch, prop)
            for v in ctx.violations + ctx.known_hits:
                print("REPRODUCED:", v["what"])
        finally:
            world.rm_scratch(scratch)
        return 0
    scratch = world.scratch_dir()
    try:
        outs, sts, q, bad = run_case(ctx, rp["backend"], scratch, rp["cfgs"], [tuple(o) if not isinstance(o[2] if len(o) > 2 else 0, list) else (o[0], o[1], [tuple(x) for x in o[2]] if o[0] == "batch" else tuple(o[2])) for o in rp["ops"]], rp["spelling"], prop)
        print("outputs", outs, "statuses", sts, "queue", q, "oracle", bad)
    finally:
        world.rm_scratch(scratch)
    return 0

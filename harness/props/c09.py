"""C09 — waiting on sub-tasks is tracked exactly and can never deadlock a runner.

proof: Props/C09.v — (1) the in-memory wait-graph structures = the reference edge set (= SQLite) for every history;
       (2) progress + potential for every call forest and every slot count >= 1 on the runner model instantiated
       with gen/RunnerFacts_gen.v.
tie:   AST facts + (1) histories of wait declarations / completions / status changes on both real backends against the
       Coq model and an independent reference, all limits incl. 0; (2) generated call trees executed by the REAL
       ThreadRunner with 1 and 2 slots under the deterministic scheduler (round-robin and seeded random, fair).
"""
from __future__ import annotations

import json

from harness import runner_driver as R
from harness import sched as S
from harness import tasks_tree, world
from harness.common import Ctx
from harness.translate import runner_facts
from harness.translate.status_table import STATUSES

GENERATED = [("harness.translate.runner_facts", "translate", "gen/RunnerFacts_gen.v")]
MANIFEST = {
    "technique": "Coq proofs: representation invariant of the incremental wait-graph structures (induction over histories) and progress + decreasing potential for every call forest on a runner model with generated facts; differential correspondence and scheduled real ThreadRunner runs",
    "text": "Theorems (Props/C09.v): (1) for every history of wait declarations and completions the in-memory waiting_for / "
            "waited_by / _ready structures, modelled line by line, report exactly {x | someone waits on x, x unfinished, x waits on "
            "nothing, x runnable} evaluated on the reference edge set, which is what the SQLite backend stores and queries; a "
            "finished invocation has no waiters recorded; a limit n yields min(n, #) correct distinct answers. (2) On the thread-"
            "runner model instantiated with the generated facts (waiting threads do not count against slots; blocking "
            "invocations claimed first) for EVERY forest of nested calls and every slot count >= 1: no step increases the "
            "potential, in every reachable unfinished state some enabled step strictly decreases it, hence the forest completes "
            "within phi steps; counting waiting threads against slots is refuted (1 slot, parent waits child: stuck for ever). "
            "Tie: AST facts; wait-graph histories on both backends vs model and reference; generated trees (single/group/mixed/seq "
            "waits, depth <= 3) on the real ThreadRunner with 1 and 2 slots under fair deterministic schedules in virtual time.",
    "note": "Trusted: fairness of the real thread scheduler (no enabled productive step starved for ever); scheduler harness (threads of "
            "thread_runner.py shimmed into actors, sleeps are yields); forests: children called before awaited, one parent per child.",
    "design_ref": "DESIGN.md §6 C09, Appendix B",
}
IMPORTS = ["Model.Blocking"]
N = 6


# ---------------------------------------------------------------- part 1
def gen_history(rng):
    ops = []
    fin = set()
    for _ in range(rng.randint(4, 22)):
        r = rng.random()
        if r < 0.40:
            w = rng.randrange(N)
            xs = rng.sample([x for x in range(N) if x != w], rng.randint(1, 3))
            ops.append(("wait", w, xs))
        elif r < 0.55:
            cand = [x for x in range(N) if x not in fin]
            if cand:
                x = rng.choice(cand)
                fin.add(x)
                ops.append(("finish", x))
        elif r < 0.70:
            cand = [x for x in range(N) if x not in fin]
            if cand:
                ops.append(("status", rng.choice(cand), rng.choice(["claim", "run", "retry", "kill"])))
                if rng.random() < 0.7:
                    ops.append(("query", rng.choice([2, 6, 10])))   # the answer depends on the CURRENT statuses: ask right after a change
        else:
            ops.append(("query", rng.choice([0, 1, 2, 3, 6, 10])))
    ops.append(("query", 10))
    return ops


def coq_hist(ops) -> str:
    out = []
    for o in ops:
        if o[0] == "wait":
            out.append(f"BWait {o[1]} [{'; '.join(map(str, o[2]))}]")
        elif o[0] == "finish":
            out.append(f"BFinish {o[1]}")
    return "[" + "; ".join(out) + "]"


def run_history(ctx: Ctx, kind, scratch, ops, queries):
    from harness import tasks_basic
    from pynenc.invocation.status import InvocationStatus as IS
    app = world.make_app(kind, scratch)
    t = tasks_basic.bind(app, tasks_basic.add_one)
    ids = [t(i).invocation_id for i in range(N)]
    orch = app.orchestrator
    E: set = set()                 # reference edge set, straight from the statement
    done: set = set()

    def st(i):
        return orch.get_invocation_status(ids[i])

    def move(i, path, rid="r1"):
        for s in path:
            try:
                orch.set_invocation_status(ids[i], IS[s], world.runner_ctx(rid))
            except Exception:  # noqa: BLE001 - refused moves are simply not performed
                return
    for k, o in enumerate(ops):
        if o[0] == "wait":
            orch.waiting_for_results(ids[o[1]], [ids[x] for x in o[2]])
            E |= {(o[1], x) for x in o[2]}
        elif o[0] == "finish":
            x = o[1]
            cur = st(x).name
            path = {"REGISTERED": ["PENDING", "RUNNING", "SUCCESS"], "REROUTED": ["PENDING", "RUNNING", "SUCCESS"],
                    "RETRY": ["PENDING", "RUNNING", "SUCCESS"], "PENDING": ["RUNNING", "SUCCESS"], "RUNNING": ["SUCCESS"],
                    "KILLED": ["REROUTED", "PENDING", "RUNNING", "SUCCESS"]}.get(cur, [])
            move(x, path)
            if st(x).name == "SUCCESS":
                done.add(x)
                E = {(a, b) for (a, b) in E if b != x}
        elif o[0] == "status":
            x, what = o[1], o[2]
            cur = st(x).name
            if what == "claim" and cur in ("REGISTERED", "REROUTED", "RETRY"):
                move(x, ["PENDING"])
            elif what == "run" and cur in ("REGISTERED", "REROUTED", "RETRY", "PENDING"):
                move(x, (["PENDING"] if cur != "PENDING" else []) + ["RUNNING"])
            elif what == "retry" and cur == "RUNNING":
                move(x, ["RETRY"])
            elif what == "kill" and cur in ("PENDING", "RUNNING"):
                move(x, ["KILLED", "REROUTED"])
        else:
            limit = o[1]
            got = [ids.index(x) for x in orch.get_blocking_invocations(limit)]
            runnable = [i for i in range(N) if st(i).name in ("REGISTERED", "REROUTED", "RETRY")]
            ref = sorted(x for x in runnable if any(b == x for (_, b) in E) and not any(a == x for (a, _) in E))
            bad = None
            if len(set(got)) != len(got):
                bad = f"duplicate ids in the answer {got}"
            elif not set(got) <= set(ref):
                bad = f"reported {sorted(set(got) - set(ref))} which the definition excludes"
            elif len(got) != min(max(limit, 0), len(ref)):
                bad = f"limit {limit}: {len(got)} answers, expected min(limit, {len(ref)})"
            if bad:
                ctx.violation(f"blocking:{kind}:{bad.split(' ')[0]}{':limit0' if limit == 0 else ''}",
                              f"{kind}: get_blocking_invocations({limit}) = {got}; definition gives {ref} (edges {sorted(E)}, runnable {runnable}): {bad}",
                              {"kind": "history", "backend": kind, "ops": ops[:k + 1], "observed": got, "expected": ref})
            hist = coq_hist(ops[:k])
            rl = "[" + "; ".join(map(str, runnable)) + "]"
            queries.append((f"(fun s => (filter (mem_blocking (fun x => mem_inv x {rl}) (bmem s)) (seq 0 {N}), "
                            f"filter (ref_blocking (fun x => mem_inv x {rl}) (bref s)) (seq 0 {N}))) (brun bstate0 {hist})",
                            ref, {"backend": kind, "step": k, "limit": limit, "got": got}))
    app.state_backend.wait_for_all_async_operations()


def part1(ctx: Ctx, scratch):
    n = 160 if ctx.thorough else 30
    queries: list = []
    opc: dict = {}
    hists = [gen_history(ctx.rng) for _ in range(n)]
    hists.append([("wait", 0, [1]), ("query", 0), ("wait", 1, [2]), ("query", 5), ("finish", 2), ("query", 5), ("finish", 1), ("query", 5)])
    # an awaited invocation that is claimed, polled while not runnable, and becomes runnable AGAIN (retry / kill + reroute): the
    # answer is a function of the graph and the current statuses, not of what earlier polls saw
    hists.append([("wait", 0, [1]), ("status", 1, "claim"), ("query", 5), ("status", 1, "run"), ("query", 5), ("status", 1, "retry"), ("query", 5),
                  ("status", 1, "claim"), ("query", 5), ("status", 1, "kill"), ("query", 5), ("wait", 2, [1, 3]), ("status", 3, "run"), ("query", 5),
                  ("status", 3, "kill"), ("query", 5), ("finish", 1), ("query", 5), ("finish", 3), ("query", 5)])
    hists.append([("wait", 0, [1]), ("wait", 1, [2]), ("status", 2, "run"), ("query", 10), ("query", 10), ("status", 2, "retry"), ("query", 10),
                  ("finish", 2), ("query", 10), ("status", 1, "claim"), ("query", 10), ("status", 1, "kill"), ("query", 10)])
    for h in hists:
        for o in h:
            opc[o[0]] = opc.get(o[0], 0) + 1
        for kind in ("mem", "sqlite"):
            run_history(ctx, kind, scratch, h, queries)
    vals = ctx.coq_eval(IMPORTS, [q[0] for q in queries], chunk=150)
    nontriv = 0
    for (expr, ref, meta), (m_mem, m_ref) in zip(queries, vals):
        nontriv += 1 if ref else 0
        if sorted(m_mem) != ref or sorted(m_ref) != ref:
            ctx.violation("model-mismatch:blocking", f"Coq model answers mem={m_mem} ref={m_ref}, reference on the implementation's state = {ref}",
                          {"kind": "model-mismatch", "meta": meta, "expr": expr})
    ctx.sample({"history": hists[0][:10]})
    ctx.count(len(queries), nontriv)
    ctx.notes["wait_graph"] = {"histories": len(hists), "queries": len(queries), "nonempty_answers": nontriv, "op_histogram": opc}


# ---------------------------------------------------------------- part 2
def run_tree(kind, scratch, spec, slots, mode, seed, budget):
    import random
    rng = random.Random(seed)
    w = R.RunnerWorld(kind, scratch, slots)
    tasks_tree.LOG.clear()
    tasks_tree.FAIL.clear()
    tasks_tree.TASK = w.app.task(tasks_tree.node)
    root = tasks_tree.TASK(spec)
    rid = root.invocation_id
    w.start_runner()
    state = {"stopping": False, "final_at": None}

    def hook(s):
        if not state["stopping"]:
            st = w.raw_status(rid)
            if st and st[0] in ("SUCCESS", "FAILED"):
                state["stopping"] = True
                state["final_at"] = len(s.trace)
                w.runner.stop_runner_loop()
        return None
    try:
        status = w.sched.run(R.fair_chooser(mode, rng, hook), max_steps=budget)
    finally:
        w.close()
    st = w.raw_status(rid)
    result = None
    if st and st[0] == "SUCCESS":
        result = w.app.state_backend.get_result(rid)
    n_final = sum(1 for i in w.all_invocations() if (w.raw_status(i) or ("?",))[0] in ("SUCCESS", "FAILED"))
    return {"status": status, "root": st[0] if st else None, "result": result, "expected": tasks_tree.expected(spec),
            "steps": len(w.sched.trace), "final_at": state["final_at"], "invocations": len(w.all_invocations()), "final": n_final,
            "actors": len(w.sched.actors)}


def part2(ctx: Ctx, scratch):
    rng = ctx.rng
    trees = [[0, "single", [[1, "leaf", []]]],
             [0, "single", [[1, "single", [[2, "leaf", []]]], [3, "leaf", []]]],
             [0, "group", [[1, "leaf", []], [2, "group", [[3, "leaf", []], [4, "leaf", []]]]]],
             [0, "mixed", [[1, "seq", [[2, "leaf", []], [3, "leaf", []]]], [4, "leaf", []], [5, "leaf", []]]]]
    n_rand = 14 if ctx.thorough else 3
    for _ in range(n_rand):
        trees.append(tasks_tree.gen_tree(rng, rng.randint(1, 3), rng.randint(2, 3)))
    total, sizes = 0, {}
    for spec in trees:
        if ctx.notes.get("_tree_bad", 0) >= 2:
            break            # two failing runs are enough evidence; every further one costs a full step budget
        sz = tasks_tree.size(spec)
        sizes[sz] = sizes.get(sz, 0) + 1
        for kind in (("mem", "sqlite") if (ctx.thorough or sz <= 6) else ("mem",)):
            for slots in (1, 2):
                for mode in ("rr", "random"):
                    seed = rng.randrange(10 ** 9)
                    budget = 4000 + 2500 * sz
                    out = run_tree(kind, scratch, spec, slots, mode, seed, budget)
                    total += 1
                    bad = None
                    if out["root"] != "SUCCESS":
                        bad = f"tree of {sz} nested calls did not complete on a {slots}-slot thread runner within {budget} fair scheduling steps (root {out['root']}, {out['final']}/{out['invocations']} invocations final, run ended {out['status']})"
                    elif out["result"] != out["expected"]:
                        bad = f"root result {out['result']} != {out['expected']}"
                    if bad:
                        n_bad = ctx.notes.get("_tree_bad", 0) + 1
                        ctx.notes["_tree_bad"] = n_bad
                        ctx.violation(f"tree:{kind}:{'not-completed' if 'did not' in bad else 'wrong-result'}:slots{slots}", f"{kind}/{mode}: {bad}",
                                      {"kind": "tree", "backend": kind, "spec": spec, "slots": slots, "mode": mode, "seed": seed, "budget": budget, "observed": out})
                    elif len(ctx.coverage["samples"]) < 5:
                        ctx.sample({"tree": spec, "backend": kind, "slots": slots, "schedule": mode, "steps": out["steps"], "threads": out["actors"] - 1})
    ctx.count(total, total)
    ctx.notes["trees"] = {"trees": len(trees), "runs": total, "size_histogram": {str(k): v for k, v in sorted(sizes.items())},
                          "slots": [1, 2], "schedules": ["round-robin", "seeded random"]}


def main(ctx: Ctx) -> int:
    world.quiet()
    info = ctx.translate("runner_facts", runner_facts.translate, "gen/RunnerFacts_gen.v")
    ctx.notes["facts"] = info.get("facts")
    ctx.prove("Props/C09.v")
    scratch = world.scratch_dir()
    try:
        part1(ctx, scratch)
        part2(ctx, scratch)
    finally:
        world.rm_scratch(scratch)
    ctx.assumptions += ["6 invocation ids in the wait-graph histories; trees of depth <= 3, fan-out <= 3",
                        "fair schedules (round-robin / seeded uniform random over runnable actors)"]
    return ctx.finish(rule="part 1: every get_blocking_invocations query of a seeded history (waits, completions through the public status API, "
                           "claims/runs/retries/kills, limits 0..10) on mem and sqlite is one evaluation; part 2: one evaluation per "
                           "(tree, backend, slots, schedule) run of the real ThreadRunner; non-trivial = non-empty answer / every tree run")


def replay(ctx: Ctx, path: str) -> int:
    world.quiet()
    rp = json.load(open(path))["replay"]
    scratch = world.scratch_dir()
    try:
        if rp["kind"] == "tree":
            print(json.dumps(run_tree(rp["backend"], scratch, rp["spec"], rp["slots"], rp["mode"], rp["seed"], rp["budget"]), indent=1))
        elif rp["kind"] == "history":
            q: list = []
            run_history(ctx, rp["backend"], scratch, [tuple(o) for o in rp["ops"]], q)
            for v in ctx.violations + ctx.known_hits:
                print("REPRODUCED:", v["what"])
    finally:
        world.rm_scratch(scratch)
    return 0


_ = (S, STATUSES)

"""C06 — running concurrency control: never two RUNNING invocations with the same key.

proof: Props/C06.v (serialised-pollers partial theorem + refutation witnesses) over gen/ConcFacts_gen.v.
tie:   AST facts + the op-sequence correspondence of C07's driver with the running-key oracle, plus a two-poller
       schedule exploration on the real code (the check-then-act window).
"""
from __future__ import annotations

from harness.common import Ctx
from harness.props import c07

GENERATED = c07.GENERATED
MANIFEST = {
    "technique": "Coq invariant proof (serialised polls, arbitrary workers/submissions) over generated indexing facts + refutation witnesses + differential correspondence and two-poller exploration",
    "text": "Theorems (Props/C06.v): with every submission path indexing arguments (generated facts, batch path included) and the "
            "candidate/authorisation checks looking at the generated status lists, for every history of submissions (single, "
            "batch), serialised polls, worker starts, finishes, retries and kills and every task configuration, two distinct "
            "PENDING-or-RUNNING invocations of a task with running concurrency never share the key — never two RUNNING; a refusal "
            "always has a same-key witness (different keys never block); the un-indexed batch path, a blocked invocation in RETRY and "
            "a blocked REROUTED one with the final option are refuted by computed witnesses. Tie: AST facts + op sequences on both "
            "backends vs the model with the RUNNING-per-key oracle after every operation.",
    "note": "PARTIAL: polls are serialised in the theorem (one queue entry checked and claimed atomically); the two-poller "
            "check-then-act window and the missing graph edges for blocked RETRY/REROUTED invocations are known findings. Trusted as in C07.",
    "design_ref": "DESIGN.md §6 C06",
}


def two_pollers(ctx: Ctx) -> None:
    """two real polling runners on two same-key invocations: the check-then-act windows (validation / search)"""
    import json

    from harness import conc_driver as D
    from harness import sched as S
    from harness import tasks_conc, world
    from pynenc.conf.config_task import ConcurrencyControlType as CT

    def run_one(kind, scratch, prefix):
        w = D.World(kind, scratch)
        s = S.Sched()
        t = w.task(tasks_conc.work, running_concurrency=CT.TASK, reroute_on_concurrency_control=True)
        ids = [t(i).invocation_id for i in range(2)]
        if kind == "mem":
            for obj, name in ((w.app.broker, "retrieve_invocation"), (w.app.orchestrator, "get_existing_invocations"),
                              (w.app.orchestrator, "_atomic_status_transition")):
                real = getattr(obj, name)

                def wrapped(*a, _real=real, _name=name, **k):
                    s.yield_point(_name)
                    return _real(*a, **k)
                setattr(obj, name, wrapped)
        outs = {0: [], 1: []}
        for k in range(2):
            s.spawn(f"r{k}", w.polling_runner(f"r{k}", 1, outs[k]))
        try:
            status = s.run(S.replay_chooser(prefix), max_steps=5000)
        finally:
            s.shutdown()
        depth, worst = 0, 0
        for ev, who in w.body_log:
            depth += 1 if ev == "enter" else -1
            worst = max(worst, depth)
        raised = [repr(a.exc) for a in s.actors if a.exc is not None]
        verdict = None
        if worst > 1:
            verdict = "two invocations of one TASK-concurrency task were RUNNING (bodies executing) at the same time"
        elif raised:
            verdict = f"poller raised {raised}"
        return s.decisions, {"verdict": verdict, "status": status, "tlog": [(ids.index(i), st, r, ok) for i, st, r, ok, _ in w.tlog]}

    crit = ("get_existing_invocations", "_atomic_status_transition", "retrieve_invocation", "sql:SELECT I.INVOCATION_ID", "sql:BEGIN IMMEDIATE",
            "sql:UPDATE", "sql:COMMIT", "sql:SELECT ID, INVOCATION_ID", "body")
    scratch = world.scratch_dir()
    total = 0
    try:
        for kind in ("mem", "sqlite"):
            n = 0
            budget = 1500 if ctx.thorough else (400 if kind == "mem" else 250)
            for schedule, out in S.explore(lambda p: run_one(kind, scratch, p), max_preemptions=3, max_runs=budget,
                                           preempt_at=lambda lab: any(c in lab for c in crit)):
                n += 1
                if out["verdict"]:
                    key = "two-pollers:check-then-act" if "RUNNING" in out["verdict"] else "two-pollers:" + out["verdict"][:30]
                    ctx.violation(key, f"{kind}: two concurrent pollers: {out['verdict']} (transitions {out['tlog']})",
                                  {"kind": "two_pollers", "backend": kind, "schedule": schedule, "observed": out})
                    break
            total += n
            ctx.notes.setdefault("two_pollers", {})[kind] = n
    finally:
        world.rm_scratch(scratch)
    ctx.count(total, total)
    del json


def main(ctx: Ctx) -> int:
    _finish = ctx.finish
    code = {}

    def deferred(rule, **kw):
        code["rule"] = rule
        return 0
    ctx.finish = deferred
    c07.main(ctx, prop="C06")
    ctx.finish = _finish
    two_pollers(ctx)
    return ctx.finish(rule=code["rule"] + "; plus DFS (<=3 pre-emptions around the candidate/authorisation checks and claims) over two real "
                      "polling runners on two same-key invocations")


def replay(ctx: Ctx, path: str) -> int:
    return c07.replay(ctx, path, prop="C06")

"""C17 — applications with different ids are fully isolated, for any id string.

proof: Props/C17.v over the constants generated from pynenc/util/sqlite_utils.py and the five sqlite
       component modules (regex class, digit rule, default, hash length, separators, every table
       suffix, the selection rule of delete_tables_with_prefix) and an executable SHA-256.
tie:   (1) sanitize_table_prefix and the five Tables classes on adversarial ids  vs  prefix / all_tables;
       (2) delete_tables_with_prefix on a synthetic database of look-alike table names  vs  purge_selects;
       (3) pairs and triples of REAL apps on one SQLite file and in one process (in-memory components),
           seeded operation sequences incl. the purge of each component: row counts of every table vs
           AppDb.run, and an oracle evaluated on the implementation alone: an operation of app A never
           changes anything app B can read (API level and raw table dump) and the table list stays
           what the naming scheme says.  The read-out goes through the public, caching layers too (reference
           keys created by ANY app resolved through each app's client data store, app info / discovery,
           registered invocations, runners, valid conditions, cron marks, trigger-run claims);
       (4) process-wide state: gen/ProcShared_gen.v (every mutable container bound in a class body / at module
           level of the component modules + the kinds of access made to it) vs the containers the components
           of two real apps are SEEN to share (object identity); oracle on the implementation: an operation of
           app A changes such a container only under A's own id;
       (5) id channels: apps whose id arrives through the builder, config_values, a config file, file + values,
           PYNENC__APP_ID or not at all (default id), pairwise in one process with an empty / a populated
           instance registry: own id, own object, pairwise isolation read-outs.
"""
from __future__ import annotations

import json
import os
import pickle
import re
import sqlite3

from harness import world
from harness.common import Ctx
from harness.translate import procshared as trp
from harness.translate import sanitize as tr

GENERATED = [("harness.translate.sanitize", "translate", "gen/Sanitize_gen.v"),
             ("harness.translate.procshared", "translate", "gen/ProcShared_gen.v")]

MANIFEST = {
    "technique": "Coq proof over constants generated from sqlite_utils.py and over the generated list of process-wide containers of the component modules + executable SHA-256 + differential correspondence on real apps",
    "text": "Machine-checked theorems (Props/C17.v, all closed under the global context): for EVERY id string the table prefix and "
            "every table name is an unquoted SQL identifier (no metacharacter survives); the naming scheme parses uniquely from the "
            "right (equal names => equal sanitised text, equal hash digits, same component, same table); LIKE prefix||'%' is "
            "characterised exactly ('_' wildcard, ASCII case folding); with the structural selection rule no operation sequence of "
            "apps with a different prefix changes any row count of B (induction over the sequence); the LIKE rule of the current "
            "tree is refuted constructively (B := A's table prefix + anything) and proved isolated for same-length ids unless the "
            "hash digits coincide; a concrete 32-bit collision pair shares all 22 tables. The regex class, digit rule, default, "
            "hash length, separators, all table suffixes and the purge selection rule are regenerated from the source on every run. "
            "One process: every mutable container bound in a class body or at module level of the five component packages (the only state the "
            "components of two apps can have in common) is regenerated from the source with the kinds of access made to it (read/store/remove "
            "under an application id or a key derived from it, whole-container read, access at any other key, clear); proved: if all of them are only "
            "stored to / removed from under the acting app's id, no access sequence of other apps changes what B observes (induction), and the "
            "containers of the current tree satisfy it (process_isolation_of_this_tree: breaks when a container is cleared as a whole or used at "
            "foreign keys, both refuted by witnesses). "
            "Tie: model prefix/table names vs sanitize_table_prefix/Tables on adversarial ids; model purge_selects vs the real "
            "delete_tables_with_prefix on look-alike names; real app pairs/triples on one SQLite file and in one process with "
            "seeded op sequences, row counts vs the model and a non-interference oracle on API read-outs, raw table dumps and sqlite_master; the "
            "sequences also go through the public caching layers (values kept by reference, task calls with large arguments, read-backs, probes "
            "of reference keys only another app created, app-info registration, cron marks, trigger-run claims) and the read-out resolves every "
            "reference key of the universe through every app, reads app info / discovery, registered invocations, runners, valid conditions; "
            "what an app reads about itself must be its own; the containers that the components of two apps really share (object identity, "
            "walked from the component objects) are compared with the generated list and may only change under the acting app's id; every ordered "
            "pair of the channels through which an id reaches an app (builder, config_values, config file alone, config file + values, "
            "PYNENC__APP_ID, no id = default id) is built in one process with an empty and with a populated instance registry (pickle round "
            "trip of each app, the registry never cleared between the apps of a case): each app reports its own id, is its own object, and "
            "the isolation read-outs hold pairwise.",
    "note": "Trusted: Coq kernel; AST translator (fail-closed); SQLite's LIKE and sqlite_master; hashlib (the Gallina SHA-256 is compared "
            "with it on every id used). Modelled, not verified: what each component API writes (the model records one row per low-level "
            "write; high-level task calls are covered by the oracle only). In-process isolation: the model covers the process-wide containers of "
            "pynenc/{broker,orchestrator,state_backend,trigger,client_data_store}/*.py (class-body and module-level bindings, instance attributes "
            "bound to them); per-instance attributes are taken to be per application (one component instance per app object) and that is "
            "observed on the object graph, not proved; Pynenc._instances (registry of app objects, cleared as a whole by the test helper "
            "_clear_instances) and state outside these packages are outside the generated fact and covered by the observations only; "
            "whole-container reads (discover_app_infos) are the designed discovery channel: B's view through them is its own entry. Known findings: LIKE-based purge reaches look-alike ids (repair proposed in "
            "proposed_fixes/C17-purge-structural-match.diff); ids whose sanitised text begins with 'sqlite' name tables SQLite reserves "
            "(repair in proposed_fixes/C17-reserved-sqlite-prefix.diff); 8-hex-digit hash collisions share all tables (no small repair).",
    "design_ref": "DESIGN.md §6 C17",
}

IMPORTS = ["Model.SanitizeDef", "gen.Sanitize_gen", "Model.Sanitize", "Model.Like", "Model.Sha256", "Model.AppDb"]
COL_A, COL_B = "svc-.-++-.--", "svc.--:++:-:"
COMP_ATTR = {"broker": "broker", "orchestrator": "orchestrator", "state_backend": "state_backend",
             "trg": "trigger", "client": "client_data_store"}
IDENT = re.compile(r"^[A-Za-z_][A-Za-z0-9_]*$")


def cstr(s: str) -> str:
    return "[" + "; ".join(str(ord(c)) for c in s) + "]"


def pystr(v) -> str:
    return "".join(chr(x) for x in v)


# ---------------------------------------------------------------- adversarial ids
def base_ids() -> list[str]:
    ids = ["app", "my-app", "my_app", "my.app", "My-App", "MY_APP", "my app", "my--app", "my__app", "my-app-", "-my-app",
           "ap", "app_", "app_1", "app1", "App", "APP", "aPp",
           "x", "X", "a_b", "a-b", "aXb", "a%b", "a_%", "%", "_", "__", "___", "%%", "a__b", "a__broker", "__broker",
           "x'; DROP TABLE y; --", "a\"b", "a`b", "a;b", "a\\b", "a'b", "a]b", "[a]", "a b;c", "a/*b*/", "a--b", "a)(b",
           "café", "café", "приложение", "应用", "😀app", "ａｐｐ", "٣app", "²x", "ß", "İ", "ı",
           " ", "  ", "\t", "_default", "default",
           "1app", "9", "007", "0_0", "1", "1-1", "9 lives!",
           "a" * 120, "select", "table", "sqlite_master", "sqlite_sequence", "main.app",
           COL_A, COL_B]
    return ids


def lookalikes(real_prefix, ids: list[str], vocab) -> list[str]:
    out = []
    for a in ids:
        p = real_prefix(a)
        for comp, _ in vocab[:3]:
            tp = f"{p}__{comp}"
            out += [tp, tp + "_zzz", tp + "_", tp.upper() + "_zzz", tp.replace("_", "Q", 1) + "_q",
                    tp.replace("__", "_x", 1) + "_zzz"]
        out += [p, p + "_", p + "__", p[:-1], p.upper(), p + "__state", p + "__state_backend_results"]
    return out


def gen_ids(ctx: Ctx, real_prefix, vocab) -> list[str]:
    rng = ctx.rng
    ids = base_ids()
    ids += lookalikes(real_prefix, ["x", "a_b", "my-app", "", "1app", COL_A], vocab)
    alphabet = list("abXY09_-.%';\" /\\é应") + ["__"]
    n = 400 if ctx.thorough else 90
    for _ in range(n):
        k = rng.choice((1, 2, 3, 5, 8, 13))
        ids.append("".join(rng.choice(alphabet) for _ in range(k)))
    # punctuation / case variants of one another
    for base in ("svc-a.b", "Ab-cD"):
        for _ in range(20 if ctx.thorough else 6):
            ids.append("".join(rng.choice("-._:+ ") if not c.isalnum() else (c.upper() if rng.random() < .5 else c.lower()) for c in base))
    seen, out = set(), []
    for i in ids:
        if i not in seen:
            seen.add(i)
            out.append(i)
    return out


# ---------------------------------------------------------------- (1) sanitiser / table names
def run_names(ctx: Ctx, vocab) -> list[str]:
    from pynenc.util.sqlite_utils import sanitize_table_prefix
    mods = {}
    import importlib
    for f, (comp, _) in zip(tr.COMPONENT_FILES, vocab):
        mods[comp] = importlib.import_module(f[:-3].replace("/", "."))
    ids = gen_ids(ctx, sanitize_table_prefix, vocab) + [""]
    ids = list(dict.fromkeys(ids))
    full = ids[:12] + [i for i in ids if i in (COL_A, COL_B, "", "x'; DROP TABLE y; --", "1app", "应用")]
    full = list(dict.fromkeys(full))
    vals = ctx.coq_eval(IMPORTS, [f"prefix sha256_hex {cstr(i)}" for i in ids], chunk=max(8, len(ids) // 12 + 1))
    vals2 = ctx.coq_eval(IMPORTS, [f"({memo_digest([i])}all_tables Hm {cstr(i)})" for i in full], chunk=6)
    m_prefix = {i: pystr(v) for i, v in zip(ids, vals)}
    m_tables = {i: [pystr(n) for n in v] for i, v in zip(full, vals2)}
    by_prefix: dict[str, str] = {}
    classes = {}
    n_bad = 0
    for i in ids:
        real = sanitize_table_prefix(i)
        cls = ("empty" if not i else "ascii-ident" if IDENT.match(i) else "non-ascii" if any(ord(c) > 127 for c in i) else "punct")
        classes[cls] = classes.get(cls, 0) + 1
        if not IDENT.match(real):
            n_bad += 1
            ctx.violation("prefix-not-identifier",
                          f"sanitize_table_prefix({i!r}) = {real!r} is not an unquoted SQL identifier",
                          {"kind": "prefix", "id": i, "observed": real})
        elif real != m_prefix[i]:
            ctx.violation("model-mismatch:prefix", f"sanitize_table_prefix({i!r}) = {real!r}, model {m_prefix[i]!r}",
                          {"kind": "prefix", "id": i, "observed": real, "model": m_prefix[i]})
        if real in by_prefix and {i, by_prefix[real]} != {COL_A, COL_B} and sum(v["key"].startswith("prefix-collision") for v in ctx.violations) < 3:
            ctx.violation("prefix-collision:" + json.dumps(sorted([i, by_prefix[real]])).replace(" ", ""),
                          f"ids {by_prefix[real]!r} and {i!r} get the same table prefix {real!r}",
                          {"kind": "apps", "backend": "sqlite", "ids": [by_prefix[real], i],
                           "ops": [["write", 0, "client"], ["write", 0, "broker"]]})
        by_prefix.setdefault(real, i)
    for i in full:
        real_names = []
        for comp, sufs in vocab:
            t = mods[comp].Tables(i)
            attrs = [v for k, v in vars(t).items() if k != "table_prefix"]
            real_names += attrs
            want = [f"{t.table_prefix}{s}" for s in sufs]
            if attrs != want:
                ctx.violation("model-mismatch:tables", f"{comp}.Tables({i!r}) attributes {attrs} differ from the translated suffixes {want}",
                              {"kind": "prefix", "id": i, "observed": attrs, "model": want})
        if real_names != m_tables[i] and IDENT.match(sanitize_table_prefix(i) or ""):
            ctx.violation("model-mismatch:tables", f"table names of {i!r}: real {real_names[:3]}..., model {m_tables[i][:3]}...",
                          {"kind": "prefix", "id": i, "observed": real_names, "model": m_tables[i]})
    gen_guard(ctx)
    ctx.log(f"names: {len(ids)} ids compared")
    ctx.count(len(ids) + len(full), len(ids))
    ctx.notes["names"] = {"ids": len(ids), "prefixes_reserved_by_sqlite": sorted(i for i in ids if sanitize_table_prefix(i).lower().startswith("sqlite_"))[:8], "full_table_lists_compared": len(full), "id_classes": classes,
                          "non_identifier_prefixes": n_bad, "distinct_prefixes": len(by_prefix)}
    ctx.sample({"id": "x'; DROP TABLE y; --", "prefix": sanitize_table_prefix("x'; DROP TABLE y; --")})
    return ids


# ---------------------------------------------------------------- (2) purge selection on look-alike names
def run_purge_selection(ctx: Ctx, scratch: str, vocab) -> None:
    from pynenc.util.sqlite_utils import delete_tables_with_prefix, sanitize_table_prefix
    rng = ctx.rng
    owners = ["x", "a_b", "A_B", "aXb", "my-app", "my_app", "My-App", "1app", "", COL_A]
    names: list[str] = []
    prefixes: list[str] = []
    for o in owners:
        p = sanitize_table_prefix(o)
        for comp, sufs in vocab:
            prefixes.append(f"{p}__{comp}")
            for s in sufs[:3]:
                names.append(f"{p}__{comp}{s}")
    for o in ("x", "a_b", "my-app"):
        for b in lookalikes(sanitize_table_prefix, [o], vocab)[:10]:
            if IDENT.match(sanitize_table_prefix(b)):
                for comp, sufs in vocab[:2]:
                    names.append(f"{sanitize_table_prefix(b)}__{comp}{sufs[0]}")
    base = list(names)
    for _ in range(300 if ctx.thorough else 80):            # mutated names: case flips, '_'<->letter, cuts, extensions
        n = list(rng.choice(base))
        for _ in range(rng.randint(1, 3)):
            k = rng.randrange(len(n))
            r = rng.random()
            if r < .3:
                n[k] = n[k].swapcase()
            elif r < .6:
                n[k] = rng.choice("_xQ9")
            elif r < .8:
                n = n[:k] or ["t"]
            else:
                n.insert(k, rng.choice("_a"))
        names.append("".join(n))
    uniq, seen = [], set()
    for n in names:
        if IDENT.match(n) and n.lower() not in seen and not n.lower().startswith("sqlite_"):
            seen.add(n.lower())
            uniq.append(n)
    names = uniq
    if not ctx.thorough:
        prefixes = prefixes[:30] + prefixes[-5:]
    db = os.path.join(scratch, "select.db")
    con = sqlite3.connect(db, isolation_level=None)
    for n in names:
        con.execute(f'CREATE TABLE "{n}" (v)')
        con.execute(f'INSERT INTO "{n}" VALUES (1)')
    lst = "[" + "; ".join(cstr(n) for n in names) + "]"
    vals = ctx.coq_eval(IMPORTS, [f"map (purge_selects gen_purge {cstr(p)}) {lst}" for p in prefixes], chunk=4)
    hits = 0
    cross = 0
    for p, mv in zip(prefixes, vals):
        delete_tables_with_prefix(db, p)
        emptied = [n for n in names if con.execute(f'SELECT COUNT(*) FROM "{n}"').fetchone()[0] == 0]
        for n in emptied:
            con.execute(f'INSERT INTO "{n}" VALUES (1)')
        model = [n for n, b in zip(names, mv) if b]
        hits += len(emptied)
        cross += sum(1 for n in emptied if not n.startswith(p + "_"))
        if emptied != model:
            diff = sorted(set(emptied) ^ set(model))[:4]
            ctx.violation("model-mismatch:purge-selection",
                          f"delete_tables_with_prefix({p!r}) emptied {len(emptied)} tables, model selects {len(model)}; differing: {diff}",
                          {"kind": "selection", "prefix": p, "names": diff, "observed": [n for n in diff if n in emptied]})
    con.close()
    gen_guard(ctx)
    ctx.log(f"purge selection: {len(prefixes)} prefixes x {len(names)} names compared")
    ctx.count(len(prefixes) * len(names), len(prefixes))
    ctx.notes["purge_selection"] = {"prefixes": len(prefixes), "table_names": len(names), "selected_total": hits,
                                    "selected_not_literally_prefixed": cross}


# ---------------------------------------------------------------- (3) real apps
WRITES = {  # component label -> (table suffix that receives exactly one row, action)
    "broker": "_message_queue", "client": "_data", "state_backend": "_results", "trg": "_conditions",
    "orchestrator": "_runner_heartbeats",
}


ENV_ID = "PYNENC__APP_ID"
CHANNELS = ["builder", "values", "file", "file+values", "env", "default"]


class Apps:
    """ids -> real apps sharing one SQLite file (kind 'sqlite') or one process with in-memory components."""

    def __init__(self, kind: str, scratch: str, ids: list[str], tag: str, channels: list[str] | None = None, registry: bool = False):
        """channels[k]: how the id reaches app k (CHANNELS); registry: every app goes through a pickle round trip right
        after its construction, which registers it in the process-wide instance registry (what every process-runner
        child does), so that the later constructors run against a populated registry.  The registry is emptied once,
        before the first app of the case - never between the apps."""
        from pynenc import Pynenc, PynencBuilder
        from harness import tasks_basic
        Pynenc._clear_instances()
        os.environ.pop(ENV_ID, None)
        self.kind, self.ids = kind, ids
        self.db = os.path.join(scratch, f"shared_{tag}.db")
        self.apps, self.tasks, self.big_tasks, self.errors = [], [], [], []
        self.n = 0
        self.universe = {"inv": [], "key": [], "real_inv": [], "ref": []}
        self.own_refs: dict[int, list[str]] = {}
        self.claimed: set[int] = set()
        self.anomalies: list[str] = []
        for k, i in enumerate(ids):
            ch = channels[k] if channels else "builder"
            app = None
            b = PynencBuilder()
            b = b.sqlite(sqlite_db_path=self.db) if kind == "sqlite" else b.memory()
            b = b.custom_config(logging_level="critical", cached_status_time=0.0)
            try:
                if ch == "builder":
                    app = b.app_id(i).build()
                else:
                    backend = dict(b._config)
                    path = os.path.join(scratch, f"conf_{tag}_{k}.json")
                    if ch == "values":
                        app = Pynenc(config_values=dict(backend, app_id=i))
                    elif ch == "file":                       # everything, the id included, only in the file
                        json.dump(dict(backend, app_id=i), open(path, "w"))
                        app = Pynenc(config_filepath=path)
                    elif ch == "file+values":                # the id only in the file, the rest in config_values
                        json.dump({"app_id": i}, open(path, "w"))
                        app = Pynenc(config_values=backend, config_filepath=path)
                    elif ch == "env":
                        os.environ[ENV_ID] = i
                        app = Pynenc(config_values=backend)
                    elif ch == "default":                    # no id anywhere: ids[k] is the default id
                        app = Pynenc(config_values=backend)
                    else:
                        raise ValueError(ch)
                def identity(a):
                    e = None if a.app_id == i else f"app_id became {a.app_id!r}"
                    same = [j for j, other in enumerate(self.apps) if other is a and ids[j] != i]
                    if same:
                        e = (e + " and " if e else "") + f"the constructor handed out the object of app {ids[same[0]]!r}"
                    return e
                err = identity(app)
                if registry and not err:
                    app = pickle.loads(pickle.dumps(app))
                    err = identity(app)
                if not err:
                    for attr in COMP_ATTR.values():
                        getattr(app, attr)
                self.errors.append(err and f"identity: id given through {ch!r}{' with a populated instance registry' if registry else ''}: {err}")
            except Exception as ex:  # noqa: BLE001 - reported as an observation
                self.errors.append(f"{type(ex).__name__}: {ex}")
                app = app or b.app_id(i).build()
            finally:
                os.environ.pop(ENV_ID, None)
            self.apps.append(app)
            self.tasks.append(tasks_basic.bind(app, tasks_basic.add_one))
            self.big_tasks.append(tasks_basic.bind(app, tasks_basic.ident))
        self.con = sqlite3.connect(self.db, isolation_level=None) if kind == "sqlite" else None

    def table_names(self, k: int, vocab) -> list[str]:
        app = self.apps[k]
        return [f"{getattr(app, COMP_ATTR[c]).tables.table_prefix}{s}" for c, sufs in vocab for s in sufs]

    def master(self) -> list[str]:
        return sorted(r[0] for r in self.con.execute("SELECT name FROM sqlite_master WHERE type='table'"))

    def counts(self, k: int, vocab) -> list:
        have = set(self.master())
        return [self.con.execute(f'SELECT COUNT(*) FROM "{n}"').fetchone()[0] if n in have else None
                for n in self.table_names(k, vocab)]

    def apply(self, op) -> None:
        kind, k = op[0], op[1]
        app = self.apps[k]
        self.n += 1
        n = self.n
        if kind == "write":
            c = op[2]
            if c == "broker":
                app.broker.route_invocation(f"inv-{n}")
            elif c == "client":
                app.client_data_store._store(f"key-{n}", f"value-of-app-{k}")
                self.universe["key"].append(f"key-{n}")
            elif c == "state_backend":
                app.state_backend._set_result(f"inv-{n}", f"result-of-app-{k}")
                self.universe["inv"].append(f"inv-{n}")
            elif c == "trg":
                from pynenc.trigger.arguments.argument_filters import create_argument_filter
                from pynenc.trigger.conditions.event import EventCondition
                app.trigger.register_condition(EventCondition(f"ev-{n}", create_argument_filter(None)))
            elif c == "orchestrator":
                app.orchestrator.register_runner_heartbeats([f"runner-{n}"])
        elif kind == "rewrite":            # same keys in every app: a shared table would show cross-talk
            app.client_data_store._store("shared-key", f"value-of-app-{k}-{n}")
            if "shared-key" not in self.universe["key"]:
                self.universe["key"].append("shared-key")
        elif kind == "call":
            inv = self.tasks[k](n)
            self.universe["real_inv"].append(inv.invocation_id)
            app.state_backend.wait_for_all_async_operations()
        elif kind in ("store", "store_same"):     # public API: a value large enough to be kept by reference
            doc = "shared-doc:" + "s" * doc_len(app) if kind == "store_same" else f"doc-of-app-{k}-{n}:" + "d" * doc_len(app)
            ref = app.client_data_store.serialize(doc)
            if app.client_data_store.is_reference(ref):
                self._ref(k, ref)
        elif kind == "resolve":                   # app k reads back one of the references it created (warms its caches)
            mine = self.own_refs.get(k, [])
            if mine:
                try:
                    app.client_data_store.resolve(mine[op[2] % len(mine)])
                except KeyError:          # the app purged its own store in between
                    pass
        elif kind == "probe":                     # app k tries a reference key of the universe, whoever created it
            refs = self.universe["ref"]
            if refs:
                try:
                    app.client_data_store.resolve(refs[op[2] % len(refs)])
                except KeyError:
                    pass
        elif kind == "bigcall":                   # a task call whose argument is kept by reference
            inv = self.big_tasks[k](f"arg-of-app-{k}-{n}:" + "a" * doc_len(app))
            self.universe["real_inv"].append(inv.invocation_id)
            app.state_backend.wait_for_all_async_operations()
            for v in inv.call.serialized_arguments.values():
                if app.client_data_store.is_reference(v):
                    self._ref(k, v)
        elif kind == "cron":                      # the same condition id in every app
            from datetime import UTC, datetime, timedelta
            app.trigger.store_last_cron_execution("cron-shared", datetime(2024, 1, 1, tzinfo=UTC) + timedelta(minutes=n),
                                                  app.trigger.get_last_cron_execution("cron-shared"))
        elif kind == "claim":                     # the same trigger-run id in every app: the answer depends on the app's own claims only
            got = app.trigger.claim_trigger_run("run-shared", 3600)
            want = k not in self.claimed
            self.claimed.add(k)
            if got != want:
                self.anomalies.append(f"claim_trigger_run('run-shared') answered {got}, the app's own history says {want}")
        elif kind == "appinfo":
            from pynenc.app import AppInfo
            app.state_backend.store_app_info(AppInfo.from_app(app))
        elif kind == "purge":
            getattr(app, COMP_ATTR[op[2]]).purge()
            if op[2] == "trg":
                self.claimed.discard(k)
        elif kind == "purge_all":
            app.purge()
            self.claimed.discard(k)
        else:
            raise ValueError(op)

    def _ref(self, k: int, ref: str) -> None:
        if ref not in self.universe["ref"]:
            self.universe["ref"].append(ref)
        if ref not in self.own_refs.setdefault(k, []):
            self.own_refs[k].append(ref)
            REFS_CREATED[0] += 1

    def snapshot(self, k: int, vocab):
        app = self.apps[k]

        def get(f, *a):
            try:
                return f(*a)
            except KeyError:
                return None
        s = {"queue": app.broker.count_invocations(),
             "client": {x: get(app.client_data_store._retrieve, x) for x in self.universe["key"]},
             "results": {x: get(app.state_backend._get_result, x) for x in self.universe["inv"]},
             "conditions": sorted(c.condition_id for c in app.trigger._get_all_conditions()),
             "status": {x: str(get(app.orchestrator.get_invocation_status, x)) for x in self.universe["real_inv"]},
             "history": {x: len(get(app.state_backend.get_history, x) or []) for x in self.universe["real_inv"]},
             # reference keys through the public API (local caches included), also those only another app created
             "refs": {x: short(get(app.client_data_store.resolve, x)) for x in self.universe["ref"]},
             "invocation": {x: outcome(lambda x=x: app.state_backend.get_invocation(x).invocation_id == x)
                            for x in self.universe["real_inv"]},
             "app_info": outcome(lambda: app.state_backend.get_app_info().app_id),
             "registered": outcome(app.orchestrator.count_invocations),
             "runners": outcome(lambda: sorted(r.runner_id for r in app.orchestrator.get_active_runners())),
             "valid_conditions": outcome(lambda: sorted(app.trigger.get_valid_conditions())),
             "cron": outcome(lambda: str(app.trigger.get_last_cron_execution("cron-shared")))}
        if self.kind == "mem":      # (the SQLite discovery reads the default database path, not this file)
            s["discoverable"] = outcome(lambda: self.ids[k] in type(app.state_backend).discover_app_infos())
        if self.con is not None:
            have = set(self.master())
            s["rows"] = {n: (self.con.execute(f'SELECT * FROM "{n}" ORDER BY rowid').fetchall() if n in have else "MISSING")
                         for n in self.table_names(k, vocab)}
        return s

    def close(self):
        for app in self.apps:
            try:
                app.state_backend.wait_for_all_async_operations()
            except Exception:  # noqa: BLE001
                pass
        if self.con is not None:
            self.con.close()




REFS_CREATED = [0]


def doc_len(app) -> int:
    """long enough for the client data store to keep the value by reference (the number of references really
    created is reported in the notes)"""
    return max(1500, 2 * int(app.client_data_store.conf.min_size_to_cache))


def short(v):
    return v if not isinstance(v, str) or len(v) < 60 else f"{v[:40]}...({len(v)} chars)"


def outcome(f):
    try:
        return f()
    except Exception as ex:  # noqa: BLE001 - the error class is the observation
        return f"<{type(ex).__name__}>"


# what an app observes for an identifier nobody created yet (the snapshot before the operation did not ask)
DEFAULT_OBS = {"status": "None", "history": 0, "invocation": "<InvocationNotFoundError>"}


def diff_snap(a: dict, b: dict) -> list[str]:
    out = []
    for key in b:
        va, vb = a.get(key), b[key]
        if isinstance(vb, dict):
            for x in vb:
                old = va.get(x) if isinstance(va, dict) and x in va else DEFAULT_OBS.get(key)
                if key == "rows" and not (isinstance(va, dict) and x in va):
                    continue
                if old != vb[x]:
                    out.append(f"{key}[{x}]: {old!r} -> {vb[x]!r}"[:200])
        elif va != vb:
            out.append(f"{key}: {va!r} -> {vb!r}"[:200])
    return out


# ---------------------------------------------------------------- process-shared state (object graph)
MARK = re.compile(r"of-app-\d+")      # every payload an operation stores on behalf of app k contains "of-app-k"


def component_graph(app) -> dict[int, tuple[str, object]]:
    """Mutable containers reachable from the five components of `app` WITHOUT going through the app object:
    instance attributes, class attributes along the MRO (pynenc classes) and pynenc helper objects they hold."""
    import collections
    from pynenc import Pynenc
    out: dict[int, tuple[str, object]] = {}
    seen: set[int] = set()

    def visit(o, path: str, depth: int) -> None:
        items = list(vars(o).items()) if hasattr(o, "__dict__") else []
        items = [(f"{type(o).__name__}.{a}", v) for a, v in items]
        for cls in type(o).__mro__:
            if (cls.__module__ or "").startswith("pynenc"):
                for a, v in vars(cls).items():
                    if not a.startswith("__") and not callable(v) and not hasattr(v, "__get__"):
                        items.append((f"{cls.__name__}.{a}", v))
        for name, v in items:
            if id(v) in seen or isinstance(v, Pynenc) or v is None:
                continue
            seen.add(id(v))
            if isinstance(v, (dict, list, set, collections.deque)):
                out[id(v)] = (name, v)
            elif depth < 3 and (type(v).__module__ or "").startswith("pynenc") and not (type(v).__module__ or "").startswith("pynenc.conf") \
                    and not isinstance(v, type):
                visit(v, name, depth + 1)

    for attr in COMP_ATTR.values():
        visit(getattr(app, attr), attr, 0)
    return out


def freeze(c) -> dict:
    """content of a shared container as text: key -> (raw key, value text)"""
    if isinstance(c, dict):
        return {repr(k)[:200]: (k, repr(v)[:600]) for k, v in list(c.items())}
    out: dict = {}
    for x in list(c):
        t = repr(x)[:600]
        out[t] = (None, t)
    return out


def owns(key, app_id: str) -> bool:
    return key == app_id or (isinstance(key, (tuple, list, frozenset)) and app_id in key)


class SharedState:
    """The containers that the components of two or more apps of the process both reach (same object).
    Oracle on the implementation: an operation of app A changes such a container only in entries keyed by
    A's own id; it never alters an entry keyed by another app's id and never leaves application data
    (a payload of any app) under a key that is not its id."""

    def __init__(self, apps: "Apps"):
        self.apps = apps
        graphs = [component_graph(a) for a in apps.apps]
        count: dict[int, int] = {}
        for g in graphs:
            for i in g:
                count[i] = count.get(i, 0) + 1
        self.shared = {i: v for g in graphs for i, v in g.items() if count[i] > 1}
        self.state = {i: freeze(c) for i, (_, c) in self.shared.items()}

    def names(self) -> list[str]:
        return sorted(n for n, _ in self.shared.values())

    def after(self, op) -> list[tuple[str, str]]:
        """-> [(container name, what)] for the changes the operation may not make"""
        ids = self.apps.ids
        actor = ids[op[1]]
        bad = []
        for i, (name, c) in self.shared.items():
            new = freeze(c)
            old = self.state[i]
            self.state[i] = new
            for t in sorted(set(old) | set(new)):
                if old.get(t, (None, None))[1] == new.get(t, (None, None))[1]:
                    continue
                key = (new.get(t) or old.get(t))[0]
                if key is not None and owns(key, actor):
                    continue
                how = "added" if t not in old else "removed" if t not in new else "changed"
                other = [b for b in ids if b != actor and key is not None and owns(key, b)]
                text = t + " " + (old.get(t, ("", ""))[1] or "") + " " + (new.get(t, ("", ""))[1] or "")
                if other:
                    bad.append((name, f"{how} the entry of app {other[0]!r} in the process-wide {name}"))
                elif MARK.search(text):
                    bad.append((name, f"{how} application data ({MARK.search(text).group(0)}) under the key {t[:70]} of the process-wide {name}, "
                                      f"which the components of the other apps reach too"))
        return bad

    def resync(self) -> None:
        self.state = {i: freeze(c) for i, (_, c) in self.shared.items()}


def like_sql(pattern: str, name: str) -> bool:
    con = sqlite3.connect(":memory:")
    try:
        return bool(con.execute("SELECT ? LIKE ?", (name, pattern)).fetchone()[0])
    finally:
        con.close()


def classify(apps: Apps, op, victim: int, vocab) -> str:
    from pynenc.util.sqlite_utils import sanitize_table_prefix
    a, b = apps.ids[op[1]], apps.ids[victim]
    if apps.kind != "sqlite":
        return f"interference:mem:{op[0]}"
    if sanitize_table_prefix(a) == sanitize_table_prefix(b):
        return "collision:" + "|".join(sorted([a, b])) if not re.search(r"\s", a + b) else "collision:" + json.dumps(sorted([a, b])).replace(" ", "")
    if op[0] in ("purge", "purge_all"):
        comps = [op[2]] if op[0] == "purge" else list(COMP_ATTR)
        tps = [getattr(apps.apps[op[1]], COMP_ATTR[c]).tables.table_prefix for c in comps]
        names = apps.table_names(victim, vocab)
        if any(n.startswith(tp) for tp in tps for n in names):
            return "purge-like:prefix-extension"
        if any(like_sql(tp + "%", n) for tp in tps for n in names):
            return "purge-like:wildcard-case"
    return f"interference:sqlite:{op[0]}"


SHARED_SEEN: set[str] = set()


def run_case(ctx: Ctx, scratch: str, kind: str, ids: list[str], ops: list, vocab, tag: str, verbose: bool = False,
             channels: list[str] | None = None, registry: bool = False):
    """Runs the sequence on real apps; oracle = non-interference + table-list check. Returns final row counts."""
    apps = Apps(kind, scratch, ids, tag, channels, registry)
    try:
        replay = {"kind": "apps", "backend": kind, "ids": ids, "ops": ops}
        if channels or registry:
            replay.update(channels=channels, registry=registry)
        for k, e in enumerate(apps.errors):
            if e:
                key = "reserved-name:sqlite_" if "reserved for internal use" in e else \
                    f"app-identity:{channels[k] if channels else 'builder'}" if e.startswith("identity:") else f"app-construction:{kind}"
                if verbose:
                    print(f"  app {k} ({ids[k]!r}): {e}")
                ctx.violation(key, f"app with id {ids[k]!r} among {ids} cannot be built on {kind}: {e}", replay)
                return None
        expected_master = None
        if kind == "sqlite":
            expected_master = sorted({n for k in range(len(ids)) for n in apps.table_names(k, vocab)} | {"sqlite_sequence"})
            m = apps.master()
            bad = [n for n in m if not IDENT.match(n)]
            if bad or sorted(set(m) | {"sqlite_sequence"}) != expected_master:
                ctx.violation("table-list", f"sqlite_master of ids {ids} is not the naming scheme's table list: unexpected {sorted(set(m) - set(expected_master))[:3]} missing {sorted(set(expected_master) - set(m))[:3]} non-identifiers {bad[:3]}", replay)
        snaps = [apps.snapshot(k, vocab) for k in range(len(ids))]
        init_counts = [apps.counts(k, vocab) for k in range(len(ids))] if kind == "sqlite" else None
        shared = SharedState(apps)
        SHARED_SEEN.update(shared.names())

        def own_identity(snap_list, step) -> None:
            """what an app reads about ITSELF is its own (a constant foreign answer never shows up as a change)"""
            for v, sn in enumerate(snap_list):
                got = sn.get("app_info")
                if isinstance(got, str) and not got.startswith("<") and got != ids[v] and not any(
                        classify_prefix_equal(ids[v], o) for o in ids if o != ids[v]):
                    ctx.violation(f"interference:{kind}:app_info-foreign",
                                  f"{kind}: app {ids[v]!r} among {ids} reads the app info of {got!r} as its own", dict(replay, at=step, victim=v))
        own_identity(snaps, -1)
        for step, op in enumerate(ops):
            apps.apply(op)
            for name, what in shared.after(op):
                if verbose:
                    print(f"  step {step} {op}: {what}")
                ctx.violation(f"shared-state:{name}", f"{kind}: operation {op} of app {ids[op[1]]!r} {what}",
                              dict(replay, at=step, key=f"shared-state:{name}"))
            for a in apps.anomalies:
                if verbose:
                    print(f"  step {step} {op}: {a}")
                ctx.violation(f"interference:{kind}:{op[0]}-answer", f"{kind}: app {ids[op[1]]!r} among {ids}: {a}", dict(replay, at=step))
            apps.anomalies.clear()
            new = [apps.snapshot(k, vocab) for k in range(len(ids))]
            shared.resync()                      # the read-out itself may fill caches: not attributed to the next operation
            for v in range(len(ids)):
                if v == op[1] or ids[v] == ids[op[1]]:
                    continue
                d = diff_snap(snaps[v], new[v])
                if verbose:
                    print(f"  step {step} {op}: app {v} ({ids[v]!r}) changes: {d[:3]}")
                if d:
                    key = classify(apps, op, v, vocab)
                    if key not in ctx._known and sum(x["key"].split(":")[0] == key.split(":")[0] for x in ctx.violations) >= 3 \
                            and not any(x["key"] == key for x in ctx.violations):
                        ctx.notes["further_violations_not_listed"] = ctx.notes.get("further_violations_not_listed", 0) + 1
                        continue
                    ctx.violation(key, f"{kind}: operation {op} of app {ids[op[1]]!r} changed what app {ids[v]!r} observes: {d[0]}",
                                  dict(replay, at=step, victim=v, key=key))
            if kind == "sqlite":
                m = apps.master()
                if sorted(set(m) | {"sqlite_sequence"}) != expected_master:
                    ctx.violation("table-list", f"table list changed after {op}: {sorted(set(m) ^ set(expected_master))[:4]}", dict(replay, at=step))
            own_identity(new, step)
            snaps = new
        if kind == "sqlite":
            return init_counts, [apps.counts(k, vocab) for k in range(len(ids))]
        return None
    finally:
        apps.close()


def usable(i: str) -> bool:
    """ids the configuration layer accepts unchanged (checked again at construction)."""
    return bool(i) and "\x00" not in i and not any(0xD800 <= ord(c) <= 0xDFFF for c in i)


def gen_cases(ctx: Ctx, ids: list[str], vocab):
    from pynenc.util.sqlite_utils import sanitize_table_prefix as sp
    rng = ctx.rng
    comps = [c for c, _ in vocab]
    fixed = [  # known witnesses first
        (["x", sp("x") + "__broker_zzz"], [["write", 1, "broker"], ["write", 1, "client"], ["purge", 0, "broker"]]),
        (["a_b", (sp("a_b") + "__BROKER_q").replace("a_b", "aXb", 1)], [["write", 1, "broker"], ["purge", 0, "broker"]]),
        ([COL_A, COL_B], [["write", 0, "client"], ["rewrite", 1], ["rewrite", 0]]),
        (["app", "sqlite"], [["write", 0, "client"]]),
        (["SQLite-x", "sqlite_master"], [["write", 0, "client"]]),
        (["my-app", "my_app", "My-App"], [["call", 0], ["call", 1], ["rewrite", 0], ["rewrite", 1], ["purge_all", 0], ["call", 2], ["purge_all", 2]]),
        (["x'; DROP TABLE y; --", "a\"b", "a;b"], [["call", 0], ["write", 1, "trg"], ["purge", 0, "state_backend"], ["purge_all", 1]]),
        (["a%b", "a_b", "aXb"], [["write", 1, "client"], ["write", 2, "client"], ["purge", 0, "client"], ["purge_all", 1]]),
    ]
    families = []
    pool = [i for i in ids if usable(i) and not sp(i).lower().startswith("sqlite_")]     # those: the two fixed cases above
    look = [i for i in pool if "__" in i and re.search(r"_[0-9a-fA-F]{8}_", i)]
    for _ in range(10_000):
        r = rng.random()
        if r < .25 and look:
            b = rng.choice(look)
            owner = [a for a in ("x", "a_b", "my-app", "1app", COL_A) if b.lower().startswith(sp(a).lower()[:len(sp(a)) - 9])]
            fam = [rng.choice(owner) if owner else rng.choice(pool), b]
        elif r < .5:
            base = rng.choice(["my-app", "Ab-cD", "svc-a.b", "a_b"])
            fam = [base] + [v for v in pool if v != base and len(v) == len(base) and v.lower().replace("-", "_").replace(".", "_") == base.lower().replace("-", "_").replace(".", "_")][:2]
            if len(fam) < 2:
                fam.append(base.upper())
        else:
            fam = rng.sample(pool, rng.choice((2, 3)))
        if rng.random() < .4 and len(fam) == 2:
            fam.append(rng.choice(pool))
        fam = list(dict.fromkeys(fam))
        if len(fam) >= 2:
            families.append(fam[:3])
        if len(families) >= (400 if ctx.thorough else 70):
            break
    cases = [(f, o, True) for f, o in fixed]
    for n, fam in enumerate(families):
        low = n % 4 != 3
        ops = []
        for _ in range(rng.randint(4, 14)):
            k = rng.randrange(len(fam))
            r = rng.random()
            if r < .5:
                ops.append(["write", k, rng.choice(comps)])
            elif r < .85:
                ops.append(["purge", k, rng.choice(comps)])
            elif low:
                ops.append(["write", k, "client"])
            elif r < .93:
                ops.append(["call", k])
            elif r < .97:
                ops.append(["rewrite", k])
            else:
                ops.append(["purge_all", k])
        cases.append((fam, ops, low))
    return cases


def gen_proc_cases(ctx: Ctx, ids: list[str], vocab):
    """Operation sequences through the public, caching layers (values kept by reference, task calls with large
    arguments, app-info registration, read-backs that warm local caches, probes of foreign reference keys)
    mixed with low-level writes and the purge of each component / of the whole app."""
    from pynenc.util.sqlite_utils import sanitize_table_prefix as sp
    rng = ctx.rng
    comps = [c for c, _ in vocab]
    fixed = [
        (["alpha", "beta"], [["store", 0], ["probe", 1, 0], ["resolve", 0, 0], ["purge", 1, "client"], ["store_same", 0],
                             ["store_same", 1], ["purge", 0, "client"], ["purge", 1, "state_backend"], ["appinfo", 1]]),
        (["tenant-a", "tenant_a", "Tenant-A"], [["bigcall", 0], ["probe", 1, 0], ["call", 1], ["purge", 0, "state_backend"],
                                                ["appinfo", 0], ["bigcall", 2], ["purge_all", 1], ["resolve", 2, 0]]),
        (["x", "x'; DROP TABLE y; --"], [["store", 1], ["store", 0], ["purge_all", 0], ["probe", 0, 0], ["resolve", 1, 0]]),
        (["job.s", "job-s", "JOB.S"], [["claim", 0], ["cron", 0], ["claim", 1], ["cron", 1], ["write", 2, "orchestrator"], ["purge", 0, "trg"],
                                       ["claim", 0], ["claim", 2], ["purge", 1, "orchestrator"], ["cron", 2]]),
    ]
    pool = [i for i in ids if usable(i) and not sp(i).lower().startswith("sqlite_") and {i} != {COL_A} and i != COL_B]
    cases = [(f, o, False) for f, o in fixed]
    for _ in range(110 if ctx.thorough else 22):
        if rng.random() < .5:
            base = rng.choice(["my-app", "Ab-cD", "svc-a.b", "a_b"])
            fam = [base, base.swapcase() if rng.random() < .5 else base.replace("-", "_").replace(".", "-") + ("" if "-" in base or "." in base else "_")]
        else:
            fam = rng.sample(pool, 2)
        if rng.random() < .35:
            fam.append(rng.choice(pool))
        fam = list(dict.fromkeys(fam))
        if len(fam) < 2:
            continue
        ops = []
        for _ in range(rng.randint(5, 12)):
            k = rng.randrange(len(fam))
            r = rng.random()
            if r < .22:
                ops.append(["store", k])
            elif r < .30:
                ops.append(["store_same", k])
            elif r < .40:
                ops.append(["resolve", k, rng.randrange(4)])
            elif r < .50:
                ops.append(["probe", k, rng.randrange(6)])
            elif r < .58:
                ops.append(["bigcall", k])
            elif r < .64:
                ops.append(["call", k])
            elif r < .68:
                ops.append(["appinfo", k])
            elif r < .72:
                ops.append(["cron", k])
            elif r < .76:
                ops.append(["claim", k])
            elif r < .80:
                ops.append(["write", k, rng.choice(comps)])
            elif r < .94:
                ops.append(["purge", k, rng.choice(comps)])
            else:
                ops.append(["purge_all", k])
        cases.append((fam, ops, False))
    return cases


def run_channels(ctx: Ctx, scratch: str, vocab) -> None:
    """Every ordered pair of configuration channels through which an id can reach an app (builder, config_values,
    config file alone, config file + values, PYNENC__APP_ID, no id at all = the default id), with an empty and with
    a populated instance registry, on both backends: each app reports its own id, is its own object, and the
    isolation read-outs hold pairwise over a short operation sequence."""
    from pynenc.conf.config_pynenc import ConfigPynenc
    os.environ.pop(ENV_ID, None)
    default_id = ConfigPynenc().app_id
    rng = ctx.rng
    names = ["billing", "Billing", "bill-ing", "bill_ing", "x'; DROP TABLE y; --", default_id + "_", default_id.upper(), "shop"]
    ops_pool = [
        [["write", 1, "broker"], ["write", 0, "broker"], ["store", 1], ["purge_all", 1], ["call", 0], ["purge", 0, "broker"]],
        [["call", 1], ["store", 0], ["probe", 1, 0], ["appinfo", 1], ["purge", 1, "state_backend"], ["purge_all", 0]],
    ]
    cases = []
    for reg in (True, False):
        for a in CHANNELS:
            for b in CHANNELS:
                if a == b == "default":
                    continue
                ia = default_id if a == "default" else rng.choice(names)
                ib = default_id if b == "default" else rng.choice([n for n in names if n != ia])
                cases.append(([ia, ib], [a, b], reg))
    if not ctx.thorough:                      # all pairs with a populated registry, a seeded third of the others
        cases = [c for c in cases if c[2]] + rng.sample([c for c in cases if not c[2]], 12)
    third = [([default_id, "billing", "shop"], ["default", "file", "env"], True),
             (["shop", default_id, "billing"], ["values", "default", "file+values"], True)]
    hist: dict = {}
    n = 0
    for ids, chans, reg in cases + third:
        for kind in (("sqlite", "mem") if ctx.thorough or reg else (rng.choice(("sqlite", "mem")),)):
            n += 1
            run_case(ctx, scratch, kind, ids, ops_pool[n % 2] if len(ids) == 2 else ops_pool[0] + [["write", 2, "client"], ["purge_all", 2]],
                     vocab, f"ch{n}", channels=chans, registry=reg)
            for c in chans:
                hist[c] = hist.get(c, 0) + 1
    ctx.count(n, len(cases) + len(third))
    ctx.notes["id_channels"] = {"cases": n, "channel_uses": hist, "default_id": default_id,
                                "with_populated_registry": sum(1 for c in cases + third if c[2]), "with_empty_registry": sum(1 for c in cases if not c[2])}


def memo_digest(ids: list[str]) -> str:
    """`let Hm := ...` : sha256_hex with the digests of the listed ids computed once (vm_compute is call-by-value);
    extensionally the same function, so the evaluated term is the model's."""
    out = "".join(f"let h{k} := sha256_hex {cstr(i)} in " for k, i in enumerate(ids))
    body = "sha256_hex s"
    for k in reversed(range(len(ids))):
        body = f"if str_eqb s {cstr(ids[k])} then h{k} else {body}"
    return out + f"let Hm := (fun s : list N => {body}) in "


def model_expr(ids: list[str], ops: list, vocab) -> str:
    sufs = dict(vocab)
    mops = []
    for i in ids:
        mops += [f"OInit {cstr(i)}", f"OWrite {cstr(i)} {cstr('state_backend')} {cstr('_app_info')}"]
    for op in ops:
        i = cstr(ids[op[1]])
        if op[0] == "write":
            assert WRITES[op[2]] in sufs[op[2]]
            mops.append(f"OWrite {i} {cstr(op[2])} {cstr(WRITES[op[2]])}")
        elif op[0] == "purge":
            mops.append(f"OPurge {i} {cstr(op[2])}")
        elif op[0] == "purge_all":
            mops += [f"OPurge {i} {cstr(c)}" for c in ("broker", "orchestrator", "state_backend", "client", "trg")]
        else:
            raise ValueError(op)
    return ("(" + memo_digest(ids) + "let d := run Hm gen_purge [] [" + "; ".join(mops) + "] in map (fun b => view Hm b d) ["
            + "; ".join(cstr(i) for i in ids) + "])")


def run_apps(ctx: Ctx, scratch: str, ids: list[str], vocab) -> None:
    cases = gen_cases(ctx, ids, vocab)
    proc = gen_proc_cases(ctx, ids, vocab)
    cases += proc
    low = [(f, o) for f, o, is_low in cases if all(op[0] in ("write", "purge", "purge_all") for op in o)]
    ctx.log(f"app cases: {len(cases)} ({len(low)} compared with the model row by row)")
    model = ctx.coq_eval(IMPORTS, [model_expr(f, o, vocab) for f, o in low], chunk=max(1, len(low) // 14 + 1))
    gen_guard(ctx)
    ctx.log("model rows evaluated")
    model_by = {json.dumps([f, o]): m for (f, o), m in zip(low, model)}
    n_ops = 0
    hist = {"apps2": 0, "apps3": 0, "ops": {}, "interfering_cases": 0}
    for n, (fam, ops, _) in enumerate(cases):
        before = len(ctx.violations) + len(ctx.known_hits)
        for kind in ("sqlite", "mem"):
            res = run_case(ctx, scratch, kind, fam, ops, vocab, f"{n}")
            n_ops += len(ops)
            key = json.dumps([fam, ops])
            if kind == "sqlite" and res is not None and key in model_by:
                init_counts, final = res
                want_init = [[1 if s == "_app_info" and c == "state_backend" else 0 for c, sufs in vocab for s in sufs]] * len(fam)
                if init_counts != want_init and len(set(fam)) == len(fam):
                    # shared tables (collision) legitimately show more than one app_info row
                    if not any(classify_prefix_equal(a, b) for a in fam for b in fam if a != b):
                        ctx.violation("model-mismatch:init-rows", f"row counts after construction of {fam}: {init_counts}", {"kind": "apps", "backend": "sqlite", "ids": fam, "ops": []})
                if final != model_by[key]:
                    ctx.violation("model-mismatch:rows",
                                  f"row counts after {ops} on ids {fam}: real {final}, model {model_by[key]}",
                                  {"kind": "apps", "backend": "sqlite", "ids": fam, "ops": ops, "observed": final, "model": model_by[key]})
        hist["apps%d" % len(fam)] = hist.get("apps%d" % len(fam), 0) + 1
        for op in ops:
            hist["ops"][op[0]] = hist["ops"].get(op[0], 0) + 1
        if len(ctx.violations) + len(ctx.known_hits) > before:
            hist["interfering_cases"] += 1
        if n in (0, 3):
            ctx.sample({"ids": fam, "ops": ops})
    ctx.count(2 * len(cases) + len(low), len(cases))
    hist["cases"] = len(cases)
    hist["cases_through_caching_layers"] = len(proc)
    hist["values_kept_by_reference"] = REFS_CREATED[0]
    hist["process_shared_containers_reached_by_two_apps"] = sorted(SHARED_SEEN)
    hist["cases_compared_with_model_rows"] = len(low)
    hist["operations_executed"] = n_ops
    ctx.notes["apps"] = hist


def classify_prefix_equal(a: str, b: str) -> bool:
    from pynenc.util.sqlite_utils import sanitize_table_prefix
    return sanitize_table_prefix(a) == sanitize_table_prefix(b)


def search_collision(ctx: Ctx, scratch: str, vocab, limit: int) -> None:
    """Model-guided search used when the hash part got weaker than the theorems need (or the proofs broke):
    birthday search over punctuation variants with the REAL sanitize_table_prefix; a colliding pair is then
    run as two real apps (the oracle reports it)."""
    import itertools
    from pynenc.util.sqlite_utils import sanitize_table_prefix
    seen: dict[str, str] = {}
    tried = 0
    for t in itertools.product("-.:+", repeat=9):
        i = "svc" + "".join(t)
        p = sanitize_table_prefix(i)
        tried += 1
        if p in seen:
            ctx.notes["collision_search"] = {"tried": tried, "found": [seen[p], i]}
            if {seen[p], i} != {COL_A, COL_B}:
                run_case(ctx, scratch, "sqlite", [seen[p], i], [["write", 0, "client"], ["rewrite", 1], ["purge", 0, "client"]], vocab, "search")
            return
        seen[p] = i
        if tried >= limit:
            break
    ctx.notes["collision_search"] = {"tried": tried, "found": None}


def gen_text() -> str:
    from harness.common import COQ
    return "".join(open(os.path.join(COQ, f)).read() for f in ("gen/Sanitize_gen.v", "gen/ProcShared_gen.v"))


def gen_guard(ctx: Ctx) -> None:
    """coq/gen is shared by concurrent runs: a model value is only used if the generated files are still ours."""
    from harness.common import CheckError
    if gen_text() != ctx.notes.get("_gen_text"):
        raise CheckError("coq/gen/Sanitize_gen.v or ProcShared_gen.v was rewritten by a concurrent run (different source tree); re-run")


def run_shared_fact(ctx: Ctx, info: dict) -> None:
    """Tie of the generated fact about process-wide containers: the containers that the components of two real
    apps were SEEN to share (object identity, run_case) against the names in gen_shared as Coq evaluates them."""
    vals = ctx.coq_eval(["Model.SanitizeDef", "Model.ProcShared", "gen.ProcShared_gen"],
                        ["map fst gen_shared", "[[if all_keyed gen_shared then 1 else 0]]"])
    gen_guard(ctx)
    names = sorted(pystr(v) for v in vals[0])
    keyed = bool(vals[1][0][0])
    ctx.notes["process_shared_state"] = {"containers_in_generated_fact": info.get("containers", names), "all_keyed_by_app_id": keyed,
                                         "containers_seen_shared_by_two_apps": sorted(SHARED_SEEN),
                                         "class_level_containers_rebound_per_instance": info.get("bound_per_instance_in_init", [])}
    ctx.count(len(names) + len(SHARED_SEEN), len(SHARED_SEEN))
    if info.get("degraded"):
        return
    import ast
    try:
        scanned = {n.name for m in trp.component_files(os.environ.get("VERIF_REPO", "/repo"))
                   for n in ast.walk(ast.parse(open(m).read())) if isinstance(n, ast.ClassDef)}
    except Exception:  # noqa: BLE001
        return
    alias_attrs = {a for v in info.get("instance_attributes_bound_to_them", {}).values() for a in v}
    for seen in sorted(SHARED_SEEN):
        if seen not in names and seen.split(".")[0] in scanned and seen.split(".")[-1] not in alias_attrs:
            ctx.violation("model-mismatch:shared-containers",
                          f"the components of two apps of one process share the container {seen} (same object), which the generated "
                          f"fact does not list ({names}): the translator takes it for per-instance state",
                          {"kind": "apps", "backend": "mem", "ids": ["alpha", "beta"], "ops": [["store", 0], ["call", 1]]})


# ---------------------------------------------------------------- main / replay
def main(ctx: Ctx) -> int:
    world.quiet()
    info = ctx.translate("sanitize", tr.translate, "gen/Sanitize_gen.v")
    info_shared = ctx.translate("procshared", trp.translate, "gen/ProcShared_gen.v")
    ctx.notes["_gen_text"] = gen_text()
    try:
        vocab = tr.parse_repo(os.environ.get("VERIF_REPO", "/repo"))["vocab"]
    except Exception:  # noqa: BLE001 - degraded translator: the committed default vocabulary
        vocab = DEFAULT_VOCAB
    ctx.prove("Props/C17.v")
    scratch = world.scratch_dir()
    try:
        ids = run_names(ctx, vocab)
        run_purge_selection(ctx, scratch, vocab)
        run_apps(ctx, scratch, ids, vocab)
        gen_guard(ctx)
        ctx.log("app cases run")
        run_channels(ctx, scratch, vocab)
        ctx.log("id channels run")
        run_shared_fact(ctx, info_shared)
        if not ctx.proof.ok or info.get("degraded") or info.get("hash_len", 8) < 8:
            search_collision(ctx, scratch, vocab, 1 << 18)
    finally:
        world.rm_scratch(scratch)
    del ctx.notes["_gen_text"]
    ctx.notes["purge_rule_of_this_tree"] = info.get("purge", "unknown (translator degraded)")
    ctx.notes["reserved_name_rule_in_tree"] = info.get("reserved_guard", "unknown (translator degraded)")
    ctx.assumptions += [
        "ids are Python str without lone surrogates (str.encode() rejects those before any table is named)",
        "str.isdigit() is modelled as ASCII 0-9: after the regex only ASCII survives (proved for the generated class)",
        "SQLite LIKE without ESCAPE: '%', '_' and ASCII-only case folding (validated against the engine on look-alike names)",
        "the row-count model covers the low-level writes (one row each) and purges; task calls are judged by the oracle only",
        "app ids the configuration layer accepts (non-empty); the empty id is covered at the sanitize_table_prefix level",
        "one process: store_app_info is called with the app's own AppInfo (app.py does so); keys that mention .app_id / .table_prefix / "
        "sanitize_table_prefix(...) count as derived from the acting app's id",
    ]
    ctx.trusted += ["hashlib.sha256 (the Gallina SHA-256 is compared with it on every id of the run)",
                    "sqlite3 engine: LIKE semantics, sqlite_master, unquoted identifier rules"]
    return ctx.finish(
        rule="ids: fixed adversarial list (punctuation/case variants, prefixes of one another, storage-prefix look-alikes, quotes, "
             "semicolons, LIKE wildcards, unicode, blank, leading digits, SQL keywords, the known collision pair) + seeded random strings; "
             "purge selection: every (table prefix, name) pair of a synthetic look-alike database; apps: fixed witnesses + seeded families "
             "of 2-3 ids with 4-14 operations, each run on one SQLite file and in one process, + fixed and seeded families of 2-3 ids "
             "with 5-12 operations through the caching layers (store / store the same content / read back / probe a foreign reference / task call "
             "with a large argument / app info / cron mark / trigger-run claim / low-level write / purge of a component / purge of the app); "
             "id channels: all ordered pairs of 6 channels with a populated registry (+ a seeded third with an empty one in the quick tier, all in "
             "thorough) and two triples, on both backends; "
             "distinct_nontrivial = distinct ids + distinct prefixes tried in the selection run + distinct app cases + containers seen shared")


DEFAULT_VOCAB = [
    ("broker", ["_message_queue"]),
    ("orchestrator", ["_invocations", "_invocation_args", "_blocking_edges", "_runner_heartbeats"]),
    ("state_backend", ["_results", "_exceptions", "_invocations", "_runner_contexts", "_history", "_workflows", "_app_info",
                       "_workflow_data", "_workflow_sub_invocations"]),
    ("trg", ["_conditions", "_triggers", "_condition_triggers", "_valid_conditions", "_source_task_conditions",
             "_execution_claims", "_trigger_run_claims"]),
    ("client", ["_data"]),
]


def replay(ctx: Ctx, path: str) -> int:
    world.quiet()
    rp = json.load(open(path))["replay"]
    try:
        vocab = tr.parse_repo(os.environ.get("VERIF_REPO", "/repo"))["vocab"]
    except Exception:  # noqa: BLE001
        vocab = DEFAULT_VOCAB
    if rp["kind"] == "prefix":
        from pynenc.util.sqlite_utils import sanitize_table_prefix
        print("sanitize_table_prefix(%r) = %r" % (rp["id"], sanitize_table_prefix(rp["id"])), "recorded:", rp.get("observed"), "model:", rp.get("model"))
        return 0
    if rp["kind"] == "selection":
        from pynenc.util.sqlite_utils import delete_tables_with_prefix
        scratch = world.scratch_dir()
        try:
            db = os.path.join(scratch, "r.db")
            con = sqlite3.connect(db, isolation_level=None)
            for n in rp["names"]:
                con.execute(f'CREATE TABLE "{n}" (v)')
                con.execute(f'INSERT INTO "{n}" VALUES (1)')
            delete_tables_with_prefix(db, rp["prefix"])
            print("prefix", rp["prefix"], "emptied", [n for n in rp["names"] if con.execute(f'SELECT COUNT(*) FROM "{n}"').fetchone()[0] == 0])
            con.close()
        finally:
            world.rm_scratch(scratch)
        return 0
    scratch = world.scratch_dir()
    try:
        print("ids", rp["ids"], "backend", rp["backend"])
        res = run_case(ctx, scratch, rp["backend"], rp["ids"], rp["ops"], vocab, "replay", verbose=True,
                       channels=rp.get("channels"), registry=bool(rp.get("registry")))
        for v in ctx.violations + ctx.known_hits:
            print("observed:", v["key"], "-", v["what"])
        if res:
            print("final row counts", res[1])
    finally:
        world.rm_scratch(scratch)
    return 0

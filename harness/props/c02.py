"""C02 — an invocation is held by at most one runner at a time under any interleaving.

proof: Props/C02.v — interleaved machine instantiated with gen/Atomicity_gen.v.
tie:   AST facts + exploration of REAL concurrent pollers / polling runners on both backends:
       SQL-statement granularity (SQLite), source-line granularity of _atomic_status_transition and
       _get_invocation_lock (in-memory); oracle on the transition log, the yielded invocations and the
       body entry/exit log.  (validation + failing-input search; the theorems are the proof)
"""
from __future__ import annotations

import json

from harness import conc_driver as D
from harness import sched as S
from harness import tasks_conc, world
from harness.common import Ctx
from harness.translate import atomicity, status_table

GENERATED = [("harness.translate.atomicity", "translate", "gen/Atomicity_gen.v"),
             ("harness.translate.status_table", "translate", "gen/StatusTable_gen.v")]
MANIFEST = {
    "technique": "Coq invariant proof over an interleaved transition machine instantiated with generated atomicity facts + bounded schedule exploration of the real pollers",
    "text": "Theorems (Props/C02.v): for ANY number of actors issuing ANY requests in ANY interleaving, with the transition atomic "
            "as the generated facts say (BEGIN IMMEDIATE before SELECT..UPDATE in SQLite; read-validate-write inside the per-"
            "invocation lock and a race-free lock table in memory), every invocation's successful changes form a documented path and "
            "no two successful claims read the same record version; a claim is only possible from an available un-owned status "
            "(release between claims); owned statuses only move on the owner's request (recovery excepted); a body is entered twice "
            "only with KILLED / RETRY / RUNNING_RECOVERY in between; the split transition is refuted by a two-runner witness. "
            "Tie: AST facts + DFS with bounded pre-emptions over 2 real pollers / polling runners (queues with duplicate ids and "
            "blocking-priority entries) at SQL-statement resp. source-line granularity, priority-randomised schedules for up to 4.",
    "note": "Trusted: SQLite serialises BEGIN IMMEDIATE transactions; CPython pre-empts between source lines, dict.setdefault is "
            "atomic; harness scheduler (baton over real threads, SQLite write-lock tracking); history/trigger side channels are "
            "silenced in these scenarios; exploration is bounded (validation and failing-input search only).",
    "design_ref": "DESIGN.md §6 C02",
}


def scenarios(ctx: Ctx):
    base = [
        {"n": 1, "dups": [0], "block": [], "limit": 1, "actors": 2, "run": False},
        {"n": 2, "dups": [0], "block": [], "limit": 2, "actors": 2, "run": False},
        {"n": 2, "dups": [], "block": [1], "limit": 2, "actors": 2, "run": False},
        {"n": 1, "dups": [0], "block": [], "limit": 1, "actors": 2, "run": True},
        {"n": 2, "dups": [1], "block": [0], "limit": 1, "actors": 2, "run": True},
    ]
    # an invocation being handed back (recovery's reroute: PENDING_RECOVERY -> REROUTED + push) while two pollers already
    # hold duplicate messages of it: the release and the two claims all go through the same per-invocation lock
    base.append({"n": 1, "dups": [0, 0], "block": [], "limit": 1, "actors": 2, "run": False, "release": True,
                 "budget": 2600, "preemptions": 3})
    # a holder on its way from PENDING to RUNNING, the pending-recovery task (time-out 0) taking the invocation back, and a second
    # runner claiming it: the holder's late RUNNING request must be refused once it no longer holds the invocation
    base.append({"n": 1, "dups": [], "block": [], "limit": 1, "actors": 2, "run": True, "recover": True, "budget": 1200, "preemptions": 2})
    if ctx.thorough:
        base += [{"n": 3, "dups": [0, 2], "block": [1], "limit": 2, "actors": 3, "run": True},
                 {"n": 2, "dups": [0, 0], "block": [], "limit": 2, "actors": 4, "run": False}]
    return base


def run_one(kind, scratch, sc, prefix, chooser=None):
    w = D.World(kind, scratch, line_level=True, **({"max_pending_seconds": 0.0} if sc.get("recover") else {}))
    s = S.Sched()
    if kind == "mem":
        s.trace_targets = {("mem_orchestrator.py", "_atomic_status_transition"), ("mem_orchestrator.py", "_get_invocation_lock")}
    t = w.task(tasks_conc.work)
    invs = [t(i) for i in range(sc["n"])]
    ids = [i.invocation_id for i in invs]
    if sc.get("release"):
        from pynenc.invocation.status import InvocationStatus as St
        got = [g.invocation_id for g in w.app.orchestrator.get_invocations_to_run(1, world.runner_ctx("r9"))]
        assert got == ids[:1]
        w.app.orchestrator.set_invocation_status(ids[0], St.PENDING_RECOVERY, world.runner_ctx("rec"))
    for d in sc["dups"]:
        w.app.broker.route_invocation(ids[d])
    for b in sc["block"]:
        w.app.orchestrator.waiting_for_results("parent-inv", [ids[b]])
    outs = {k: [] for k in range(sc["actors"])}
    # yield points at the primitive level for the in-memory backend (the SQLite one yields per statement)
    if kind == "mem":
        for obj, name in ((w.app.broker, "retrieve_invocation"), (w.app.orchestrator, "get_invocation_status_record")):
            real = getattr(obj, name)

            def wrapped(*a, _real=real, _name=name, **k):
                s.yield_point(_name)
                return _real(*a, **k)
            setattr(obj, name, wrapped)
    if sc.get("release"):
        s.spawn("rel", lambda: w.app.orchestrator.reroute_invocations({ids[0]}, world.runner_ctx("rec")))
    if sc.get("recover"):
        def recoverer():
            from pynenc import context, core_tasks
            context.set_current_app(w.app)
            context.set_runner_context(w.app.app_id, world.runner_ctx("rec"))
            try:
                core_tasks.recover_pending_invocations()
            except Exception:  # noqa: BLE001 - a lost race is the recovery task's own business (C04)
                pass
        s.spawn("rec", recoverer)
    for k in range(sc["actors"]):
        body = w.polling_runner(f"r{k}", sc["limit"], outs[k]) if sc["run"] else w.poller(f"r{k}", sc["limit"], outs[k])
        s.spawn(f"r{k}", body)
    try:
        status = s.run(chooser or S.replay_chooser(prefix), max_steps=5000)
    finally:
        s.shutdown()
    verdict = None
    raised = [(a.name, repr(a.exc)) for a in s.actors if a.exc is not None]
    if status != "done":
        verdict = f"schedule ended {status}"
    elif raised:
        verdict = f"poller raised {raised}"
    else:
        for n, i in enumerate(ids):
            succ = w.successes(i)
            bad = D.check_lifecycle(succ, EDGES)
            if bad:
                verdict = f"invocation #{n}: {bad}; transitions {succ}"
                break
            # yielded to two pollers: needs a release in between in the log
            holders = [k for k, o in outs.items() for x in o if x == i]
            n_claims = sum(1 for (st, _, _) in succ if st == "PENDING")
            if len(holders) > n_claims:
                verdict = f"invocation #{n} was handed to runners {holders} but claimed only {n_claims} time(s)"
                break
            # body overlap
            depth = 0
            for ev, who in w.body_log:
                if who == i:
                    depth += 1 if ev == "enter" else -1
                    if depth > 1 and not any(st in ("KILLED", "RUNNING_RECOVERY", "PENDING_RECOVERY") for st, _, _ in succ):
                        verdict = f"invocation #{n}: body executing in two workers at once; transitions {succ}"
                        break
            if verdict:
                break
    return s.decisions, {"verdict": verdict, "outs": {k: [ids.index(x) for x in v] for k, v in outs.items()},
                         "tlog": [(ids.index(i) if i in ids else i, st, r, ok, o) for i, st, r, ok, o in w.tlog], "status": status}


EDGES: set = set()
CRIT = ("_get_invocation_lock", "_atomic_status_transition", "lock.acquire", "sql:BEGIN IMMEDIATE", "sql:SELECT STATUS, STATUS_RUNNER_ID",
        "sql:UPDATE", "sql:COMMIT", "sql:SELECT ID, INVOCATION_ID", "sql:DELETE", "retrieve_invocation")


def critical(label: str) -> bool:
    """pre-empt only around the claim path: the transition, the lock table and the queue pop"""
    return any(label.startswith(c) or c in label for c in CRIT)


def main(ctx: Ctx) -> int:
    global EDGES
    world.quiet()
    info = ctx.translate("atomicity", atomicity.translate, "gen/Atomicity_gen.v")
    ctx.translate("status_table", status_table.translate, "gen/StatusTable_gen.v")
    ctx.notes["facts"] = info.get("facts")
    ctx.prove("Props/C02.v")
    EDGES = D.doc_edges(ctx)
    scratch = world.scratch_dir()
    total, per = 0, {}
    try:
        # "only its holder can move it": every (current status, owner) x request x requester single step on the pure function
        # and on both orchestrators against the documented transition function (exhaustive; shared with C01)
        from harness.props import c01
        c01.run_single_steps(ctx, scratch)
        for kind in ("sqlite", "mem"):
            for sc in scenarios(ctx):
                n = 0
                if sc["actors"] <= 2:
                    budget = (sc.get("budget") if (kind == "mem" or ctx.thorough or sc.get("recover")) else None) or (1500 if ctx.thorough else 220)
                    if sc.get("recover") and kind == "mem" and not ctx.thorough:
                        budget = 400
                    it = S.explore(lambda p: run_one(kind, scratch, sc, p), max_preemptions=sc.get("preemptions") or (3 if ctx.thorough else 2),
                                   max_runs=budget, preempt_at=critical)
                else:
                    def rand_runs():
                        for _ in range(150):
                            d, o = run_one(kind, scratch, sc, [], chooser=S.random_chooser(ctx.rng, 0.5))
                            yield [x[1] for x in d], o
                    it = rand_runs()
                for schedule, out in it:
                    n += 1
                    if out["verdict"]:
                        key = "double-claim" if ("claimed" in out["verdict"] or "handed" in out["verdict"]) else out["verdict"].split(":")[0].replace(" ", "-")[:40]
                        ctx.violation(f"conc:{kind}:{key}", f"{kind}: scenario {sc}: {out['verdict']}",
                                      {"kind": "schedule", "backend": kind, "scenario": sc, "schedule": schedule, "observed": out})
                        break
                total += n
                per[f"{kind}:{json.dumps(sc, sort_keys=True)}"] = n
                if len(ctx.coverage["samples"]) < 5:
                    ctx.sample({"backend": kind, "scenario": sc, "schedules": n, "last_tlog": out["tlog"][:8]})
    finally:
        world.rm_scratch(scratch)
    ctx.count(total, total)
    ctx.notes["exploration"] = {"schedules": total, "per_scenario": per,
                                "granularity": "SQL statement (sqlite); source lines of _atomic_status_transition/_get_invocation_lock + primitive calls (mem)",
                                "bound": "DFS, <=2 (quick) / <=3 (thorough) pre-emptions for 2 actors; seeded random for 3-4 actors"}
    ctx.assumptions += ["queues of 1-3 invocations with duplicate ids and blocking-priority entries", "2 actors exhaustive under the pre-emption bound"]
    return ctx.finish(rule="each evaluation = one complete schedule of real pollers/polling runners on a fresh app; distinct schedules by construction of the DFS")


def replay(ctx: Ctx, path: str) -> int:
    global EDGES
    world.quiet()
    EDGES = D.doc_edges(ctx)
    rp = json.load(open(path))["replay"]
    if rp.get("kind") == "single_step":
        from harness.props import c01
        return c01.replay(ctx, path)
    scratch = world.scratch_dir()
    try:
        _, out = run_one(rp["backend"], scratch, rp["scenario"], rp["schedule"])
        print(json.dumps(out, indent=1, default=str))
    finally:
        world.rm_scratch(scratch)
    return 0

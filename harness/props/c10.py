"""C10 — the recorded history of an invocation is exactly its sequence of status changes.

proof: Props/C10.v — interleaved machine + background writers in any order; sorted-by-change-time history =
       change log (permutation invariant + uniqueness of sorted permutations).
tie:   AST facts (add_history after the transition, with the returned record and the requester) + real scenarios
       (claims, runs, retries, concurrency-control reroutes, kills, recoveries) on both state backends with
       pynenc's own history-writer threads turned into scheduler actors that run last / in reverse / interleaved.
"""
from __future__ import annotations

import json

from harness import conc_driver as D
from harness import sched as S
from harness import tasks_conc, world
from harness.common import Ctx
from harness.translate import atomicity, history_facts, status_table

GENERATED = [("harness.translate.history_facts", "translate", "gen/HistoryFacts_gen.v"),
             ("harness.translate.atomicity", "translate", "gen/Atomicity_gen.v"),
             ("harness.translate.status_table", "translate", "gen/StatusTable_gen.v")]
MANIFEST = {
    "technique": "Coq proof (permutation invariant + uniqueness of sorted permutations over the interleaved machine) + scheduled history writers on the real code",
    "text": "Theorems (Props/C10.v): with atomic transitions (generated facts) and one history entry per successful change carrying "
            "the returned record and the requester (generated facts), for every interleaving of actors and background writers — "
            "writers arbitrarily late and in any order — once nothing is pending the history of an invocation sorted by the time of "
            "the change equals its change log: a documented path from REGISTERED to the current status, strictly ordered (no "
            "duplicate), only its own entries; a split transition is refuted (duplicated claim). Tie: AST facts + scenarios "
            "(claim/run/batch submission/retry/concurrency reroute/kill/recovery) on mem and SQLite with pynenc's history threads scheduled last, "
            "in reverse and randomly; after wait_for_all_async_operations the real get_history is compared with the transition "
            "log and the current status record.",
    "note": "Hypothesis made explicit: change timestamps of one invocation are pairwise distinct (real clock, microsecond resolution; ties "
            "are reported, not judged). Trusted: scheduler harness; history threads are intercepted by replacing `threading` in "
            "base_state_backend with a shim that registers them as actors.",
    "design_ref": "DESIGN.md §6 C10",
}


class _ThreadShim:
    """replacement for `threading` inside pynenc.state_backend.base_state_backend: history writer threads become
    scheduler actors while a scheduler is in charge"""

    def __init__(self, real):
        self._real = real

    def __getattr__(self, name):
        return getattr(self._real, name)

    def Thread(self, target=None, args=(), kwargs=None, **kw):  # noqa: N802
        shim = self
        real = self._real

        class T:
            def __init__(self):
                self.actor = None
                self.rt = None

            def start(self):
                s = S.Sched.current
                if s is not None:
                    if s.me() is not None:
                        s.yield_point("hist-thread-start")     # a thread object exists (and may be tracked) before it is started
                    self.actor = s.spawn(f"hist-{len(s.actors)}", lambda: target(*args, **(kwargs or {})))
                else:
                    self.rt = real.Thread(target=target, args=args, kwargs=kwargs or {})
                    self.rt.start()

            def join(self, timeout=None):
                if self.rt is not None:
                    self.rt.join(timeout)
                elif self.actor is not None:
                    s = S.Sched.current
                    if s is not None and s.me() is not None:
                        if timeout is not None:
                            # a bounded wait may expire before the writer has run: it does not wait at all here
                            s.yield_point("join-hist-timeout")
                            return
                        s.block_until(lambda: self.actor.state == "done", "join-hist")
                    elif self.actor.thread is not None:
                        self.actor.thread.join(timeout or 5.0)

            def is_alive(self):
                return (self.rt.is_alive() if self.rt else (self.actor is not None and self.actor.state != "done"))
        del shim
        return T()


def install_thread_shim():
    import pynenc.state_backend.base_state_backend as bsb
    if not isinstance(bsb.threading, _ThreadShim):
        bsb.threading = _ThreadShim(bsb.threading)


def yielding_history(sb) -> None:
    """in-memory state backend: primitive dict operations on the history store become scheduling points (a get-or-create and a
    list.append are single C-level calls and stay atomic; a read followed by a store is two operations)"""
    import collections
    import threading
    tl = threading.local()

    class YHist(collections.defaultdict):
        def __getitem__(self, k):
            s = S.Sched.current
            if s is not None:
                s.yield_point("hist-get")
            tl.in_get = True
            try:
                return super().__getitem__(k)
            finally:
                tl.in_get = False

        def __setitem__(self, k, v):
            s = S.Sched.current
            if s is not None and not getattr(tl, "in_get", False):
                s.yield_point("hist-set")
            super().__setitem__(k, v)
    old = sb._history
    if isinstance(old, collections.defaultdict) and not isinstance(old, YHist):
        new = YHist(old.default_factory)
        new.update(old)
        sb._history = new


def chooser(mode: str, rng):
    def is_hist(a):
        return a.name.startswith("hist-")

    def choose(runnable, s):
        non = [a for a in runnable if not is_hist(a)]
        hs = [a for a in runnable if is_hist(a)]
        if mode == "writers_last":
            pool = non or hs
            return pool[0] if mode == "writers_last" and pool is hs else (rng.choice(pool) if len(pool) > 1 and rng.random() < 0.3 else
                                                                          next((a for a in pool if s.trace and a.idx == s.trace[-1]), pool[0]))
        if mode == "writers_reverse":
            pool = non or list(reversed(hs))
            return pool[0] if pool and is_hist(pool[0]) else next((a for a in pool if s.trace and a.idx == s.trace[-1]), pool[0])
        if rng.random() < 0.6 and s.trace:
            for a in runnable:
                if a.idx == s.trace[-1]:
                    return a
        return rng.choice(runnable)
    return choose


SCENARIOS = ["plain", "batch", "flush", "retry", "cc_reroute", "kill", "recover"]


def run_scenario(kind, scratch, name, mode, seed):
    import random
    rng = random.Random(seed)
    install_thread_shim()
    w = D.World(kind, scratch, history="async", max_pending_seconds=0.0)
    app = w.app
    if kind == "mem" and hasattr(app.state_backend, "_history"):
        yielding_history(app.state_backend)
    s = S.Sched()
    outs = {0: [], 1: []}
    ids = []

    def setup_and_spawn():
        # submissions happen inside an actor so that registration history threads are actors too
        if name == "plain":
            t = w.task(tasks_conc.work)
            ids.extend(t(i).invocation_id for i in range(2))
            app.broker.route_invocation(ids[0])
        elif name == "batch":
            # the batch path (parallelize -> route_calls -> add_histories): one REGISTERED entry per member, each its own
            t = w.task(tasks_conc.work)
            ids.extend(inv.invocation_id for inv in t.parallelize([(i,) for i in range(3)]).invocations)
        elif name == "retry":
            t = w.task(tasks_conc.flaky, max_retries=2, retry_for=(tasks_conc.Boom,))
            ids.append(t(1, 1).invocation_id)
            ids.append(t(2, 0).invocation_id)
        elif name == "cc_reroute":
            from pynenc.conf.config_task import ConcurrencyControlType
            t = w.task(tasks_conc.work, running_concurrency=ConcurrencyControlType.TASK, reroute_on_concurrency_control=True)
            ids.extend(t(i).invocation_id for i in range(2))
        else:
            t = w.task(tasks_conc.work)
            ids.extend(t(i).invocation_id for i in range(2))
        rounds = 3 if name in ("retry", "cc_reroute", "batch") else 2
        s.spawn("r0", w.polling_runner("r0", 1, outs[0], rounds=rounds))
        if name == "kill":
            def killer():
                from pynenc.runner.base_runner import BaseRunner

                class Stub:
                    def __init__(self):
                        self.app, self.runner_context, self.logger = app, world.runner_ctx("r0"), app.logger
                for i in ids:
                    s.yield_point("kill")
                    BaseRunner._kill_and_reroute(Stub(), i)
            s.spawn("killer", killer)
        elif name == "recover":
            def recoverer():
                from pynenc import context, core_tasks
                context.set_current_app(app)
                context.set_runner_context(app.app_id, world.runner_ctx("rec"))
                s.yield_point("recover")
                try:
                    core_tasks.recover_pending_invocations()
                except Exception:  # noqa: BLE001
                    pass
            s.spawn("recoverer", recoverer)
        s.spawn("r1", w.polling_runner("r1", 1, outs[1], rounds=rounds))
        if name in ("flush", "kill"):             # a flush made while writers are still pending (single-runner and two-runner changes)
            def flusher():
                # "once pending writes are flushed": the flush is called while writers are still pending (they run last / late);
                # what get_history says right after it returns must already be complete
                s.block_until(lambda: all(a.state == "done" for a in s.actors if a.name in ("r0", "r1", "killer", "recoverer")), "runners-done")
                app.state_backend.wait_for_all_async_operations()
                for i in ids:
                    flushed[i] = ([h.status_record.status.name for h in app.state_backend.get_history(i)],
                                  ["REGISTERED"] + [st for (st, _, _) in w.successes(i)])
            s.spawn("flusher", flusher)
    flushed: dict = {}
    s.spawn("client", setup_and_spawn)
    try:
        status = s.run(chooser(mode, rng), max_steps=20000)
    finally:
        s.shutdown()
    app.state_backend.wait_for_all_async_operations()
    verdict = None
    ties = 0
    details = {}
    if status != "done":
        verdict = f"schedule ended {status}"
    for n, i in enumerate(ids):
        if i in flushed and sorted(flushed[i][0]) != sorted(flushed[i][1]) and not verdict:
            verdict = (f"history of invocation #{n} read right after wait_for_all_async_operations() returned is {flushed[i][0]}, "
                       f"its successful changes until then were {flushed[i][1]}")
    for n, i in enumerate(ids):
        if verdict:
            break
        expected = [("REGISTERED", None)] + [(st, req) for (st, req, own) in w.successes(i)]
        hist = app.state_backend.get_history(i)
        api_order = [h.status_record.status.name for h in hist]
        hist = sorted(hist, key=lambda h: h.status_record.timestamp)
        got = [(h.status_record.status.name, h.runner_context_id) for h in hist]
        stamps = [h.status_record.timestamp for h in hist]
        if len(set(stamps)) != len(stamps):
            ties += 1
        foreign = [h.invocation_id for h in hist if h.invocation_id != i]
        cur = w.status(i)[0]
        details[n] = {"expected": expected, "history": got, "current": cur}
        exp_s, got_s = [e[0] for e in expected], [g[0] for g in got]
        if foreign:
            verdict = f"history of invocation #{n} contains entries of another invocation"
        elif sorted(exp_s) != sorted(got_s):
            miss = list(exp_s)
            for x in got_s:
                if x in miss:
                    miss.remove(x)
            extra = list(got_s)
            for x in exp_s:
                if x in extra:
                    extra.remove(x)
            verdict = f"history of invocation #{n} is {got_s} but its successful changes were {exp_s} (missing {miss}, extra {extra})"
        elif exp_s != got_s and len(set(stamps)) == len(stamps):
            verdict = f"history of invocation #{n} ordered by change time is {got_s}, the changes happened as {exp_s}"
        elif name in ("plain", "batch", "flush") and api_order != exp_s and len(set(stamps)) == len(stamps):
            # every change of these invocations is made by ONE runner, one after the other: the order get_history itself gives
            # (its own time stamps) must be the order of the changes however late the writers ran
            verdict = f"get_history of invocation #{n} lists {api_order}, the changes happened as {exp_s}"
        elif got_s and got_s[-1] != cur and len(set(stamps)) == len(stamps):
            verdict = f"history of invocation #{n} ends at {got_s[-1]} but the current status is {cur}"
        else:
            # requester attribution (registration is attributed to the client's own context)
            for (es, er), (gs, gr) in zip(expected[1:], [g for g in got if g[0] != "REGISTERED"] if exp_s == got_s else []):
                if es == gs and er != gr:
                    verdict = f"history entry {gs} of invocation #{n} names runner {gr}, the change was made by {er}"
                    break
    return {"verdict": verdict, "ties": ties, "details": details, "actors": len(s.actors), "steps": len(s.trace)}


def main(ctx: Ctx) -> int:
    world.quiet()
    info = ctx.translate("history_facts", history_facts.translate, "gen/HistoryFacts_gen.v")
    ctx.translate("atomicity", atomicity.translate, "gen/Atomicity_gen.v")
    ctx.translate("status_table", status_table.translate, "gen/StatusTable_gen.v")
    ctx.notes["facts"] = info.get("facts")
    ctx.prove("Props/C10.v")
    scratch = world.scratch_dir()
    n, ties, per = 0, 0, {}
    reps = 40 if ctx.thorough else 15
    try:
        for kind in ("mem", "sqlite"):
            for name in SCENARIOS:
                for mode in ("writers_last", "writers_reverse", "random"):
                    for r in range(reps if mode == "random" else max(1, reps // 3)):
                        seed = ctx.rng.randrange(10 ** 9)
                        out = run_scenario(kind, scratch, name, mode, seed)
                        n += 1
                        ties += out["ties"]
                        per[f"{kind}:{name}:{mode}"] = per.get(f"{kind}:{name}:{mode}", 0) + 1
                        if out["verdict"]:
                            ctx.violation(f"history:{kind}:{out['verdict'].split(' is ')[0].split(' of ')[0].replace(' ', '-')[:30]}:{name}",
                                          f"{kind}/{name}/{mode}: {out['verdict']}",
                                          {"kind": "scenario", "backend": kind, "scenario": name, "mode": mode, "seed": seed, "observed": out})
                        elif len(ctx.coverage["samples"]) < 5 and name in ("retry", "cc_reroute", "kill"):
                            ctx.sample({"backend": kind, "scenario": name, "mode": mode, "actors": out["actors"], "steps": out["steps"],
                                        "history_of_0": out["details"].get(0, {}).get("history")})
    finally:
        world.rm_scratch(scratch)
    ctx.count(n, n)
    ctx.notes["scenarios"] = {"runs": n, "per": per, "timestamp_ties_skipped_for_order": ties}
    ctx.assumptions += ["change timestamps of one invocation pairwise distinct (ties counted in the evidence, order not judged for them)"]
    return ctx.finish(rule="each evaluation = one scheduled run of a lifecycle scenario (plain/batch submission/retry/concurrency reroute/kill/recovery) on one "
                           "backend with history writers last / reverse / random; all runs are non-trivial (>= 2 invocations with >= 3 changes)")


def replay(ctx: Ctx, path: str) -> int:
    world.quiet()
    rp = json.load(open(path))["replay"]
    scratch = world.scratch_dir()
    try:
        print(json.dumps(run_scenario(rp["backend"], scratch, rp["scenario"], rp["mode"], rp["seed"]), indent=1, default=str))
    finally:
        world.rm_scratch(scratch)
    return 0

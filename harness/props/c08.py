"""C08 — broker: exactly once, FIFO, count = routed - retrieved; concurrent retrievers partition.

proof: Props/C08.v over models instantiated with gen/BrokerFacts_gen.v (append/popleft direction, pop
       guarded, ORDER BY direction, BEGIN IMMEDIATE around SELECT+DELETE).
tie:   translator (AST facts) + sequential correspondence of both real brokers against mem_run / sql_run
       + bounded schedule exploration of real concurrent retrievers/routers (SQL-statement granularity on
       SQLite, source-line granularity on MemBroker) with a partition oracle.
"""
from __future__ import annotations

import json
from collections import Counter

from harness import sched as S
from harness import world
from harness.common import Ctx
from harness.translate import broker_facts

GENERATED = [("harness.translate.broker_facts", "translate", "gen/BrokerFacts_gen.v")]
MANIFEST = {
    "technique": "Coq refinement proof (SQLite rows -> FIFO list -> ghost log) over generated facts + differential correspondence + schedule exploration",
    "text": "Theorems (Props/C08.v), all about the models instantiated with facts regenerated from mem_broker.py / sqlite_broker.py: "
            "for every operation sequence delivered ++ queued = routed since the last purge (exactly once, FIFO, nothing lost), "
            "retrieve returns the head, empty yields None, count = routed - retrieved; the SQLite model (rows ordered by "
            "(created_at,rowid), monotone clock) returns the same values as the FIFO list for every sequence; for any number of "
            "concurrent retrievers/routers and every interleaving the deliveries of all actors plus the remainder equal what was "
            "routed (atomic retrieve), and the in-memory check-then-pop never raises; refutation witnesses show each mechanism is "
            "necessary. Tie: AST facts + random/structured op sequences on both real brokers vs the model + exhaustive bounded-"
            "preemption schedules of real retrievers at SQL-statement / source-line granularity.",
    "note": "Trusted: SQLite engine (a BEGIN IMMEDIATE transaction excludes other writers; index order among equal created_at is "
            "rowid order), wall clock does not step backwards, CPython deque.append/popleft are atomic; translator pattern-matches "
            "the two broker classes (fail-closed); schedule exploration is bounded (validation, not proof).",
    "design_ref": "DESIGN.md §6 C08",
}
IMPORTS = ["Model.Broker", "gen.BrokerFacts_gen"]

OUT = ("(map (fun o => match o with BUnit => [0;0] | BMsg None => [1;0] | BMsg (Some m) => [2;m] "
       "| BNum n => [3;n] | BRaise => [4;0] end))")


def coq_op(o) -> str:
    k = o[0]
    if k == "route":
        return f"BRoute {o[1]}"
    if k == "route_many":
        return "BRouteMany [" + "; ".join(map(str, o[1])) + "]"
    return {"retrieve": "BRetrieve", "count": "BCount", "purge": "BPurge"}[k]


def gen_seq(rng, n):
    ops = []
    for _ in range(n):
        r = rng.random()
        if r < 0.30:
            ops.append(("route", rng.randint(1, 5)))
        elif r < 0.42:
            ops.append(("route_many", [rng.randint(1, 5) for _ in range(rng.choice([0, 1, 2, 3, 8, 60]))]))
        elif r < 0.80:
            ops.append(("retrieve",))
        elif r < 0.95:
            ops.append(("count",))
        else:
            ops.append(("purge",))
    return ops


def run_impl(broker, ops):
    """`broker` may be a list of broker objects over the SAME queue (two processes' views of one SQLite file): operation i
    goes through broker[i % len]"""
    brokers = broker if isinstance(broker, list) else [broker]
    outs = []
    for i, o in enumerate(ops):
        broker = brokers[i % len(brokers)]
        try:
            if o[0] == "route":
                broker.route_invocation(f"m{o[1]}")
                outs.append([0, 0])
            elif o[0] == "route_many":
                broker.route_invocations([f"m{x}" for x in o[1]])
                outs.append([0, 0])
            elif o[0] == "retrieve":
                r = broker.retrieve_invocation()
                outs.append([1, 0] if r is None else [2, int(str(r)[1:])])
            elif o[0] == "count":
                outs.append([3, broker.count_invocations()])
            else:
                broker.purge()
                outs.append([0, 0])
        except BaseException as ex:  # noqa: BLE001
            outs.append([4, type(ex).__name__])
    return outs


def reference(ops):
    """independent oracle: the documented contract as a plain list"""
    q, outs = [], []
    for o in ops:
        if o[0] == "route":
            q.append(o[1]); outs.append([0, 0])
        elif o[0] == "route_many":
            q.extend(o[1]); outs.append([0, 0])
        elif o[0] == "retrieve":
            outs.append([2, q.pop(0)] if q else [1, 0])
        elif o[0] == "count":
            outs.append([3, len(q)])
        else:
            q.clear(); outs.append([0, 0])
    return outs


def sequential(ctx: Ctx, scratch: str):
    n = 2000 if ctx.thorough else 250
    seqs = [gen_seq(ctx.rng, ctx.rng.randint(1, 40)) for _ in range(n)]
    # corpus: the shapes that matter
    seqs += [[("route", 1), ("route", 2), ("retrieve",), ("retrieve",), ("retrieve",)],
             [("route_many", [3, 3, 3]), ("count",), ("retrieve",), ("count",), ("purge",), ("count",), ("retrieve",)],
             [("route_many", list(range(1, 6)) * 12), *[("retrieve",)] * 61, ("count",)]]
    mem_exprs = [f"{OUT} (snd (mem_run mem_append_right mem_pop_left [] [{'; '.join(coq_op(o) for o in s)}]))" for s in seqs]
    sql_exprs = [f"{OUT} (snd (sql_run sqlite_order_asc sq0 0 [{'; '.join('(' + str(i % 2) + ', ' + coq_op(o) + ')' for i, o in enumerate(s))}]))" for s in seqs]
    vals = ctx.coq_eval(IMPORTS, mem_exprs + sql_exprs, chunk=150)
    model = {"mem": vals[:len(seqs)], "sqlite": vals[len(seqs):]}
    kinds = Counter(o[0] for s in seqs for o in s)
    n_exec = 0
    for kind in ("mem", "sqlite"):
        app = world.make_app(kind, scratch)
        views = [[app.broker]]
        if kind == "sqlite":
            # the queue is shared state: a second broker object on the same database (another process) must see the same queue
            app2 = world.make_app(kind, scratch, app_id=app.app_id)
            views.append([app.broker, app2.broker])
        for s, m in [(s, m) for s, m in zip(seqs, model[kind])] * len(views):
            n_exec += 1
            view = views[(n_exec - 1) // len(seqs) % len(views)]
            app.broker.purge()
            got = run_impl(view if len(view) > 1 else view[0], s)
            want = reference(s)
            if got != want:
                k = next(i for i, (a, b) in enumerate(zip(got, want)) if a != b)
                ctx.violation(f"seq:{kind}:{s[k][0]}",
                              f"{kind} broker ({len(view)} broker object(s) on one queue): operation #{k} {s[k]} returned {got[k]}, FIFO contract says {want[k]}",
                              {"kind": "sequence", "backend": kind, "ops": s, "observed": got, "expected": want, "views": len(view)})
            elif got != m:
                ctx.violation(f"seq:{kind}:model-mismatch", f"{kind} broker agrees with the reference but not with the Coq model",
                              {"kind": "sequence", "backend": kind, "ops": s, "observed": got, "model": m})
        ctx.sample({"backend": kind, "ops": seqs[0][:10], "observed": run_impl(app.broker, [("purge",)] + seqs[0][:10])[1:]})
    ctx.count(n_exec, len({json.dumps(s) for s in seqs}))
    ctx.notes["sequential"] = {"sequences": len(seqs), "executions": n_exec, "op_histogram": dict(kinds)}


def long_queue(ctx: Ctx, scratch: str):
    """the contract has no capacity: a long backlog (more messages pending than any plausible internal bound) keeps every
    message, the count and the order — implementation only (the model's queue is an unbounded list by definition)"""
    n = 25_000 if ctx.thorough else 12_500
    for kind in ("mem", "sqlite"):
        app = world.make_app(kind, scratch)
        b = app.broker
        b.purge()
        ids = [f"m{i}" for i in range(n)]
        for k in range(0, n, 2500):
            b.route_invocations(ids[k:k + 2500])
        b.route_invocation("last")
        cnt = b.count_invocations()
        head = [str(b.retrieve_invocation()) for _ in range(3)]
        cnt2 = b.count_invocations()
        bad = None
        if cnt != n + 1:
            bad = f"after routing {n + 1} ids count_invocations() = {cnt}"
        elif head != ids[:3]:
            bad = f"after routing {n + 1} ids the first retrievals are {head}, routed first were {ids[:3]}"
        elif cnt2 != n - 2:
            bad = f"after routing {n + 1} ids and retrieving 3, count_invocations() = {cnt2}"
        if bad:
            ctx.violation(f"long-queue:{kind}", f"{kind} broker: {bad}", {"kind": "long-queue", "backend": kind, "n": n})
        b.purge()
    ctx.count(2, 2)
    ctx.notes["long_queue"] = {"messages": n + 1}


# ---------------------------------------------------------------- concurrency (validation / search)
def conc_scenarios(ctx: Ctx):
    out = []
    for pre in ([7], [7, 7], [1, 2], [1, 2, 3]):
        for n_retr in (2, 3):
            for with_router in (False, True):
                out.append({"pre": pre, "retrievers": n_retr, "each": 1 if len(pre) < 3 else 2, "router": with_router})
    out = out if ctx.thorough else [s for s in out if s["retrievers"] == 2 or (s["pre"] == [7] and not s["router"])]
    # the same with the retrievers in different processes (own broker object each; SQLite only)
    out += [dict(s, views=2) for s in out if s["retrievers"] == 2 and (ctx.thorough or not s["router"])]
    return out


def run_conc(kind: str, scratch: str, sc: dict, prefix: list[int], line_level: bool):
    app = world.make_app(kind, scratch)
    for m in sc["pre"]:
        app.broker.route_invocation(f"m{m}")
    s = S.Sched()
    brokers = [app.broker]
    if kind == "sqlite":
        S.instrument_sqlite()
        import pynenc.broker.sqlite_broker as sb_mod
        if hasattr(sb_mod, "threading"):
            S.shim_threading(sb_mod)          # an in-process lock must park the actor, not block the OS thread
        if sc.get("views", 1) > 1:
            # retrievers of different PROCESSES: each has its own broker object on the shared database
            brokers.append(world.make_app(kind, scratch, app_id=app.app_id).broker)
    elif line_level:
        s.trace_targets = {("mem_broker.py", "retrieve_invocation")}
    got: dict[int, list] = {}

    def retriever(k):
        def f():
            got[k] = []
            for _ in range(sc["each"]):
                if not line_level and kind == "mem":
                    s.yield_point("retrieve")
                got[k].append(brokers[k % len(brokers)].retrieve_invocation())
        return f
    for k in range(sc["retrievers"]):
        s.spawn(f"retr{k}", retriever(k))
    if sc["router"]:
        s.spawn("router", lambda: app.broker.route_invocation("m9"))
    try:
        status = s.run(S.replay_chooser(prefix), max_steps=2000)
    finally:
        s.shutdown()
    raised = [(a.name, type(a.exc).__name__) for a in s.actors if a.exc is not None]
    rest = []
    while (r := app.broker.retrieve_invocation()) is not None:
        rest.append(str(r))
    delivered = [str(x) for k in sorted(got) for x in got[k] if x is not None]
    routed = [f"m{m}" for m in sc["pre"]] + (["m9"] if sc["router"] else [])
    verdict = None
    if status != "done":
        verdict = f"schedule ended {status}"
    elif raised:
        verdict = f"retriever raised {raised}"
    elif Counter(delivered) + Counter(rest) != Counter(routed):
        dup = Counter(delivered) + Counter(rest) - Counter(routed)
        lost = Counter(routed) - (Counter(delivered) + Counter(rest))
        verdict = f"delivered {delivered} + remaining {rest} != routed {routed} (duplicated {dict(dup)}, lost {dict(lost)})"
    else:
        # each retriever's own deliveries respect routing order (FIFO)
        for k, l in got.items():
            seq = [str(x) for x in l if x is not None]
            it = iter(routed)
            if not all(any(x == y for y in it) for x in seq):
                verdict = f"retriever {k} received {seq}, not a subsequence of the routing order {routed}"
    return s.decisions, {"verdict": verdict, "got": {k: [None if x is None else str(x) for x in v] for k, v in got.items()},
                         "rest": rest, "status": status, "events": len(s.events)}


def concurrency(ctx: Ctx, scratch: str):
    total = 0
    per = {}
    for kind, line in (("sqlite", False), ("mem", True)):
        for sc in conc_scenarios(ctx):
            if sc.get("views", 1) > 1 and kind != "sqlite":
                continue
            n = 0
            maxp = 2
            budget = (400 if ctx.thorough else 120) if kind == "sqlite" else (300 if ctx.thorough else 100)
            for schedule, out in S.explore(lambda p: run_conc(kind, scratch, sc, p, line), max_preemptions=maxp, max_runs=budget):
                n += 1
                if out["verdict"]:
                    sig = out["verdict"].split(" ")[0:2]
                    ctx.violation(f"conc:{kind}:{'-'.join(sig)}",
                                  f"{kind} broker, concurrent retrievers {sc}: {out['verdict']}",
                                  {"kind": "schedule", "backend": kind, "scenario": sc, "schedule": schedule, "line_level": line,
                                   "observed": out})
                    break
            if n and len(ctx.coverage["samples"]) < 6:
                ctx.sample({"backend": kind, "scenario": sc, "schedules_explored": n})
            total += n
            per[f"{kind}:{json.dumps(sc, sort_keys=True)}"] = n
    ctx.count(total, total)
    ctx.notes["concurrency"] = {"schedules": total, "per_scenario": per,
                                "granularity": "SQL statement (sqlite) / source line of MemBroker.retrieve_invocation (mem)",
                                "bound": "<=2 pre-emptions, DFS, budget per scenario"}


def main(ctx: Ctx) -> int:
    world.quiet()
    info = ctx.translate("broker_facts", broker_facts.translate, "gen/BrokerFacts_gen.v")
    ctx.notes["facts"] = info.get("facts")
    ctx.prove("Props/C08.v")
    scratch = world.scratch_dir()
    try:
        sequential(ctx, scratch)
        concurrency(ctx, scratch)
        long_queue(ctx, scratch)
    finally:
        world.rm_scratch(scratch)
    ctx.assumptions += ["message ids m1..m9 (the theorems quantify over all ids and lengths)",
                        "created_at non-decreasing in insertion order (wall clock does not step backwards)",
                        "SQLite serialises BEGIN IMMEDIATE transactions; among equal created_at the index yields rowid order"]
    return ctx.finish(rule="sequences: seeded random op lists (route/route_many incl. 60-message bursts/retrieve/count/purge, ids repeated) "
                           "on both real brokers vs reference list and Coq model; schedules: DFS with <=2 pre-emptions over 2-3 "
                           "retrievers (+router) on pre-filled queues; distinct = distinct op lists + distinct schedules")


def replay(ctx: Ctx, path: str) -> int:
    world.quiet()
    rp = json.load(open(path))["replay"]
    scratch = world.scratch_dir()
    try:
        if rp["kind"] == "long-queue":
            long_queue(ctx, scratch)
            for v in ctx.violations:
                print("REPRODUCED:", v["what"])
            return 0
        if rp["kind"] == "sequence":
            app = world.make_app(rp["backend"], scratch)
            ops = [tuple(o) for o in rp["ops"]]
            view = [app.broker]
            if rp.get("views", 1) > 1:
                view.append(world.make_app(rp["backend"], scratch, app_id=app.app_id).broker)
            print("observed", run_impl(view, ops))
            print("expected", reference(ops))
        else:
            _, out = run_conc(rp["backend"], scratch, rp["scenario"], rp["schedule"], rp.get("line_level", False))
            print(out)
    finally:
        world.rm_scratch(scratch)
    return 0

"""C18 — workflow deterministic operations replay deterministically and never mix between workflows.

proof: Props/C18.v over Model/Workflow.v instantiated with gen/Workflow_gen.v (facts regenerated from
       workflow_context.py / workflow_deterministic.py / task.py on every run).
tie:   real task bodies (harness/tasks_c18.py) issuing generated sequences of wf.random / wf.utc_now / wf.uuid /
       wf.execute_task through real DistributedInvocation.run, re-executed (retry, simulated runner death +
       recovery) in the same app image, in fresh app images over the same SQLite file, interleaved with bodies
       of other workflows sequentially and in baton-scheduled threads, on both state backends; helper calls are
       also pre-empted INSIDE the call (per-thread trace function: before every source line of pynenc/workflow/
       in turn) while another workflow of the same image makes calls, and launched sub-invocations are really
       run between / during the attempts of their parent and end in every way (SUCCESS, FAILED, RETRY, RUNNING
       with a dead runner, KILLED, PENDING); every returned value and the complete workflow data of every
       workflow is decoded to the model's symbolic values (with the real md5 / random.Random / uuid) and
       compared with `render (run gen_cfg events)` (pre-empted calls: under some linearisation).
oracle: the property statement evaluated on the decoded implementation observations (independent of the model).
"""
from __future__ import annotations

import datetime
import hashlib
import json
import random as pyrandom
import threading
import uuid as pyuuid

from harness import world
from harness.common import CheckError, Ctx
from harness.translate import workflow as wf_translate

GENERATED = [("harness.translate.workflow", "translate", "gen/Workflow_gen.v")]

MANIFEST = {
    "technique": "Coq proof (invariants by induction over arbitrary event lists) over a model parameterised by facts generated "
                 "from the source + differential correspondence on real task bodies run through DistributedInvocation.run",
    "text": "Machine-checked theorems (Props/C18.v) about Model/Workflow.v instantiated with the facts regenerated from "
            "workflow_context.py, workflow_deterministic.py and task.py on every run (where the DeterministicExecutor lives, "
            "whether seeds contain the workflow id, whether the sub-task record key contains the call identity, whether the "
            "replay branch of execute_task hands the recorded invocation back unconditionally, whether the value generators "
            "keep no state outside their own call - no class-level / module-level / global-generator state -, whether "
            "execute_task keeps no state outside the workflow data; executor scope = on the running invocation / per Task object / "
            "in a container of the process keyed by the invocation id or object, also a weak one): for EVERY "
            "list of begin/operation events (any number of executions, processes, task objects, workflows, any interleaving "
            "at operation granularity) with a per-execution executor the n-th random/time/uuid of two executions of the same "
            "workflow is equal, a sub-task call is launched at most once per (workflow, call) and every execution gets that "
            "launch back, values returned to different workflows are different symbolic values and an execution only writes "
            "records of its own workflow; the executor scope the current source implements (cached per Task object) is refuted "
            "by computed witnesses, as is an executor kept in a process container keyed by the invocation (id or object), and the "
            "statement is proved equivalent to scope = per execution; a process-wide cache of resolved sub-task invocations keyed by "
            "the call only, a guarded replay branch "
            "(re-launch depending on the state of the recorded sub-invocation) and a value generator that goes through "
            "process-wide state (pre-empted between preparing and drawing) are refuted by computed witnesses too. Tie: generated "
            "histories (retry, runner death + recovery, fresh app image over the same SQLite file, other workflows sequentially "
            "and in baton-scheduled threads; helper calls pre-empted before every source line of pynenc/workflow/ in turn while "
            "another workflow of the same image calls the helper, also in lock-step; launched sub-invocations really run and "
            "ending SUCCESS / FAILED / RETRY / RUNNING-with-dead-runner / KILLED / PENDING between and during the attempts of "
            "the parent) are executed on the real code on both state backends; all returned values and the full workflow data "
            "are decoded with the real md5/random/uuid and compared with the model (pre-empted calls: under some linearisation); "
            "an independent oracle evaluates the property statement on the implementation's observations.",
    "note": "Values are symbolic in the model (md5 / random.Random / uuid are an uninterpreted oracle; provenance stays visible). "
            "Interleaving granularity in the MODEL is one helper call; on the implementation side threads are baton-scheduled at "
            "operation boundaries and, in the pre-emption histories, at source-line boundaries of pynenc/workflow/*.py inside a "
            "call (not inside the state backend / orchestrator code a call reaches; at most two calls pre-empted per history); "
            "attempts of ONE workflow never overlap in time (the status machine gives an invocation one owner). Per history the "
            "runner of an image either drops the invocation object of a finished attempt, still references it (ThreadRunner's thread "
            "table) or re-runs the object it holds. Mutable module-level / class-level containers of pynenc.workflow.* are kept "
            "per process image and reset per history by the harness (ProcState), other process-global objects are not. Any exception "
            "out of the implementation while a history runs is reported as a violation with a replay. The sub-task body "
            "issues no workflow operations itself. A fresh process image is a fresh "
            "Pynenc app object with fresh Task objects over the same SQLite file (thorough tier adds a real child OS process). "
            "Known finding: the executor is cached per Task object (Task.wf cached_property + WorkflowContext._deterministic).",
    "design_ref": "DESIGN.md §6 C18",
}

IMPORTS = ["Model.Workflow", "gen.Workflow_gen"]
EPOCH = datetime.datetime(2001, 1, 1, tzinfo=datetime.UTC)
KINDS = {"r": 0, "t": 1, "u": 2}
KIND_NAME = {0: "random", 1: "time", 2: "uuid"}
TRACED_DIR = "/pynenc/workflow/"            # source files whose lines are pre-emption points
CHILD_OUTCOMES = ("ok", "fail", "retry", "crash", "killed", "pending")
KNOWN_MIXED = "cached-executor:workflows-mixed-same-process"
KNOWN_REEXEC = "cached-executor:reexecution-same-process"


# =========================================================================== cases
def op_code(o: str) -> list[int]:
    return [KINDS[o], 0] if o in KINDS else [3, int(o[1:])]


def has_preemption(case: dict) -> bool:
    return any(ev[0] == "P" for ev in case["schedule"])


def _op_term(o: str) -> str:
    return f"(ODet {['Rnd', 'Tim', 'Uid'][KINDS[o]]})" if o in KINDS else f"(OExec {int(o[1:])})"


def model_variants(case: dict, gen_private: bool = True, replay_uncond: bool = True, cap: int = 64) -> list[str]:
    """Model event lists of a case (EEnd markers have no model effect).  A helper call that is pre-empted
    (P .. R) takes effect at some point between its two halves: one event list per choice (linearisations;
    the first one puts every call where it completes).  With a non-private value generator a further
    choice is `ESeed` at the pre-emption and the call at its completion.  A child run that fails is an
    EChild event (the model ignores it unless the replay branch of execute_task is guarded)."""
    progs = {i + 1: [o for o in w["prog"].split(",") if o] for i, w in enumerate(case["workflows"])}
    pos: dict[int, int] = {}
    wf_of: dict[int, int] = {}
    fixed: list[tuple[tuple, str]] = []          # (sort key, event text)
    floating: list[dict] = []                    # pre-empted calls
    open_p: dict[int, dict] = {}
    requested: set = set()
    final: set = set()
    failed: set = set()
    for i, ev in enumerate(case["schedule"]):
        if ev[0] == "B":
            _, e, p, w = ev
            wf_of[e], pos[e] = w, 0
            fixed.append(((i, 0, 0), f"EBegin {e} {p} {case['workflows'][w - 1]['t']} {w}"))
        elif ev[0] in ("O", "P"):
            e = ev[1]
            o = progs[wf_of[e]][pos[e]]
            pos[e] += 1
            if o[0] == "x":
                wc = (wf_of[e], int(o[1:]))
                requested.add(wc)
                if not replay_uncond and wc in failed:      # a guarded replay launches again: a new, unfinished child
                    failed.discard(wc)
                    final.discard(wc)
            if ev[0] == "O":
                fixed.append(((i, 0, 0), f"EOp {e} {_op_term(o)}"))
            else:
                open_p[e] = {"e": e, "o": o, "start": i, "end": None}
                floating.append(open_p[e])
        elif ev[0] == "R":
            if ev[1] in open_p:
                open_p.pop(ev[1])["end"] = i
        elif ev[0] == "C":
            _, w, c, how = ev
            if (w, c) in requested and (w, c) not in final and how in ("ok", "fail"):
                final.add((w, c))
                if how == "fail":
                    failed.add((w, c))
                    fixed.append(((i, 0, 0), f"EChild {w} {c}"))
    for f in floating:
        if f["end"] is None:                     # never resumed: the attempt is ended while pre-empted
            f["end"] = len(case["schedule"])
    variants: list[list[tuple[tuple, str]]] = [[]]
    for n, f in enumerate(floating):
        text = f"EOp {f['e']} {_op_term(f['o'])}"
        # "after schedule event j" for j = end-1 (completion) down to start (the pre-emption itself)
        choices = [[((j, 2, r), text)] for j in range(f["end"] - 1, f["start"] - 1, -1) for r in (n, -n - 1)]
        if not gen_private and f["o"] in KINDS:
            choices += [[((f["start"], 1, n), f"ESeed {f['e']} {['Rnd', 'Tim', 'Uid'][KINDS[f['o']]]}"),
                         ((f["end"] - 1, 2, r), text)] for r in (n, -n - 1)]
        variants = [v + c for v in variants for c in choices]
    out, seen = [], set()
    for v in variants:
        evs = "[" + "; ".join(t for _, t in sorted(fixed + v, key=lambda kt: kt[0])) + "]"
        if evs not in seen:
            seen.add(evs)
            out.append(evs)
        if len(out) > cap:
            raise CheckError(f"too many linearisations for {json.dumps(case)}")
    return out


def coq_events(case: dict) -> str:
    return model_variants(case)[0]


def plans(case: dict) -> dict[int, tuple[int, str]]:
    n: dict[int, int] = {}
    out = {}
    for ev in case["schedule"]:
        if ev[0] == "B":
            n[ev[1]] = 0
        elif ev[0] in ("O", "P"):
            n[ev[1]] += 1
        elif ev[0] == "E":
            out[ev[1]] = (n[ev[1]], ev[2])
    return out


def shared_task_objects(case: dict) -> str:
    """'clean' (every (image, task object) is used by one execution), 'reexec' (shared only by executions of one
    workflow) or 'mixed' (shared by executions of different workflows)."""
    users: dict[tuple[int, int], list[int]] = {}
    for ev in case["schedule"]:
        if ev[0] == "B":
            _, e, p, w = ev
            users.setdefault((p, case["workflows"][w - 1]["t"]), []).append(w)
    kind = "clean"
    for ws in users.values():
        if len(ws) > 1:
            if len(set(ws)) > 1:
                return "mixed"
            kind = "reexec"
    return kind


def gen_program(rng, maxlen: int) -> str:
    n = rng.randint(1, maxlen)
    alpha = ["r", "r", "t", "u", "u", "x1", "x2", "x1"]
    return ",".join(rng.choice(alpha) for _ in range(n))


def gen_case(rng, backend: str, pattern: str, maxlen: int = 6) -> dict:
    """One history. pattern: retry_same | recover_fresh | two_seq | two_threads | all_fresh | random | preempt
    (preempt = two_threads/three workflows in one image with helper calls pre-empted at a source line while
    another workflow runs).  Every pattern lets launched sub-invocations run and end in generated ways."""
    multi = backend == "sqlite"
    if pattern == "preempt":
        case = gen_case(rng, backend, "two_threads" if rng.random() < 0.7 else "three_threads", maxlen)
        case["pattern"] = "preempt"
        case["schedule"] = add_preemptions(rng, case["schedule"])
        return case
    nwf = {"retry_same": 1, "recover_fresh": 1, "two_seq": 2, "two_threads": 2, "three_threads": 3}.get(pattern, rng.randint(1, 3))
    same_body = rng.random() < 0.6
    base = gen_program(rng, maxlen)
    wfs = []
    for i in range(nwf):
        if pattern == "all_fresh" and not multi:
            t = i % 2                       # mem: at most two task objects -> at most two clean workflows
        else:
            t = 0 if pattern in ("two_seq", "two_threads") else rng.choice((0, 0, 1))
            if pattern == "three_threads":
                t = rng.choice((0, 0, 1))
        wfs.append({"t": t, "prog": base if same_body else gen_program(rng, maxlen)})
    if pattern == "all_fresh" and not multi:
        wfs = wfs[:2]
        nwf = len(wfs)
    # attempts per workflow
    e = 0
    per_wf: list[list[list]] = []
    next_fresh = [0]

    def image(w_idx: int, attempt: int) -> int:
        if not multi:
            return 0
        if pattern == "all_fresh":
            next_fresh[0] += 1
            return next_fresh[0] - 1
        if pattern == "recover_fresh":
            return attempt
        if pattern in ("retry_same", "two_seq", "two_threads", "three_threads"):
            return 0
        return rng.choice((0, 0, 1, 2))

    for wi, w in enumerate(wfs):
        ops = [o for o in w["prog"].split(",") if o]
        if pattern in ("retry_same", "recover_fresh"):
            k = rng.randint(2, 3)
        elif pattern == "all_fresh":
            k = rng.randint(1, 3) if multi else 1
        else:
            k = rng.choice((1, 1, 2, 3))
        blocks = []
        for a in range(k):
            last = a == k - 1
            n_ops = len(ops) if last or rng.random() < 0.4 else rng.randint(0, len(ops))
            if last:
                how = "ok" if rng.random() < 0.8 else rng.choice(("retry", "crash"))
            else:
                how = "crash" if pattern == "recover_fresh" else ("retry" if pattern == "retry_same" else rng.choice(("retry", "crash")))
            blk = [["B", e, image(wi, a), wi + 1]] + [["O", e]] * n_ops + [["E", e, how]]
            blocks.append(blk)
            e += 1
        per_wf.append(blocks)
    threads = pattern in ("two_threads", "three_threads") or (pattern in ("random", "all_fresh") and rng.random() < 0.5)
    schedule: list[list] = []
    if threads:
        # op-granular random merge; attempts of one workflow stay sequential
        streams = [[ev for blk in blocks for ev in blk] for blocks in per_wf]
        idx = [0] * len(streams)
        while any(i < len(s) for i, s in zip(idx, streams)):
            c = rng.choice([j for j, s in enumerate(streams) if idx[j] < len(s)])
            schedule.append(streams[c][idx[c]])
            idx[c] += 1
    else:
        # attempt-granular merge (blocks contiguous)
        queues = [list(b) for b in per_wf]
        while any(queues):
            c = rng.choice([j for j, q in enumerate(queues) if q])
            schedule.extend(queues[c].pop(0))
    mode = "threads" if threads or rng.random() < 0.25 else "inline"
    schedule = add_child_runs(rng, wfs, schedule, mode)
    objs = rng.choice(("fresh", "fresh", "kept", "kept", "same"))
    return {"backend": backend, "pattern": pattern, "mode": mode, "objs": objs, "workflows": wfs, "schedule": schedule}


def add_child_runs(rng, wfs: list[dict], schedule: list[list], mode: str) -> list[list]:
    """Let launched sub-invocations be picked up by a runner between the events of the history: C events
    [C, workflow, call, outcome].  In inline mode an attempt runs as a whole at its B event, so child runs
    are placed between attempts only."""
    calls = sorted({(i + 1, int(o[1:])) for i, w in enumerate(wfs) for o in w["prog"].split(",") if o and o[0] == "x"})
    if not calls or rng.random() < 0.3:
        return schedule
    out = list(schedule)
    for _ in range(rng.randint(1, 3)):
        w, c = rng.choice(calls)
        how = rng.choice(("fail", "fail", "fail", "ok", "ok", "retry", "crash", "killed", "pending"))
        if mode == "threads":
            slots = list(range(1, len(out) + 1))
            # not between a pre-empted call and its resumption of the same workflow's... any slot is legal
        else:
            slots = [i for i, ev in enumerate(out) if ev[0] == "B" and i > 0] + [len(out)]
        out.insert(rng.choice(slots), ["C", w, c, how])
    return out


def add_preemptions(rng, schedule: list[list], max_pre: int = 2, max_gap: int = 2) -> list[list]:
    """Turn up to `max_pre` helper calls into pre-empted ones: [P, e, k] runs the call up to its k-th source
    line inside pynenc/workflow/, then up to `max_gap` following events of OTHER workflows happen, then [R, e]."""
    wf_of = {ev[1]: ev[3] for ev in schedule if ev[0] == "B"}

    def stream(ev):
        return ev[1] if ev[0] == "C" else wf_of[ev[1]]
    out = list(schedule)
    for _ in range(max_pre):
        cand = []
        for i, ev in enumerate(out):
            if ev[0] != "O":
                continue
            w = wf_of[ev[1]]
            gap = 0
            while i + 1 + gap < len(out) and gap < max_gap and out[i + 1 + gap][0] not in ("P", "R") \
                    and stream(out[i + 1 + gap]) != w:
                gap += 1
            # no pre-empted call of another execution may be open across this one (keeps linearisations few)
            open_before = sum(1 for x in out[:i] if x[0] == "P") - sum(1 for x in out[:i] if x[0] == "R")
            if gap > 0 and open_before == 0:
                cand.append((i, gap))
        if not cand:
            break
        i, gap = rng.choice(cand)
        e = out[i][1]
        out[i] = ["P", e, rng.randint(2, 48)]
        out.insert(i + 1 + rng.randint(1, gap), ["R", e])
    return out


def enumerate_child(backend: str) -> list[dict]:
    """Every way a run of the recorded sub-invocation can end x the canonical re-executions of the parent body
    (retry in the same image; runner death + recovery; on SQLite also the replay in a fresh image)."""
    cases = []
    for how in CHILD_OUTCOMES:
        for end in ("retry", "crash"):
            for img in ((0, 1) if backend == "sqlite" else (0,)):
                sch = [["B", 0, 0, 1], ["O", 0], ["E", 0, end], ["C", 1, 1, how], ["B", 1, img, 1], ["O", 1], ["O", 1],
                       ["E", 1, "retry"], ["C", 1, 2, how], ["B", 2, 0, 1], ["O", 2], ["O", 2], ["E", 2, "ok"]]
                cases.append({"backend": backend, "pattern": "enum_child", "mode": "inline",
                              "workflows": [{"t": 0, "prog": "x1,x2"}], "schedule": sch})
    # the sub-invocation ends while its parent is still running, next to a second workflow making the same call
    for how in CHILD_OUTCOMES:
        sch = [["B", 0, 0, 1], ["B", 1, 0, 2], ["O", 0], ["O", 1], ["C", 1, 1, how], ["E", 0, "retry"], ["C", 2, 1, how],
               ["B", 2, 0, 1], ["O", 2], ["E", 1, "crash"], ["B", 3, 0, 2], ["O", 3], ["E", 2, "ok"], ["E", 3, "ok"]]
        cases.append({"backend": backend, "pattern": "enum_child", "mode": "threads",
                      "workflows": [{"t": 0, "prog": "x1"}, {"t": 0, "prog": "x1"}], "schedule": sch})
    return cases


def probe_lines(backend: str, scratch: str) -> dict[str, int]:
    """Source lines inside pynenc/workflow/ executed by one helper call of each kind on the current tree
    (first call of a fresh executor; measured on the real code, so the enumeration below follows refactors)."""
    kinds = ["r", "t", "u", "x1"]
    case = {"backend": backend, "pattern": "probe", "mode": "threads", "workflows": [{"t": 0, "prog": k} for k in kinds],
            "schedule": [x for i in range(len(kinds)) for x in (["B", i, 0, i + 1], ["P", i, 10 ** 6], ["R", i], ["E", i, "ok"])]}
    try:
        raw = run_impl(case, scratch, "probe")
        if raw["errors"]:
            raise RuntimeError(str(raw["errors"]))
        return {k: max(1, raw["line_counts"].get(i, [1])[0]) for i, k in enumerate(kinds)}
    except CheckError:
        raise
    except Exception:  # noqa: BLE001 - a tree on which the probe fails is judged by the histories, with default counts
        return {"r": 48, "t": 56, "u": 46, "x1": 28}


def enumerate_preempt(backend: str, lines: dict[str, int], pairs: list[tuple[str, str]], stride: int = 1) -> list[dict]:
    """Workflow 1's call of kind a is pre-empted before EVERY source line k (of pynenc/workflow/) in turn;
    workflow 2 (same task, same image) makes a complete call of kind b meanwhile; for a == b also the lock-step
    schedule (both pre-empted before line k, then resumed in order) and the pre-emption of a second call of the
    same kind (generator state left behind by earlier draws)."""
    cases = []
    for a, b in pairs:
        for k in range(1, lines[a] + 2, stride):
            sch = [["B", 0, 0, 1], ["B", 1, 0, 2], ["P", 0, k], ["O", 1], ["R", 0], ["E", 0, "ok"], ["E", 1, "ok"]]
            cases.append({"backend": backend, "pattern": "enum_preempt", "mode": "threads",
                          "workflows": [{"t": 0, "prog": a}, {"t": 0, "prog": b}], "schedule": sch})
            if a == b:
                sch = [["B", 0, 0, 1], ["B", 1, 0, 2], ["P", 0, k], ["P", 1, k], ["R", 0], ["R", 1], ["E", 0, "ok"], ["E", 1, "ok"]]
                cases.append({"backend": backend, "pattern": "enum_lockstep", "mode": "threads",
                              "workflows": [{"t": 0, "prog": a}, {"t": 0, "prog": b}], "schedule": sch})
                sch = [["B", 0, 0, 1], ["B", 1, 0, 2], ["O", 0], ["O", 1], ["P", 1, k], ["O", 0], ["R", 1], ["E", 0, "ok"], ["E", 1, "ok"]]
                cases.append({"backend": backend, "pattern": "enum_preempt2", "mode": "threads",
                              "workflows": [{"t": 0, "prog": f"{a},{a}"}, {"t": 0, "prog": f"{b},{b}"}], "schedule": sch})
    return cases


def enumerate_small(backend: str, maxlen: int) -> list[dict]:
    """Every program up to `maxlen` over {r,t,u,x1,x2} under the canonical history shapes of the statement."""
    import itertools
    alpha = ["r", "t", "u", "x1", "x2"]
    cases = []
    for n in range(1, maxlen + 1):
        for prog in itertools.product(alpha, repeat=n):
            p = ",".join(prog)
            for cut in range(0, n + 1):
                # retry after `cut` operations, then full replay in the same image
                # the runner drops / still references / re-runs the invocation object of the first attempt; the first
                # attempt ends by a retry or by the death of its runner (recovery re-run in the same image)
                for objs, end in (("fresh", "retry"), ("kept", "retry"), ("same", "retry"), ("kept", "crash")):
                    sch = [["B", 0, 0, 1]] + [["O", 0]] * cut + [["E", 0, end]] + [["B", 1, 0, 1]] + [["O", 1]] * n + [["E", 1, "ok"]]
                    cases.append({"backend": backend, "pattern": "enum_retry", "mode": "inline" if objs != "kept" or end == "crash" else "threads",
                                  "objs": objs, "workflows": [{"t": 0, "prog": p}], "schedule": sch})
            # two workflows, same body, same image, sequential
            sch = [["B", 0, 0, 1]] + [["O", 0]] * n + [["E", 0, "ok"]] + [["B", 1, 0, 2]] + [["O", 1]] * n + [["E", 1, "ok"]]
            cases.append({"backend": backend, "pattern": "enum_two_seq", "mode": "inline",
                          "workflows": [{"t": 0, "prog": p}, {"t": 0, "prog": p}], "schedule": sch})
            if backend == "sqlite":
                sch = [["B", 0, 0, 1]] + [["O", 0]] * n + [["E", 0, "crash"]] + [["B", 1, 1, 1]] + [["O", 1]] * n + [["E", 1, "ok"]]
                cases.append({"backend": backend, "pattern": "enum_recover_fresh", "mode": "inline",
                              "workflows": [{"t": 0, "prog": p}], "schedule": sch})
    return cases


# =========================================================================== implementation driver
class EarlyEnd(Exception):
    """An execution ended (raised) although the schedule still has events for it: an implementation failure."""


class _Handle:
    def __init__(self, e, w, p):
        self.e, self.w, self.p = e, w, p
        self.go = threading.Event()
        self.done = threading.Event()
        self.cmd = None
        self.finished = False
        self.error = None
        self.started = False
        self.task_obj = None
        self.seen_wf = None
        self.budget = None          # pre-emption: park before the budget-th traced source line of the current call
        self.lines = 0
        self.midop = False          # parked inside a helper call (set before `done`)
        self.line_counts: list[int] = []     # traced lines per pre-emptible call (probe / statistics)


class Director:
    """Owned by the harness; called from the task bodies (harness/tasks_c18.py)."""

    def __init__(self, mode: str, plan: dict):
        self.mode = mode
        self.plan = plan
        self.images: dict[int, int] = {}          # id(app) -> p
        self.pending: dict[tuple[int, str], _Handle] = {}
        self.log: list[tuple[int, str, object]] = []   # (e, op, raw value) in global order
        self.children: dict[int, object] = {}
        self.child_outcome = "ok"                 # how the next run of the sub-task ends (tasks_c18.wf_child)
        self.abort = False                        # harness failure path: every parked thread dies
        self.exec_wf: dict[int, int] = {}

    def child_task(self, app):
        return self.children[id(app)]

    def on_start(self, app, inv, task, tag):
        h = self.pending.pop((self.images[id(app)], inv.invocation_id))
        h.started = True
        h.task_obj = id(task)
        h.seen_wf = inv.workflow.workflow_id
        return h

    def before_op(self, h: _Handle, idx: int):
        from pynenc.exceptions import RetryError
        from harness.tasks_c18 import RunnerDeath
        n_ops, how = self.plan[h.e]
        if h.budget is not None:                  # the previous call ended before its pre-emption point
            h.line_counts.append(h.lines)
            h.budget = None
        if self.mode == "threads":
            h.done.set()
            if not h.go.wait(timeout=120) or self.abort:
                raise RunnerDeath("harness baton timeout")
            h.go.clear()
            cmd = h.cmd
        else:
            cmd = "op" if idx < n_ops else how
        if isinstance(cmd, tuple):                # ("pre", k): run the call up to its k-th traced line
            h.lines, h.budget = 0, cmd[1]
            cmd = "op"
        if cmd == "op":
            if idx >= n_ops:
                raise RuntimeError("harness: operation scheduled past the plan")
            return
        if cmd == "ok":
            return
        if cmd == "retry":
            raise RetryError("harness: retry requested")
        raise RunnerDeath("harness: runner death")

    def record(self, h: _Handle, idx: int, o: str, v):
        self.log.append((h.e, o, v))

    # ---- pre-emption inside a helper call: a per-thread trace function counts the source lines executed in
    # pynenc/workflow/*.py and parks the thread BEFORE the budget-th one (a legal thread switch, made deterministic)
    def tracer(self, h: _Handle):
        from harness.tasks_c18 import RunnerDeath
        director = self

        def local(frame, event, arg):
            if event == "line" and h.budget is not None:
                h.lines += 1
                if h.lines >= h.budget:
                    h.budget = None
                    h.line_counts.append(-h.lines)
                    h.midop = True
                    h.done.set()
                    ok = h.go.wait(timeout=120)
                    if not ok or director.abort:
                        raise RunnerDeath("harness baton timeout (pre-empted)")
                    h.go.clear()
                    h.midop = False
            return local

        def glob(frame, event, arg):
            if h.budget is not None and TRACED_DIR in frame.f_code.co_filename:
                return local
            return None
        return glob


class ProcState:
    """The mutable module-level and class-level containers of pynenc.workflow.* are state of ONE OS process.
    The harness runs many histories, and several process images per history, in one interpreter: this keeps one
    copy of those containers per process image (swapped in before code of that image runs) and starts every
    history from the contents they had when first seen, so that what leaks through such a container is exactly
    what would leak inside one real process."""

    def __init__(self):
        import collections
        import sys
        import weakref
        kinds = (dict, list, set, collections.deque, weakref.WeakKeyDictionary, weakref.WeakValueDictionary, weakref.WeakSet)
        self.slots: list[tuple[str, object]] = []
        seen: set[int] = set()
        for modname, mod in sorted(sys.modules.items()):
            if not modname.startswith("pynenc.workflow") or mod is None:
                continue
            owners = [(modname, mod)] + [(f"{modname}.{n}", v) for n, v in vars(mod).items()
                                          if isinstance(v, type) and getattr(v, "__module__", None) == modname]
            for oname, owner in owners:
                for n, v in list(vars(owner).items()):
                    if n.startswith("__") or not isinstance(v, kinds) or id(v) in seen:
                        continue
                    seen.add(id(v))
                    self.slots.append((f"{oname}.{n}", v))
        self.pristine = [self._get(c) for _, c in self.slots]
        self.saved: dict[int, list] = {}
        self.active: int | None = None

    @staticmethod
    def _get(c):
        return list(c.items()) if hasattr(c, "items") else list(c)

    @staticmethod
    def _put(c, content):
        c.clear()
        if hasattr(c, "items"):
            c.update(content)
        elif hasattr(c, "extend"):
            c.extend(content)
        else:
            for x in content:
                c.add(x)

    def activate(self, p: int) -> None:
        if not self.slots or p == self.active:
            return
        if self.active is not None:
            self.saved[self.active] = [self._get(c) for _, c in self.slots]
        for (_, c), content in zip(self.slots, self.saved.pop(p, self.pristine)):
            self._put(c, content)
        self.active = p

    def reset(self) -> None:
        for (_, c), content in zip(self.slots, self.pristine):
            self._put(c, content)
        self.saved.clear()
        self.active = None

    def names(self) -> list[str]:
        return [n for n, _ in self.slots]


class FakeClock:
    """datetime shim for pynenc.workflow.workflow_deterministic: the k-th now() is EPOCH + k days."""

    def __init__(self):
        self.k = 0
        clock = self

        class _DT(datetime.datetime):
            @classmethod
            def now(cls, tz=None):
                v = EPOCH + datetime.timedelta(days=clock.k)
                clock.k += 1
                return v

        real = datetime

        class _Mod:
            timedelta = real.timedelta
            UTC = real.UTC
            timezone = real.timezone
            date = real.date
            time = real.time
            datetime = _DT
        self.mod = _Mod


def run_impl(case: dict, scratch: str, tag: str) -> dict:
    """Execute the history on the real code; returns raw observations."""
    from pynenc.invocation.status import InvocationStatus as S
    from pynenc.workflow import workflow_deterministic as wd
    from harness import tasks_c18 as T

    backend = case["backend"]
    app_id = f"c18_{backend}_{tag}"
    images: dict[int, object] = {}
    tasks: dict[int, dict] = {}
    director = Director(case["mode"], plans(case))
    director.exec_wf = {ev[1]: ev[3] for ev in case["schedule"] if ev[0] == "B"}
    traced = has_preemption(case)
    if traced and case["mode"] != "threads":
        raise CheckError("pre-emption needs thread mode")
    child_log: list = []
    # what the runner of an image does with the invocation object of an attempt: "fresh" = a new object per
    # attempt, the old one is dropped; "kept" = a new object per attempt while the runner still references the
    # old ones (ThreadRunner keeps (thread, invocation) until the next slot reclaim); "same" = the runner re-runs
    # the object it already holds
    objs_mode = case.get("objs", "fresh")
    kept_objs: list = []
    same_objs: dict = {}
    proc = ProcState()
    proc.reset()

    def image(p: int):
        if backend == "mem":
            p = 0
        if p not in images:
            app = world.make_app(backend, scratch, app_id=app_id)
            images[p] = app
            tasks[p] = {0: app.task(T.wf_body_a, max_retries=1000), 1: app.task(T.wf_body_b, max_retries=1000),
                        "child": app.task(T.wf_child, max_retries=1000)}
            director.images[id(app)] = p
            director.children[id(app)] = tasks[p]["child"]
        return images[p]

    clock = FakeClock()
    old_dt = getattr(wd, "datetime", None)
    old_director = T.DIRECTOR
    T.DIRECTOR = director
    patched = old_dt is datetime
    if patched:
        wd.datetime = clock.mod
    errors: list[str] = []
    handles: dict[int, _Handle] = {}
    threads: dict[int, threading.Thread] = {}
    try:
        app0 = image(0)
        proc.activate(0)
        wf_ids = {}
        for i, w in enumerate(case["workflows"]):
            inv = tasks[0][w["t"]](w["prog"], f"w{i + 1}")
            wf_ids[i + 1] = inv.invocation_id

        def begin(e, p, w):
            app = image(p)
            pp = 0 if backend == "mem" else p
            rc = world.runner_ctx(f"runner-{pp}")
            inv_id = wf_ids[w]
            st = app.orchestrator.get_invocation_status(inv_id)
            if st == S.RUNNING:                       # previous owner died: recovery
                app.orchestrator.set_invocation_status(inv_id, S.RUNNING_RECOVERY, rc)
                app.orchestrator.set_invocation_status(inv_id, S.REROUTED, rc)
            app.orchestrator.set_invocation_status(inv_id, S.PENDING, rc)
            proc.activate(pp)
            if objs_mode == "same" and (pp, inv_id) in same_objs:
                inv = same_objs[(pp, inv_id)]
            else:
                inv = app.state_backend.get_invocation(inv_id)      # what a runner gets: a fresh invocation object
            same_objs[(pp, inv_id)] = inv if objs_mode == "same" else None
            if objs_mode == "kept":
                kept_objs.append(inv)
            h = _Handle(e, w, pp)
            handles[e] = h
            director.pending[(pp, inv_id)] = h

            def target():
                import sys
                try:
                    if traced:
                        sys.settrace(director.tracer(h))
                    inv.run(rc)
                except T.RunnerDeath:
                    pass
                except BaseException as ex:  # noqa: BLE001 - reported as harness error below
                    h.error = f"{type(ex).__name__}: {ex}"
                finally:
                    if traced:
                        sys.settrace(None)
                    h.finished = True
                    h.done.set()
            if case["mode"] == "threads":
                th = threading.Thread(target=target, daemon=True)
                threads[e] = th
                th.start()
                if not h.done.wait(timeout=120):
                    raise CheckError("baton timeout at begin")
                h.done.clear()
            else:
                target()

        def child_run(w: int, c: int, how: str):
            """The sub-invocation last handed to workflow w for call c is picked up by a runner; `how` says how
            that run ends.  No effect when nothing was launched yet or the invocation is already final."""
            cid = next((v[1] for e, o, v in reversed(director.log) if o == f"x{c}" and director.exec_wf[e] == w), None)
            if cid is None:
                child_log.append([w, c, how, "not-launched"])
                return
            app = image(0)
            proc.activate(0)
            rc = world.runner_ctx("runner-0")
            orch = app.orchestrator
            st = orch.get_invocation_status(cid)
            if st.is_final():
                child_log.append([w, c, how, "already-" + st.name])
                return
            if st == S.RUNNING:                       # its runner died: recovery
                orch.set_invocation_status(cid, S.RUNNING_RECOVERY, rc)
                orch.set_invocation_status(cid, S.REROUTED, rc)
            elif st == S.KILLED:
                orch.set_invocation_status(cid, S.REROUTED, rc)
            if orch.get_invocation_status(cid) != S.PENDING:
                orch.set_invocation_status(cid, S.PENDING, rc)
            if how == "killed":
                orch.set_invocation_status(cid, S.KILLED, rc)
            elif how != "pending":
                director.child_outcome = how
                try:
                    app.state_backend.get_invocation(cid).run(rc)
                except T.RunnerDeath:
                    pass
                except Exception:  # noqa: BLE001 - a failing child re-raises its exception after recording it
                    pass
                finally:
                    director.child_outcome = "ok"
            child_log.append([w, c, how, orch.get_invocation_status(cid).name])

        def baton(h, cmd):
            if h.finished:
                raise EarlyEnd(f"execution {h.e} ended before the schedule ends it: {h.error}")
            proc.activate(h.p)
            h.cmd = cmd
            h.go.set()
            if not h.done.wait(timeout=120):
                raise CheckError("baton timeout")
            h.done.clear()

        for ev in case["schedule"]:
            if ev[0] == "B":
                begin(ev[1], ev[2], ev[3])
            elif ev[0] == "C":
                child_run(ev[1], ev[2], ev[3])
            elif case["mode"] == "threads":
                h = handles[ev[1]]
                if ev[0] == "R":
                    if h.midop:                       # else: the call had ended before its pre-emption point
                        baton(h, "resume")
                    continue
                if h.midop:
                    raise CheckError("schedule continues an execution that is parked inside a call (missing R)")
                baton(h, ("pre", ev[2]) if ev[0] == "P" else ("op" if ev[0] == "O" else ev[2]))
                if ev[0] == "E":
                    threads[ev[1]].join(timeout=120)
        for h in handles.values():
            if h.error:
                errors.append(f"execution {h.e}: {h.error}")
            if not h.started:
                errors.append(f"execution {h.e}: body never started")
        # ------------------------------------------------------------ read-out
        stores = {w: read_store(app0, backend, wid) for w, wid in wf_ids.items()}
        children = {}
        for w, wid in wf_ids.items():
            for cid in app0.state_backend.get_child_invocations(wid):
                ch = app0.state_backend.get_invocation(cid)
                children[cid] = {"parent_wf": w, "workflow_id": ch.workflow.workflow_id,
                                 "n": ch.arguments.kwargs.get("n")}
        from pynenc.arguments import Arguments
        from pynenc.call import Call
        call_ids = {}
        for n in (0, 1, 2, 3):
            c = Call(tasks[0]["child"], Arguments.from_call(T.wf_child, n))
            call_ids[str(c.call_id)] = n
        statuses = {w: app0.orchestrator.get_invocation_status(wid).name for w, wid in wf_ids.items()}
        return {"wf_ids": wf_ids, "log": list(director.log), "stores": stores, "children": children,
                "process_containers": proc.names(), "child_runs": child_log, "line_counts": {e: h.line_counts for e, h in handles.items() if h.line_counts},
                "call_ids": call_ids, "errors": errors, "clock_patched": patched, "statuses": statuses,
                "task_objs": {e: h.task_obj for e, h in handles.items()},
                "seen_wf": {e: h.seen_wf for e, h in handles.items()}}
    finally:
        T.DIRECTOR = old_director
        if patched:
            wd.datetime = old_dt
        director.abort = True
        proc.reset()
        kept_objs.clear()
        for h in handles.values():          # release any thread still parked (harness failure paths)
            h.cmd = "crash"
            h.go.set()
        for app in images.values():
            try:
                app.state_backend.wait_for_all_async_operations()
                app.state_backend.invocation_threads.clear()
            except Exception:  # noqa: BLE001
                pass


def read_store(app, backend: str, wf_id: str) -> dict:
    sb = app.state_backend
    if backend == "mem":
        return dict(sb._workflow_data.get(wf_id, {}))
    from pynenc.util.sqlite_utils import create_sqlite_connection
    out = {}
    with create_sqlite_connection(sb.sqlite_db_path) as conn:
        cur = conn.execute(f"SELECT data_key, data_value FROM {sb.tables.WORKFLOW_DATA} WHERE workflow_id = ?", (wf_id,))
        for k, v in cur.fetchall():
            out[k] = app.client_data_store.deserialize(v)
        cur.close()
    return out


# =========================================================================== decoding to symbolic observations
def _rand(seed_string: str) -> float:
    return pyrandom.Random(int(hashlib.md5(seed_string.encode()).hexdigest()[:8], 16)).random()


def _rand_later(seed_string: str, draws: int = 4) -> list[float]:
    """2nd .. draws-th number of the generator seeded for seed_string (what a generator that is shared and
    was already drawn from hands out: the model's VStale)."""
    g = pyrandom.Random(int(hashlib.md5(seed_string.encode()).hexdigest()[:8], 16))
    g.random()
    return [g.random() for _ in range(draws - 1)]


def _uuid(seed_string: str) -> str:
    return str(pyuuid.UUID(bytes=hashlib.md5(seed_string.encode()).digest()))


def decode(case: dict, raw: dict) -> dict:
    """Raw implementation observations -> the model's rendering ([outs, store, launches]) using the real
    hash/random/uuid functions.  Anything that cannot be explained becomes a ['?', repr] token."""
    wf_ids = raw["wf_ids"]
    maxn = max(len(w["prog"].split(",")) for w in case["workflows"]) * 4 + 6
    rtab, utab = {}, {}
    for w, wid in wf_ids.items():
        for n in range(1, maxn):
            rtab[_rand(f"{wid}:random:{n}")] = (w, n)
            utab[_uuid(f"{wid}:uuid:{n}")] = (w, n)
    for w, wid in wf_ids.items():            # later draws of a generator seeded for (w, n): [6, w, n]
        for n in range(1, maxn):
            for v in _rand_later(f"{wid}:random:{n}"):
                rtab.setdefault(v, (w, n, "stale"))
    for n in range(1, maxn):                 # seeds that lost the workflow id decode to workflow 0
        for s in (f"random:{n}", f":random:{n}", f"None:random:{n}"):
            rtab.setdefault(_rand(s), (0, n))
        for s in (f"uuid:{n}", f":uuid:{n}", f"None:uuid:{n}"):
            utab.setdefault(_uuid(s), (0, n))
    # base times: rank among all recorded bases (= index of the clock reading)
    bases = {}
    for w, st in raw["stores"].items():
        b = st.get("workflow:base_time")
        if isinstance(b, str):
            try:
                bases[w] = datetime.datetime.fromisoformat(b)
            except ValueError:
                pass
    ranked = sorted(set(bases.values()))
    inv_index: dict[str, int] = {}

    def dec_time(v):
        if isinstance(v, str):
            try:
                v = datetime.datetime.fromisoformat(v)
            except ValueError:
                return ["?", repr(v)]
        if not isinstance(v, datetime.datetime):
            return ["?", repr(v)]
        for b, dt in enumerate(ranked):
            d = (v - dt).total_seconds()
            if 0 <= d < maxn and d == int(d):
                return [2, b, int(d)]
        return ["?", v.isoformat()]

    def dec_inv(inv_id):
        if inv_id not in inv_index:
            inv_index[inv_id] = len(inv_index)
        return [4, inv_index[inv_id], 0]

    def dec_rand(v):
        if v not in rtab:
            return ["?", repr(v)]
        return [6, *rtab[v][:2]] if len(rtab[v]) == 3 else [0, *rtab[v]]

    outs = []
    for e, o, v in raw["log"]:
        if o == "r":
            d = dec_rand(v)
        elif o == "u":
            d = [1, *utab[v]] if v in utab else ["?", repr(v)]
        elif o == "t":
            d = dec_time(v)
        else:
            d = dec_inv(v[1])
        outs.append([e, *op_code(o), *d])
    store = []
    kname = {"random": 0, "time": 1, "uuid": 2}
    for w, st in raw["stores"].items():
        for k, v in st.items():
            head, _, tail = k.partition(":")
            if head in kname and tail.isdigit():
                kc = [0, kname[head], int(tail)]
                if head == "random":
                    vc = dec_rand(v)
                elif head == "uuid":
                    vc = [1, *utab[v]] if v in utab else ["?", repr(v)]
                else:
                    vc = dec_time(v)
            elif head == "counter" and tail in kname:
                kc, vc = [1, kname[tail], 0], ([5, v, 0] if isinstance(v, int) else ["?", repr(v)])
            elif k == "workflow:base_time":
                kc = [2, 0, 0]
                vc = [3, ranked.index(bases[w]), 0] if w in bases else ["?", repr(v)]
            elif head == "task_invocation" and tail in raw["call_ids"]:
                kc = [3, raw["call_ids"][tail], 0]
                vc = [4, inv_index[v], 0] if v in inv_index else ["?inv", repr(v)]
            elif isinstance(v, str) and v in inv_index and v in raw["children"]:
                # some other key format holding a launched invocation: a sub-task record of that invocation's call
                kc, vc = [3, raw["children"][v]["n"], 0], [4, inv_index[v], 0]
            else:
                kc, vc = ["?", k, 0], ["?", repr(v)]
            store.append([w, *kc, *vc])
    store.sort(key=lambda r: json.dumps(r))
    launches = []
    id_to_w = {wid: w for w, wid in wf_ids.items()}
    for cid, ch in raw["children"].items():
        i = inv_index.get(cid, -1)
        launches.append([id_to_w.get(ch["workflow_id"], -1), ch["n"], i])
    launches.sort(key=lambda r: r[2])
    # workflow of the invocation each returned sub-task handle belongs to (independent of the model)
    inv_wf = {inv_index[v[1]]: id_to_w.get(v[2], -1) for _, o, v in raw["log"] if o[0] == "x"}
    return {"outs": outs, "store": store, "launches": launches, "inv_wf": inv_wf}


def model_obs(v) -> dict:
    outs, store, launches = v
    store = sorted([list(r) for r in store], key=lambda r: json.dumps(r))
    return {"outs": [list(r) for r in outs], "store": store, "launches": sorted([list(r) for r in launches], key=lambda r: r[2]),
            "inv_wf": {r[2]: r[0] for r in launches}}


# =========================================================================== the property, on observations
def oracle(case: dict, obs: dict) -> list[tuple[str, str]]:
    """C18 on one history: returns [(kind, human text)].  `obs` is in the symbolic rendering; works for the
    implementation's decoded observations and (for attribution only) for the model's."""
    exec_wf = {ev[1]: ev[3] for ev in case["schedule"] if ev[0] == "B"}
    bad: list[tuple[str, str]] = []
    nwf = len(case["workflows"])
    # requested operations per workflow
    seqs: dict[tuple[int, int], dict[int, list]] = {}
    sub: dict[tuple[int, int], list] = {}
    returned: dict[str, set] = {}
    for r in obs["outs"]:
        e, oc, arg, val = r[0], r[1], r[2], r[3:]
        w = exec_wf[e]
        if oc < 3:
            seqs.setdefault((w, oc), {}).setdefault(e, []).append(val)
        else:
            sub.setdefault((w, arg), []).append((e, val))
        returned.setdefault(json.dumps(val), set()).add(w)
    # (1) the n-th value of a kind is the same in every execution of the workflow
    for (w, k), per_e in sorted(seqs.items()):
        n = 0
        while True:
            vs = {json.dumps(l[n]) for l in per_e.values() if len(l) > n}
            if not vs:
                break
            if len(vs) > 1:
                bad.append((f"unstable:{KIND_NAME[k]}",
                            f"workflow {w}: the {n + 1}-th {KIND_NAME[k]} differs between executions "
                            f"{ {e: l[n] for e, l in per_e.items() if len(l) > n} }"))
                break
            n += 1
    # (2) a sub-task call is launched once per workflow and call; every execution gets that invocation
    for (w, c), rets in sorted(sub.items()):
        vs = {json.dumps(v) for _, v in rets}
        if len(vs) > 1:
            bad.append(("subtask:different-invocations", f"workflow {w} call {c}: executions got different invocations {rets}"))
        n_launch = sum(1 for l in obs["launches"] if l[0] == w and l[1] == c)
        if n_launch != 1:
            bad.append(("subtask:launch-count", f"workflow {w} call {c}: launched {n_launch} times (expected once)"))
        for e, v in rets:
            if v[0] == 4 and obs["inv_wf"].get(v[1], w) != w:
                bad.append(("subtask:foreign-invocation",
                            f"workflow {w} call {c}: execution {e} got an invocation of workflow {obs['inv_wf'].get(v[1])}"))
                break
    for l in obs["launches"]:
        if (l[0], l[1]) not in sub:
            bad.append(("subtask:spurious-launch", f"launch {l} was never requested by workflow {l[0]}"))
    # (3) values and records of different workflows never mix
    for js, ws in sorted(returned.items()):
        if len(ws) > 1:
            bad.append(("mixed:value-shared", f"value {js} was returned to workflows {sorted(ws)}"))
            break
    base_of = {r[0]: r[4:] for r in obs["store"] if r[1:4] == [2, 0, 0]}
    owners: dict[str, list] = {}
    for w, b in base_of.items():
        owners.setdefault(json.dumps(b), []).append(w)
    if any(len(v) > 1 for v in owners.values()):
        bad.append(("mixed:base-time-shared", f"base time shared: {owners}"))

    def foreign(w, val) -> str | None:
        if val[0] in (0, 1) and val[1] != w:
            return f"derived for workflow {val[1]}"
        if val[0] == 2 and base_of.get(w, [None, None])[1] != val[1]:
            return f"derived from base time #{val[1]} which is not workflow {w}'s"
        if val[0] == "?":
            return "not derivable from any workflow id of this history"
        if val[0] == 6:
            return (f"a later draw of a generator that was seeded for workflow {val[1]} (sequence {val[2]}) and already "
                    "drawn from: generator state shared between helper calls")
        return None
    for r in obs["outs"]:
        w = exec_wf[r[0]]
        why = foreign(w, r[3:]) if r[1] < 3 else None
        if why:
            bad.append(("mixed:foreign-value", f"execution {r[0]} of workflow {w} got {r[3:]}: {why}"))
            break
    issued = {}
    for (w, k), per_e in seqs.items():
        issued[(w, k)] = max(len(l) for l in per_e.values())
    for r in obs["store"]:
        w, kc, val = r[0], r[1:4], r[4:]
        why = None
        if kc[0] == 0:
            why = foreign(w, val)
            if why is None and kc[2] > issued.get((w, kc[1]), 0):
                why = f"no execution of workflow {w} requested a {kc[2]}-th {KIND_NAME.get(kc[1])}"
        elif kc[0] == 3:
            if (w, kc[1]) not in sub:
                why = f"workflow {w} never requested call {kc[1]}"
            elif val[0] == 4 and obs["inv_wf"].get(val[1], w) != w:
                why = f"invocation belongs to workflow {obs['inv_wf'].get(val[1])}"
        if why:
            bad.append(("mixed:foreign-record", f"workflow data of workflow {w}: record {kc} = {val}: {why}"))
            break
    assert nwf >= 1
    return bad


# =========================================================================== main
def build_cases(ctx: Ctx, scratch: str) -> list[dict]:
    rng = ctx.rng
    cases = []
    per = 14 if not ctx.thorough else 120
    kinds = ["r", "t", "u", "x1"]
    same = [(k, k) for k in kinds]
    allp = [(a, b) for a in kinds for b in kinds]
    for backend in ("mem", "sqlite"):
        for pattern in ("retry_same", "recover_fresh", "two_seq", "two_threads", "all_fresh", "random", "random", "preempt"):
            if pattern == "recover_fresh" and backend == "mem":
                continue            # a fresh image of the in-memory backend has no workflow to replay
            for _ in range(per):
                cases.append(gen_case(rng, backend, pattern, 6 if not ctx.thorough else 8))
        cases += enumerate_small(backend, 1 if not ctx.thorough else 2)
        cases += enumerate_child(backend)
        lines = probe_lines(backend, scratch)
        ctx.notes.setdefault("source_lines_per_helper_call", {})[backend] = lines
        if ctx.thorough:
            cases += enumerate_preempt(backend, lines, allp)
        elif backend == "mem":
            cases += enumerate_preempt(backend, lines, same)
        else:
            cases += enumerate_preempt(backend, lines, same, stride=3)
    return cases


def canon(obs: dict) -> dict:
    """Observations up to the order in which overlapping helper calls complete: outs grouped per execution,
    launched invocations renumbered by first appearance there (used for histories with pre-empted calls)."""
    outs = sorted(obs["outs"], key=lambda r: r[0])
    ren: dict[int, int] = {}

    def rn(i):
        if i not in ren:
            ren[i] = len(ren)
        return ren[i]
    outs = [[*r[:3], 4, rn(r[4]), 0] if r[3] == 4 else list(r) for r in outs]
    for l in sorted(obs["launches"], key=lambda r: r[2]):
        rn(l[2])
    store = sorted(([*r[:4], 4, rn(r[5]), 0] if r[4] == 4 else list(r) for r in obs["store"]), key=lambda r: json.dumps(r))
    launches = sorted(([l[0], l[1], rn(l[2])] for l in obs["launches"]), key=lambda r: r[2])
    return {"outs": outs, "store": store, "launches": launches, "inv_wf": {rn(i): w for i, w in obs["inv_wf"].items()}}


def evaluate(ctx: Ctx, cases: list[dict], scratch: str) -> None:
    # histories that never re-use a Task object first: a violation found there cannot be the cached executor
    cases = sorted(cases, key=lambda c: shared_task_objects(c) != "clean")
    tinfo = ctx.translators.get("workflow", {})
    gen_private = bool(tinfo.get("gen_private", True))
    # the per-execution variant of gen_cfg is gen_cfg itself when that is the scope the source implements
    same_cfg = tinfo.get("scope") == "PerExecution" and not tinfo.get("degraded", False)
    exprs = []
    span = []
    for c in cases:
        vs = model_variants(c, gen_private, bool(tinfo.get("replay_uncond", True)))
        span.append((len(exprs), len(vs)))
        for evs in vs:
            exprs.append(f"render (run gen_cfg {evs})")
            if not same_cfg:
                exprs.append(f"render (run (with_scope gen_cfg PerExecution) {evs})")
    vals = ctx.coq_eval(IMPORTS, exprs, chunk=120)
    stats = {"cases": 0, "executions": 0, "operations": 0, "by_pattern": {}, "by_mode": {}, "by_backend": {},
             "by_sharing": {}, "by_objs": {}, "impl_violations_by_kind": {}, "model_mismatches": 0, "op_kinds": {"r": 0, "t": 0, "u": 0, "x": 0},
             "attempt_endings": {"ok": 0, "retry": 0, "crash": 0}}
    distinct = set()
    mism_gen: list = []
    mism_fix: list = []
    stats["child_runs"] = {}
    stats["preempted_calls"] = {"parked_inside_call": 0, "call_ended_before_line": 0}
    stats["linearisation_used"] = {}
    stats["not_executable"] = 0
    for i, case in enumerate(cases):
        # Anything the implementation does that the harness does not expect (an exception out of a helper call or
        # out of the orchestrator for an id the history produced, an execution that ends on its own, observations
        # that cannot be read back) is a failing input on the real code, never a harness error: on the unchanged
        # tree every generated history executes.  Only baton / build timeouts (CheckError) stay harness errors.
        try:
            raw = run_impl(case, scratch, f"{i}")
            if raw["errors"]:
                raise EarlyEnd("; ".join(raw["errors"]))
            obs = decode(case, raw)
            oracle(case, obs)
        except CheckError:
            raise
        except Exception as ex:  # noqa: BLE001
            import traceback
            tb = traceback.format_exc().strip().split("\n")
            where = next((ln.strip() for ln in reversed(tb) if ln.strip().startswith("File ") and "/pynenc/" in ln), tb[-2].strip() if len(tb) > 1 else "")
            stats["not_executable"] += 1
            stats["cases"] += 1
            ctx.violation(f"history-fails:{type(ex).__name__}:{case['backend']}",
                          f"[{case['backend']}, {case['pattern']}, {case['mode']}, objects {case.get('objs', 'fresh')}] the history "
                          f"{compact_schedule(case['schedule'])} of workflows {case['workflows']} cannot be executed / read back on "
                          f"this tree: {type(ex).__name__}: {ex} ({where}) - a helper call, a sub-invocation handed to a workflow or a "
                          "record is not what every execution of this history on the unchanged code produces",
                          {"case": case, "exception": tb[-12:]})
            continue
        # the model under every linearisation of the pre-empted calls; the reference is the first one that
        # explains the implementation (variant 0 = every call takes effect where it completes)
        pre = has_preemption(case)
        cmp_obs = canon(obs) if pre else obs
        start, nv = span[i]
        step = 1 if same_cfg else 2
        cands = []
        for j in range(nv):
            g = model_obs(vals[start + j * step])
            f = g if same_cfg else model_obs(vals[start + j * step + 1])
            cands.append((canon(g), canon(f)) if pre else (g, f))
        pick = next((j for j, (g, f) in enumerate(cands) if all(cmp_obs[k] == g[k] for k in ("outs", "store", "launches"))), None)
        if pick is None:
            pick = next((j for j, (g, f) in enumerate(cands) if all(cmp_obs[k] == f[k] for k in ("outs", "store", "launches"))), 0)
        m_gen, m_fix = cands[pick]
        if tinfo.get("container_weak") and case.get("objs", "fresh") == "fresh" and not tinfo.get("degraded", False):
            # executor in a WEAK container keyed by the invocation object: with no reference to the object of the
            # earlier attempt left, the entry is gone and the source behaves as with a per-execution executor
            m_gen = m_fix
        if pre:
            stats["linearisation_used"][str(pick)] = stats["linearisation_used"].get(str(pick), 0) + 1
        for _w, _c, how, res in raw["child_runs"]:
            stats["child_runs"][f"{how}->{res}"] = stats["child_runs"].get(f"{how}->{res}", 0) + 1
        for lc in raw["line_counts"].values():
            for n in lc:
                stats["preempted_calls"]["parked_inside_call" if n < 0 else "call_ended_before_line"] += 1
        stats["cases"] += 1
        n_exec = sum(1 for ev in case["schedule"] if ev[0] == "B")
        n_ops = sum(1 for ev in case["schedule"] if ev[0] in ("O", "P"))
        stats["executions"] += n_exec
        stats["operations"] += n_ops
        for k, v in (("by_pattern", case["pattern"]), ("by_mode", case["mode"]), ("by_backend", case["backend"]),
                     ("by_sharing", shared_task_objects(case)), ("by_objs", case.get("objs", "fresh"))):
            stats[k][v] = stats[k].get(v, 0) + 1
        for _, o, _v in raw["log"]:
            stats["op_kinds"][o[0]] += 1
        for ev in case["schedule"]:
            if ev[0] == "E":
                stats["attempt_endings"][ev[2]] += 1
        if n_exec > 1 or n_ops > 1:
            distinct.add(json.dumps([case["workflows"], case["schedule"], case["backend"], case["mode"], case.get("objs", "fresh")]))
        mm = judge(ctx, case, obs, m_gen, m_fix, stats, cmp_obs)
        mism_gen += [mm[0]] if mm[0] else []
        mism_fix += [mm[1]] if mm[1] else []
        if i % 7 == 0:
            ctx.sample({"backend": case["backend"], "pattern": case["pattern"], "mode": case["mode"],
                        "workflows": case["workflows"], "schedule": compact_schedule(case["schedule"]),
                        "impl_outs": obs["outs"][:8], "model_outs": m_gen["outs"][:8]}, limit=5)
    # reference model: the generated configuration; when the translator fell back to the committed default
    # (source shape not recognised) the executor scope is not known from the source, so the scope variant that
    # explains the implementation better is the reference
    degraded = ctx.translators.get("workflow", {}).get("degraded", False)
    ref, ref_name = mism_gen, "gen_cfg"
    if degraded and len(mism_fix) < len(mism_gen):
        ref, ref_name = mism_fix, "gen_cfg with a per-execution executor (translator degraded)"
    stats["model_mismatches"] = len(ref)
    stats["reference_model"] = ref_name
    for key, what, rp in ref:
        ctx.violation(key, what, rp)
    ctx.count(stats["cases"], len(distinct))
    ctx.notes["histories"] = stats


def compact_schedule(s) -> str:
    def one(ev):
        if ev[0] == "C":
            return f"C[wf{ev[1]}.x{ev[2]}:{ev[3]}]"
        if ev[0] == "P":
            return f"P{ev[1]}@line{ev[2]}"
        return f"{ev[0]}{ev[1]}" + (f"@img{ev[2]}/wf{ev[3]}" if ev[0] == "B" else (f":{ev[2]}" if ev[0] == "E" else ""))
    return " ".join(one(ev) for ev in s)


def judge(ctx: Ctx, case: dict, obs: dict, m_gen: dict, m_fix: dict, stats: dict, cmp_obs: dict | None = None) -> list:
    replay = {"case": case}
    v_impl = oracle(case, obs)
    v_fix_kinds = {k for k, _ in oracle(case, m_fix)}
    v_gen_kinds = {k for k, _ in oracle(case, m_gen)}
    tinfo = ctx.translators.get("workflow", {})
    # the cached executor can only be the explanation when the source (as far as it is known) caches it
    cached_possible = tinfo.get("degraded", False) or tinfo.get("scope") == "PerTaskObject"
    sharing = shared_task_objects(case)
    pre_note = (" (a helper call is pre-empted at a source line inside pynenc/workflow/ while another workflow of the "
                "same process image runs)" if has_preemption(case) else "")
    for kind, text in v_impl:
        stats["impl_violations_by_kind"][kind] = stats["impl_violations_by_kind"].get(kind, 0) + 1
        if kind not in v_fix_kinds and sharing != "clean" and cached_possible and \
                (tinfo.get("degraded", False) or kind in v_gen_kinds):
            # explained by the scope of the executor: absent from the same history under a per-execution executor,
            # and the history re-uses a Task object
            key = KNOWN_MIXED if sharing == "mixed" else KNOWN_REEXEC
            what = ("the DeterministicExecutor is cached per Task object: " +
                    ("a later execution for another workflow in the same process continues the first workflow's counters and "
                     "reads/writes the first workflow's records" if sharing == "mixed" else
                     "a re-execution (retry/recovery) in the same process continues the counters instead of replaying") +
                    f" [{case['backend']}] e.g. {text}")
        else:
            key = f"{kind}:{case['backend']}"
            what = (f"[{case['backend']}, {case['pattern']}, {case['mode']}, invocation objects of earlier attempts "
                    f"{case.get('objs', 'fresh')}] {text}{pre_note}")
        ctx.violation(key, what, {**replay, "violation": [kind, text], "observed": obs["outs"]})
    out = []
    cobs = cmp_obs or obs
    for name, m in (("gen_cfg", m_gen), ("per_execution", m_fix)):
        diff = next((k for k in ("outs", "store", "launches") if cobs[k] != m[k]), None)
        out.append(None if diff is None else
                   (f"model-mismatch:{case['backend']}:{diff}",
                    f"[{case['backend']}, {case['pattern']}, {case['mode']}] implementation and model ({name}"
                    + (", under every linearisation of the pre-empted calls" if has_preemption(case) else "")
                    + f") disagree on {diff}: impl={cobs[diff]} model={m[diff]}",
                    {**replay, "impl": cobs, "model": m}))
    return out


def child_process_cases(ctx: Ctx, scratch: str) -> None:
    """thorough tier: the replay of a workflow in a REAL second OS process over the same SQLite file."""
    import os
    import subprocess
    import sys
    rng = ctx.rng
    n_ok = 0
    for i in range(6):
        prog = gen_program(rng, 6)
        case = {"backend": "sqlite", "pattern": "child_process", "mode": "inline", "workflows": [{"t": 0, "prog": prog}],
                "schedule": [["B", 0, 0, 1]] + [["O", 0]] * len(prog.split(",")) + [["E", 0, "crash"]]}
        raw = run_impl(case, scratch, f"cp{i}")
        first = [json.dumps(v, default=str) for _, _, v in raw["log"]]
        env = dict(os.environ)
        r = subprocess.run([sys.executable, "-m", "harness.props.c18", "child", scratch, f"c18_sqlite_cp{i}",
                            raw["wf_ids"][1], prog], capture_output=True, text=True, env=env, timeout=300,
                           cwd=os.path.dirname(os.path.dirname(os.path.dirname(os.path.abspath(__file__)))))
        if r.returncode != 0:
            raise CheckError("child process failed: " + r.stderr[-800:])
        second = json.loads(r.stdout.strip().split("\n")[-1])
        n_ok += 1
        if first != second:
            ctx.violation("unstable:other-os-process:sqlite",
                          f"replay in a second OS process returned different values: first={first} second={second}",
                          {"case": case, "first": first, "second": second, "kind": "child_process"})
    ctx.count(n_ok, n_ok)
    ctx.notes["child_process_replays"] = n_ok


def _child_main(argv: list[str]) -> int:
    """Runs in a separate OS process: recover + re-execute the workflow body, print the returned values."""
    from pynenc.invocation.status import InvocationStatus as S
    from harness import tasks_c18 as T
    world.quiet()
    scratch, app_id, inv_id, prog = argv
    app = world.make_app("sqlite", scratch, app_id=app_id)
    ta = app.task(T.wf_body_a, max_retries=1000)
    app.task(T.wf_body_b, max_retries=1000)
    child = app.task(T.wf_child)
    n = len(prog.split(","))
    d = Director("inline", {0: (n, "ok")})
    d.images[id(app)] = 0
    d.children[id(app)] = child
    T.DIRECTOR = d
    rc = world.runner_ctx("runner-child")
    app.orchestrator.set_invocation_status(inv_id, S.RUNNING_RECOVERY, rc)
    app.orchestrator.set_invocation_status(inv_id, S.REROUTED, rc)
    app.orchestrator.set_invocation_status(inv_id, S.PENDING, rc)
    inv = app.state_backend.get_invocation(inv_id)
    d.pending[(0, inv_id)] = _Handle(0, 1, 0)
    inv.run(rc)
    app.state_backend.wait_for_all_async_operations()
    assert ta is not None
    print(json.dumps([json.dumps(v, default=str) for _, _, v in d.log]))
    return 0


def main(ctx: Ctx) -> int:
    world.quiet()
    info = ctx.translate("workflow", wf_translate.translate, "gen/Workflow_gen.v")
    if info.get("shape_changed"):
        ctx.log("mirrored function shapes changed:", info["shape_changed"], "- relying on the correspondence")
    ctx.prove("Props/C18.v")
    scratch = world.scratch_dir()
    try:
        cases = build_cases(ctx, scratch)
        ctx.log(f"{len(cases)} histories")
        evaluate(ctx, cases, scratch)
        if ctx.thorough:
            child_process_cases(ctx, scratch)
    finally:
        world.rm_scratch(scratch)
    ctx.notes["generated_facts"] = {k: info.get(k) for k in ("scope", "executor_held_by", "wf_context_per", "seed_wf",
                                                              "task_key_call", "seq_offset", "replay_uncond", "gen_private", "gen_shared_state", "exec_private",
                                                              "exec_shared_state", "container", "container_weak", "degraded")}
    ctx.assumptions += [
        "symbolic values: md5 / random.Random / uuid.UUID are functions of their seed string (uninterpreted in the model); "
        "the harness decodes real values with the real functions over the workflow ids of the history",
        "interleaving granularity = one helper call in the model; on the implementation additionally every source-line boundary of "
        "pynenc/workflow/*.py inside a call (pre-emption histories); code reached below that (state backend, orchestrator) runs "
        "uninterrupted; executions of ONE workflow do not overlap in time (one owner per invocation, C02)",
        "a pre-empted helper call of the unchanged code is linearisable: the implementation must agree with the model for SOME "
        "position of the call between its pre-emption and its completion (clock readings and launch numbering decide which)",
        "the invocation object of an earlier attempt of the same image is dropped / still referenced by the runner / re-run (per "
        "history); module-level and class-level dict / list / set / deque / weak containers of pynenc.workflow.* are state of one "
        "process image: saved and restored by the harness when it switches images, reset between histories",
        "sub-invocations are run by the harness (DistributedInvocation.run of the recorded invocation) and end as the schedule "
        "says: return / ValueError / RetryError / runner death / killed before start / left pending",
        "a fresh process image = a fresh Pynenc app object (fresh Task objects) over the same SQLite file; the in-memory backend "
        "has a single image; thorough tier adds a real second OS process",
        "wall clock replaced inside workflow_deterministic by a shim whose k-th reading is 2001-01-01 + k days (distinct base times)",
        "universe: <= 3 workflows, <= 3 attempts each, programs <= 6 (8) operations over {random, utc_now, uuid, execute_task(child, 1|2)}, "
        "<= 3 child runs and <= 2 pre-empted calls per generated history",
    ]
    ctx.trusted += [
        "harness/tasks_c18.py task bodies + Director (baton, attempt endings: return / RetryError / simulated runner death; "
        "sys.settrace line counter that parks a thread inside a helper call; child runs)",
        "read-out of MemStateBackend._workflow_data and of the SQLite workflow_data table for the full workflow data",
    ]
    return ctx.finish(
        rule="histories = seeded patterns (retry in the same image, runner death + recovery in a fresh image, two workflows "
             "sequentially / in threads in one image, every execution in its own image, random mixtures) x random programs, plus ALL "
             "programs up to length 1 (thorough: 2) under the canonical shapes, ALL endings of a sub-invocation run x canonical "
             "re-executions of its parent, and for every helper-call kind (quick: pairs of the same kind; thorough: all 16 pairs) the "
             "pre-emption before EVERY source line of pynenc/workflow/ executed by the call (line count probed on the current tree; "
             "simple, lock-step and second-call variants; quick tier on SQLite every third line); random histories additionally carry "
             "child runs, (pattern preempt) pre-empted calls and one of the three treatments of earlier invocation objects (the "
             "enumerated retry shapes take all three + recovery with a kept object); each history runs on the real code and in the model "
             "(gen_cfg and gen_cfg with a per-execution executor); evaluations = histories executed; distinct_nontrivial = distinct "
             "histories with more than one execution or operation")


def replay(ctx: Ctx, path: str) -> int:
    world.quiet()
    rp = json.load(open(path))["replay"]
    case = rp["case"]
    scratch = world.scratch_dir()
    try:
        print("history:", compact_schedule(case["schedule"]), "| workflows:", case["workflows"], "|", case["backend"], case["mode"],
              "| invocation objects of earlier attempts:", case.get("objs", "fresh"))
        try:
            raw = run_impl(case, scratch, "replay")
            if raw["errors"]:
                raise EarlyEnd("; ".join(raw["errors"]))
            obs = decode(case, raw)
        except CheckError:
            raise
        except Exception as ex:  # noqa: BLE001
            import traceback
            traceback.print_exc()
            print(f"PROPERTY VIOLATED: history-fails - the history cannot be executed / read back: {type(ex).__name__}: {ex}")
            return 0
        print("workflow ids:", raw["wf_ids"])
        for e, o, v in raw["log"]:
            print(f"  execution {e} {o} -> {v}")
        for w, c, how, res in raw["child_runs"]:
            print(f"  run of the sub-invocation of workflow {w} call {c} requested to end '{how}': {res}")
        for e, lc in raw["line_counts"].items():
            print(f"  execution {e}: pre-emptible calls [lines executed; negative = parked before that line]: {lc}")
        for w, st in raw["stores"].items():
            print(f"  workflow data of workflow {w} ({raw['wf_ids'][w]}): {st}")
        print("decoded outs:", obs["outs"])
        print("launches [workflow, call, invocation#]:", obs["launches"])
        for kind, text in oracle(case, obs):
            print("PROPERTY VIOLATED:", kind, "-", text)
        if "model" in rp:
            print("model expected:", rp["model"])
    finally:
        world.rm_scratch(scratch)
    return 0


if __name__ == "__main__":
    import sys
    if len(sys.argv) > 1 and sys.argv[1] == "child":
        sys.exit(_child_main(sys.argv[2:]))

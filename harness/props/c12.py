"""C12 — global services are authorised for at most one runner at any instant.

proof: Props/C12.v over the functions generated from pynenc/orchestrator/atomic_service.py
       (calculate_time_slot, is_runner_in_time_slot, can_run_atomic_service), instantiated with exact
       rationals (the theorems of the statement) and with binary64 (what Python executes).
tie:   (1) AST translator (fail-closed) regenerating gen/AtomicService_gen.v on every run;
       (2) bit-exact differential correspondence of the binary64 instance (Eval vm_compute, PrimFloat)
           against the real functions: every slot (start, end as doubles) and the authorisation of every
           runner at every generated instant;
       (3) the same through MemOrchestrator / SQLiteOrchestrator.should_run_atomic_service under a virtual clock;
       (4) an oracle evaluated on the implementation's answers alone (count of authorised runners, margin
           separation in exact rational arithmetic on the returned doubles, non-empty window per cycle);
       (5) active-runner lists WITH execution history (last_service_start / last_service_end of arbitrary, also
           overrunning, lengths): data-flow fact gen_history_free (theorem authorisation_ignores_execution_history),
           (2)+(4) repeated on such lists for the pure functions, (3)+(4) after record_atomic_service_execution.
"""
from __future__ import annotations

import json
import math
from datetime import UTC, datetime, timedelta
from fractions import Fraction

from harness import world
from harness.common import Ctx
from harness.translate import atomic_service as tr

GENERATED = [("harness.translate.atomic_service", "translate", "gen/AtomicService_gen.v")]

MANIFEST = {
    "technique": "Coq proof (QArith + Flocq/PrimFloat) over functions generated from atomic_service.py + bit-exact "
                 "binary64 differential correspondence",
    "text": "Machine-checked theorems (Props/C12.v) about the Gallina functions regenerated from atomic_service.py on every run "
            "(calculate_time_slot, is_runner_in_time_slot, can_run_atomic_service, polymorphic in the arithmetic): over exact "
            "rationals, for ALL runner lists, cycle lengths > 0, margins >= 0 (margin >= slot included), positions and instants: "
            "no two different active runners are authorised at the same instant; consecutive windows (and the wrap-around pair) are "
            "separated by exactly the margin whenever margin < slot; every position has a non-empty window inside the cycle and "
            "every active runner is authorised at some instant of every cycle; a single runner always; an unknown runner never; "
            "the recorded execution history of the runners (last_service_start/end) reaches no result (data-flow fact read off "
            "the AST, theorem authorisation_ignores_execution_history), so the statements hold for lists with arbitrary histories. "
            "Binary64 (what Python runs): the statement is REFUTED for the spelling end = start + size - margin (witness 9 runners, "
            "5.0 min, margin 0, t = 200.0 s: positions 5 and 6 both authorised) and, by monotonicity of rounding (Flocq), windows "
            "provably never cross for the spelling end = (position+1)*size - margin outside the half-slot fallback. Tie: fail-closed "
            "AST translator + bit-exact comparison (float.hex) of the PrimFloat instance with the real functions on all n <= 12 (16 "
            "thorough), a family of cycle lengths/margins, every slot boundary and its two float neighbours, a dense grid, several "
            "cycles and epoch offsets up to 2^31 s; every configuration again with active-runner lists that carry execution history "
            "(2-4 lists per configuration, 3-6 in the thorough tier, drawn from 12 classes: one/all runners, durations "
            "below/above half a slot, a slot, the cycle, zero, negative, start only, random) - windows and authorisations bit-equal "
            "to the id-only model; the same through should_run_atomic_service on both orchestrators under a virtual clock, "
            "without and with executions recorded by record_atomic_service_execution (re-recorded mid-run); an oracle on the "
            "implementation's answers alone decides violations.",
    "note": "Trusted: Coq kernel; stdlib FloatAxioms (specification of primitive floats) and the classical-reals axioms used by "
            "Flocq for the binary64 lemmas (the rational theorems are closed under the global context); the AST translator; the "
            "hand mirror of calculate_runner_position (shape hash + correspondence); Python's float % for non-negative operands "
            "modelled as exact fmod on mantissa/exponent (checked bit-exactly by the correspondence). Instants are non-negative; "
            "margin separation is checked on doubles up to 8 ulp of the cycle length. If the history reaches a result the translator "
            "emits gen_history_free = false over the default definitions (proof breaks) instead of degrading. Known finding: adjacent windows overlap by "
            "one ulp for margin ~ 0 (proposed fix C12-slot-end-from-next-start.diff).",
    "design_ref": "DESIGN.md §6 C12",
}

IMPORTS = ["Model.AtomicArith", "gen.AtomicService_gen", "Model.AtomicSpec"]
KNOWN_KEY = "overlap:adjacent-ulp"


# ---------------------------------------------------------------------------------------- helpers
def fhex(x: float) -> str:
    """exact Gallina term for a non-negative finite double: mantissa * 2^exponent"""
    if not (x >= 0.0 and x != math.inf):
        raise ValueError(f"unsupported double {x!r}")
    if x == 0.0:
        return "(mkf 0%Z 0%Z)"
    m, e = math.frexp(x)
    mi = int(math.ldexp(m, 53))
    e -= 53
    while mi % 2 == 0:
        mi //= 2
        e += 1
    return f"(mkf {mi}%Z ({e})%Z)"


def from_render(v) -> float:
    s, m, e = v
    if s == 2:
        return math.nan
    if m == -1:
        return -math.inf if s else math.inf
    x = math.ldexp(m, e)
    return -x if s else x


def same(a: float, b: float) -> bool:
    return (a != a and b != b) or a.hex() == b.hex()


T0 = datetime(2024, 1, 1, tzinfo=UTC)


def hist_times(h):
    """history entry [start offset s, duration s | None] -> (last_service_start, last_service_end)"""
    if h is None:
        return None, None
    start = T0 + timedelta(seconds=h[0])
    return start, (None if h[1] is None else start + timedelta(seconds=h[1]))


def mk_runners(n: int, hist=None):
    """n active runners; hist = None (no execution ever recorded) or one entry per position:
    None | [start offset, duration] (what record_atomic_service_execution leaves in the listing)"""
    from pynenc.orchestrator.atomic_service import ActiveRunnerInfo
    out = []
    for i in range(n):
        st, en = hist_times(hist[i] if hist else None)
        out.append(ActiveRunnerInfo(runner_id=f"r{i}", creation_time=T0, last_heartbeat=T0, allow_to_run_atomic_service=True,
                                    last_service_start=st, last_service_end=en))
    return out


def impl_slots(n, im, mm, runners=None):
    """the windows; with `runners` as can_run_atomic_service computes them (the active list, history included)"""
    from pynenc.orchestrator.atomic_service import calculate_time_slot
    if runners is None:
        return [calculate_time_slot(i, n, im, mm) for i in range(n)]
    return [calculate_time_slot(i, n, im, mm, runners) for i in range(n)]


def histories(rng, n: int, im: float, mm: float, how_many: int | None):
    """execution histories of an active list: (class, [entry per position]); durations relative to the slot size,
    overrunning ones (longer than half a slot, a slot, the whole cycle) included.  how_many=None: every class."""
    I = im * 60
    S = I / n
    pos = rng.randrange(n)

    def one(i, dur, start=0.0):
        return [[start, dur] if j == i else None for j in range(n)]

    fixed = [
        ("one-overrun-1.5-slots", one(pos, 1.5 * S)),
        ("all-random-up-to-3-slots", [[rng.uniform(0, 3600), rng.uniform(0, 3 * S)] for _ in range(n)]),
    ]
    pool = [
        ("one-short", one(0, 1.0)),
        ("last-0.4-slot", one(n - 1, 0.4 * S)),
        ("all-0.9-slot", [[float(j), 0.9 * S] for j in range(n)]),
        ("one-0.75-slot", one(pos, 0.75 * S)),
        ("one-exactly-slot", one(pos, S)),
        ("one-beyond-cycle", one(pos, 10 * I + 7.0)),
        ("one-negative", one(pos, -S, 5000.0)),
        ("one-zero", one(pos, 0.0)),
        ("start-only", [[3.0, None] if j == pos else None for j in range(n)]),
        ("sparse-random", [rng.choice([None, [rng.uniform(0, 3600), rng.choice(
            [rng.uniform(0, S / 2), rng.uniform(S / 2, S), rng.uniform(S, 2 * S), rng.uniform(0, 2 * I)])]])
            for _ in range(n)]),
    ]
    if how_many is None:
        return fixed + pool
    return fixed[:how_many] + (rng.sample(pool, max(0, how_many - len(fixed))) if how_many > len(fixed) else [])


def impl_authorised(runners, t, im, mm) -> list[bool]:
    from pynenc.orchestrator.atomic_service import can_run_atomic_service
    return [bool(can_run_atomic_service(r.runner_id, runners, t, im, mm)) for r in runners]


# ---------------------------------------------------------------------------------------- generators
def configs(ctx: Ctx, wide: bool, extra_random: int = 0):
    """(n, interval_minutes, margin_minutes, margin_class)"""
    ns = list(range(1, 17 if wide else 13))
    ims = [5.0, 6.0, 7.0, 0.1, 3.3] + ([1.0, 10.0, 60.0, 1.0 / 3.0, 1440.0] if wide else [])
    out = []
    for n in ns:
        for im in ims:
            slot_min = im / n
            margins = [("zero", 0.0), ("default", 1.0), ("tiny", 1e-15), ("half-slot", slot_min / 2),
                       ("slot", slot_min), ("below-slot", math.nextafter(slot_min, 0.0)), ("twice-slot", 2 * slot_min)]
            if wide:
                margins += [("cycle", im), ("quarter", slot_min / 4), ("above-slot", math.nextafter(slot_min, math.inf)),
                            ("tiny2", 1e-18), ("ulpish", math.ulp(im * 60) / 60)]
            for cls, mm in margins:
                out.append((n, im, mm, cls))
    rng = ctx.rng
    for _ in range((200 if wide else 40) + extra_random):
        n = rng.randint(1, 16 if wide else 12)
        im = rng.choice([rng.uniform(0.05, 30.0), float(rng.randint(1, 120)), rng.uniform(0.05, 30.0) * 7])
        mm = rng.choice([0.0, rng.uniform(0, im / n), rng.uniform(0, 2 * im / n), im / n])
        out.append((n, im, mm, "random"))
    return out


def instants(ctx: Ctx, n, im, mm, slots, wide: bool):
    """dense grid + every slot boundary and its two float neighbours, over several cycles and epoch offsets"""
    I = im * 60
    rng = ctx.rng
    bounds = sorted({0.0, I} | {b for s, e in slots for b in (s, e)})
    ts: list[float] = []
    big = [int(1_700_000_000 // I), int((2 ** 31 - 1) // I) - 1]
    for k in ([0, 1000] if wide else [0]):
        for b in bounds:
            t = k * I + b
            ts += [t, math.nextafter(t, math.inf), math.nextafter(t, -math.inf)]
    for k in ((1, 3, 7) if wide else (1, 3)):
        ts += [k * I + b for b in bounds]
    lim = 8 if wide else 6
    pick = bounds if len(bounds) <= lim else rng.sample(bounds, lim)
    for j, k in enumerate(big):
        for b in (bounds if (wide and j == 1) else pick):
            t = k * I + b
            ts += [t, math.nextafter(t, math.inf), math.nextafter(t, -math.inf)] if (wide and j == 0) else [t]
    grid = 16 if wide else 12
    for k in (0, 2, big[0]):
        for j in range(grid):
            ts.append(k * I + (j + rng.random()) * I / grid)
    return [t for t in dict.fromkeys(ts) if t >= 0.0 and t == t and t != math.inf]


# ---------------------------------------------------------------------------------------- oracle (implementation only)
def classify_overlap(slots, who: list[int]) -> str:
    a, b = who[0], who[1]
    if b == a + 1 and len(who) == 2:
        over = Fraction(slots[a][1]) - Fraction(slots[b][0])
        if 0 < over <= 2 * Fraction(math.ulp(slots[b][0])):
            return KNOWN_KEY
        return "overlap:adjacent-wide"
    return "overlap:non-adjacent"


def hist_note(hist) -> str:
    if not hist:
        return ""
    return "; recorded executions (position: duration s) " + ", ".join(
        f"{i}: {'running' if h[1] is None else repr(h[1])}" for i, h in enumerate(hist) if h is not None)


def oracle_instant(ctx: Ctx, n, im, mm, cls, slots, t, auth: list[bool], hist=None):
    who = [i for i, a in enumerate(auth) if a]
    base = {"kind": "pure", "n": n, "interval_minutes": im.hex(), "margin_minutes": mm.hex(), "t": t.hex()}
    if hist:
        base["history"] = hist
    if n == 1 and who != [0]:
        ctx.violation("single-runner-refused" + (":history" if hist else ""),
                      f"a single active runner is not authorised at t={t!r} (interval {im} min, margin {mm} min)" + hist_note(hist),
                      {**base, "observed": who, "expected": [0]})
    if len(who) > 1:
        key = classify_overlap(slots, who)
        if hist and key != KNOWN_KEY:
            key += ":history"
        ctx.violation(key,
                      f"{len(who)} runners authorised at the same instant: n={n}, interval={im!r} min, margin={mm!r} min, "
                      f"t={t!r} (t % cycle = {t % (im * 60)!r}): positions {who}; windows "
                      + ", ".join(f"{i}:[{slots[i][0]!r},{slots[i][1]!r})" for i in who) + hist_note(hist),
                      {**base, "observed": who, "expected": "at most one"})
    return who


def oracle_config(ctx: Ctx, n, im, mm, cls, slots, runners, stats, hist=None):
    """margin separation and non-empty windows, in exact arithmetic on the doubles the code returned"""
    if n < 2:
        return
    I = Fraction(im) * 60
    m = Fraction(mm) * 60
    size = I / n
    tol = 8 * Fraction(math.ulp(im * 60))
    base = {"kind": "slots", "n": n, "interval_minutes": im.hex(), "margin_minutes": mm.hex()}
    sfx = ""
    if hist:
        base["history"] = hist
        sfx = ":history"
    for i, (s, e) in enumerate(slots):
        if not (0 <= s < e and Fraction(e) <= I + tol):
            ctx.violation("window-empty-or-outside" + sfx,
                          f"window of position {i} is empty or leaves the cycle: [{s!r},{e!r}) n={n} interval={im!r} margin={mm!r}"
                          + hist_note(hist),
                          {**base, "position": i, "observed": [s.hex(), e.hex()]})
    if m <= size - tol:
        stats["margin_fits"] += 1
        for i in range(n):
            nxt = Fraction(slots[i + 1][0]) if i + 1 < n else I + Fraction(slots[0][0])
            gap = nxt - Fraction(slots[i][1])
            if gap < m - tol:
                ctx.violation("separation:below-margin" + sfx,
                              f"windows {i} and {(i + 1) % n} are separated by {float(gap)!r} s < margin {float(m)!r} s "
                              f"(n={n}, interval={im!r} min, margin={mm!r} min)" + hist_note(hist),
                              {**base, "position": i, "observed_gap": float(gap), "expected_at_least": float(m)})
    elif m >= size:
        stats["margin_does_not_fit"] += 1
    else:
        stats["margin_at_rounding_boundary"] += 1
    # an authorised instant inside the window in several cycles
    from pynenc.orchestrator.atomic_service import can_run_atomic_service
    fI = im * 60
    for k in (0, 1, 5, int(1_700_000_000 // fI)):
        for i, (s, e) in enumerate(slots):
            t = k * fI + (s + e) / 2
            if (e - s) < 64 * math.ulp(t):
                stats["window_below_float_spacing"] += 1
                continue
            stats["window_probes"] += 1
            if not can_run_atomic_service(runners[i].runner_id, runners, t, im, mm):
                ctx.violation("not-authorised-inside-window" + sfx,
                              f"position {i} is not authorised at the middle of its window in cycle {k}: t={t!r} n={n} "
                              f"interval={im!r} margin={mm!r}" + hist_note(hist),
                              {**base, "kind": "pure", "t": t.hex(), "observed": "refused", "expected": [i]})


# ---------------------------------------------------------------------------------------- pure correspondence
def run_pure(ctx: Ctx, wide: bool, extra_random: int = 0):
    cfgs = configs(ctx, wide, extra_random)
    stats = {"margin_fits": 0, "margin_does_not_fit": 0, "margin_at_rounding_boundary": 0, "window_probes": 0,
             "window_below_float_spacing": 0}
    cases = []
    exprs = []
    for (n, im, mm, cls) in cfgs:
        runners = mk_runners(n)
        slots = impl_slots(n, im, mm)
        ts = instants(ctx, n, im, mm, slots, wide)
        cases.append((n, im, mm, cls, runners, slots, ts))
        ids = "(iota %d)" % n
        exprs.append(
            "(map (fun p => let '(s, e) := gen_calculate_time_slot F64 p %d %s %s in (render s ++ render e)%%list) %s, "
            "map (fun t => map (fun r => gen_can_run_atomic_service F64 r %s t %s %s) (%s ++ [99%%Z])%%list) [%s])"
            % (n, fhex(im), fhex(mm), ids, ids, fhex(im), fhex(mm), ids, "; ".join(fhex(t) for t in ts)))
    ctx.log(f"pure correspondence: {len(cfgs)} configurations, {sum(len(c[6]) for c in cases)} instants")
    vals = ctx.coq_eval(IMPORTS, exprs, chunk=8)
    n_eval = 0
    mism = 0
    by_n: dict = {}
    by_cls: dict = {}
    auth_hist = {0: 0, 1: 0, 2: 0}
    h_eval = 0
    hstats: dict = {"lists": 0, "by_class": {}, "fallback_lists": 0, "lists_with_duration_over_slot": 0,
                    "lists_with_duration_over_half_slot": 0, "model_mismatches": 0, "extra_instants": 0}
    for (n, im, mm, cls, runners, slots, ts), (m_slots, m_auth) in zip(cases, vals):
        by_n[n] = by_n.get(n, 0) + len(ts)
        by_cls[cls] = by_cls.get(cls, 0) + len(ts)
        # slots, bit-exact
        for i, ((s, e), mv) in enumerate(zip(slots, m_slots)):
            ms, me = from_render(mv[:3]), from_render(mv[3:])
            if not (same(s, ms) and same(e, me)):
                mism += 1
                ctx.violation("model-mismatch:slot",
                              f"calculate_time_slot({i},{n},{im!r},{mm!r}) = ({s!r},{e!r}) but the binary64 model gives ({ms!r},{me!r})",
                              {"kind": "slots", "n": n, "interval_minutes": im.hex(), "margin_minutes": mm.hex(), "position": i,
                               "observed": [s.hex(), e.hex()], "model": [ms.hex(), me.hex()]})
        oracle_config(ctx, n, im, mm, cls, slots, runners, stats)
        from pynenc.orchestrator.atomic_service import can_run_atomic_service
        for t, mrow in zip(ts, m_auth):
            auth = impl_authorised(runners, t, im, mm)
            unknown = bool(can_run_atomic_service("not-registered", runners, t, im, mm))
            n_eval += 1
            who = oracle_instant(ctx, n, im, mm, cls, slots, t, auth)
            auth_hist[min(len(who), 2)] += 1
            if auth + [unknown] != [bool(x) for x in mrow]:
                mism += 1
                ctx.violation("model-mismatch:authorised",
                              f"can_run_atomic_service differs from the binary64 model: n={n} interval={im!r} margin={mm!r} t={t!r}: "
                              f"impl {auth + [unknown]} model {mrow}",
                              {"kind": "pure", "n": n, "interval_minutes": im.hex(), "margin_minutes": mm.hex(), "t": t.hex(),
                               "observed": auth + [unknown], "model": mrow})
            if len(ctx.coverage["samples"]) < 3 and n in (3, 9) and len(who) == 1 and cls in ("default", "zero"):
                ctx.sample({"n": n, "interval_min": im, "margin_min": mm, "t": t, "t_mod_cycle": t % (im * 60),
                            "authorised_positions": who, "window": list(slots[who[0]])})
        h_eval += pure_with_history(ctx, wide, n, im, mm, cls, slots, ts, m_slots, m_auth, stats, hstats)
    ctx.count(n_eval, len({(c[0], c[1], c[2], t) for c in cases for t in c[6]}))
    ctx.count(h_eval, h_eval)
    ctx.notes["pure_with_execution_history"] = {"instants": h_eval, **hstats}
    ctx.notes["pure"] = {"configurations": len(cfgs), "instants": n_eval, "model_mismatches": mism,
                         "instants_by_runner_count": {str(k): v for k, v in sorted(by_n.items())},
                         "instants_by_margin_class": by_cls,
                         "authorised_count_histogram": {"none": auth_hist[0], "one": auth_hist[1], "two_or_more": auth_hist[2]},
                         **stats}


def window_instants(slots, im: float) -> list[float]:
    """boundaries, their float neighbours and the middles of the given windows, in cycle 0, 3 and at epoch ~1.7e9 s"""
    I = im * 60
    pts = sorted({b for s, e in slots for b in (s, e, (s + e) / 2) if b == b and abs(b) != math.inf})
    out = []
    for k in (0, 3, int(1_700_000_000 // I)):
        for b in pts:
            t = k * I + b
            out += [t, math.nextafter(t, math.inf), math.nextafter(t, -math.inf)]
    return [t for t in dict.fromkeys(out) if t >= 0.0 and t == t and t != math.inf]


def pure_with_history(ctx: Ctx, wide, n, im, mm, cls, slots, ts, m_slots, m_auth, stats, hstats) -> int:
    """The same configuration with active-runner lists that CARRY execution history (what the listing returns after
    record_atomic_service_execution): the windows and every authorisation must be the ones of the id-only model
    (bit-exact), and the oracle (at most one authorised, margin separation, non-empty windows inside the cycle) is
    evaluated on the implementation's answers for these lists."""
    from pynenc.orchestrator.atomic_service import can_run_atomic_service
    S = im * 60 / n
    fallback = mm * 60 >= S
    k = (6 if fallback else 3) if wide else (4 if fallback else 2)      # lists per configuration (classes drawn from the pool)
    done = 0
    for hcls, hist in histories(ctx.rng, n, im, mm, k):
        runners = mk_runners(n, hist)
        durs = [h[1] for h in hist if h is not None and h[1] is not None]
        hstats["lists"] += 1
        hstats["by_class"][hcls] = hstats["by_class"].get(hcls, 0) + 1
        hstats["fallback_lists"] += int(fallback)
        hstats["lists_with_duration_over_slot"] += int(any(d > S for d in durs))
        hstats["lists_with_duration_over_half_slot"] += int(any(d > S / 2 for d in durs))
        slots_h = impl_slots(n, im, mm, runners)
        moved = False
        for i, ((s, e), mv) in enumerate(zip(slots_h, m_slots)):
            ms, me = from_render(mv[:3]), from_render(mv[3:])
            if not (same(s, ms) and same(e, me)):
                moved = True
                hstats["model_mismatches"] += 1
                ctx.violation("model-mismatch:slot:history",
                              f"calculate_time_slot({i},{n},{im!r},{mm!r}, runners with history) = ({s!r},{e!r}) but the "
                              f"(history-free) binary64 model gives ({ms!r},{me!r})" + hist_note(hist),
                              {"kind": "slots", "n": n, "interval_minutes": im.hex(), "margin_minutes": mm.hex(), "position": i,
                               "history": hist, "observed": [s.hex(), e.hex()], "model": [ms.hex(), me.hex()]})
        oracle_config(ctx, n, im, mm, cls, slots_h, runners, stats, hist)
        extra = window_instants(slots_h, im) if moved else []
        hstats["extra_instants"] += len(extra)
        for j, t in enumerate(list(ts) + extra):
            auth = impl_authorised(runners, t, im, mm)
            done += 1
            oracle_instant(ctx, n, im, mm, cls, slots_h, t, auth, hist)
            if j < len(ts):
                unknown = bool(can_run_atomic_service("not-registered", runners, t, im, mm))
                if auth + [unknown] != [bool(x) for x in m_auth[j]]:
                    hstats["model_mismatches"] += 1
                    ctx.violation("model-mismatch:authorised:history",
                                  f"can_run_atomic_service on a list with execution history differs from the binary64 model: n={n} "
                                  f"interval={im!r} margin={mm!r} t={t!r}: impl {auth + [unknown]} model {m_auth[j]}" + hist_note(hist),
                                  {"kind": "pure", "n": n, "interval_minutes": im.hex(), "margin_minutes": mm.hex(), "t": t.hex(),
                                   "history": hist, "observed": auth + [unknown], "model": m_auth[j]})
    return done


# ---------------------------------------------------------------------------------------- through the orchestrators
class Clock:
    def __init__(self, t):
        self.t = t

    def __call__(self):
        return self.t


def orchestrator_authorised(kind: str, scratch: str, n: int, im: float, mm: float, ts: list[float], hist=None,
                            rerecord_at: int | None = None):
    """n eligible runners (+1 ineligible worker) registered in creation order; the executions of `hist` (one entry
    per position of the creation order) are recorded with record_atomic_service_execution; at every instant all
    heartbeat, then each asks should_run_atomic_service at the same (virtual) time.  rerecord_at: index of the instant
    before which the history is recorded a second time (a later execution of the same length replaces the first)."""
    import pynenc.orchestrator.base_orchestrator as bo
    import pynenc.orchestrator.mem_orchestrator as mo
    import pynenc.orchestrator.sqlite_orchestrator as so
    app = world.make_app(kind, scratch, atomic_service_interval_minutes=im, atomic_service_spread_margin_minutes=mm)
    orch = app.orchestrator
    clock = Clock(ts[0] - 100.0 if ts[0] >= 100.0 else 0.0)
    saved = [(m, m.time) for m in (bo, mo, so)]
    out = []

    def record(shift: float):
        for rid, h in zip(order, hist or []):
            if h is not None and h[1] is not None:
                st, en = hist_times([h[0] + shift, h[1]])
                orch.record_atomic_service_execution(rid, st, en)

    try:
        for m, _ in saved:
            m.time = clock
        ids = [f"runner-{i}" for i in range(n)]
        base = clock.t
        for i, rid in enumerate(reversed(ids)):        # registration order is NOT the lexical order
            clock.t = base + i * 0.001
            orch.register_runner_heartbeats([rid], can_run_atomic_service=True)
        orch.register_runner_heartbeats(["worker-x"], can_run_atomic_service=False)
        order = list(reversed(ids))
        record(0.0)
        for j, t in enumerate(ts):
            clock.t = t
            if rerecord_at is not None and j == rerecord_at:
                record(777.0)
            orch.register_runner_heartbeats(order, can_run_atomic_service=True)
            orch.register_runner_heartbeats(["worker-x"], can_run_atomic_service=False)
            act = orch.get_active_runners(can_run_atomic_service=True)
            listed = [r.runner_id for r in act]
            seen = {r.runner_id: r.get_last_execution_duration_seconds() for r in act}
            out.append((listed, {rid: bool(orch.should_run_atomic_service(world.runner_ctx(rid))) for rid in order}, seen))
    finally:
        for m, f in saved:
            m.time = f
    return out


def orchestrator_histories(rng, n: int, im: float, mm: float, wide: bool):
    """None (nothing recorded) + histories recorded through the orchestrator (durations as exact doubles of whole
    microseconds are not needed: the listing is compared with what was recorded up to 1 us)"""
    S = im * 60 / n
    fallback = mm * 60 >= S
    out = [("none", None)]
    if n < 1:
        return out
    pos = rng.randrange(n)
    hs = [("one-overrun-1.5-slots", [[0.0, round(1.5 * S, 3)] if j == pos else None for j in range(n)])]
    if fallback or wide:
        hs.append(("all-random-up-to-3-slots", [[float(j), round(rng.uniform(0, 3 * S), 3)] for j in range(n)]))
    if wide:
        hs.append(("all-0.9-slot", [[float(j), round(0.9 * S, 3)] for j in range(n)]))
        hs.append(("one-beyond-cycle", [[0.0, round(10 * im * 60 + 7, 3)] if j == (pos + 1) % n else None for j in range(n)]))
    return out + hs


def run_orchestrators(ctx: Ctx, scratch: str, wide: bool):
    rng = ctx.rng
    cfgs = [(9, 5.0, 0.0), (3, 6.0, 1.0), (1, 5.0, 1.0), (4, 5.0, 2.0), (7, 6.0, 0.0), (2, 0.1, 0.0), (3, 3.0, 2.0), (6, 5.0, 1.0)]
    if wide:
        cfgs += [(n, im, mm) for n in (2, 5, 12) for im in (5.0, 7.0) for mm in (0.0, 1.0, im / n)]
    n_eval = 0
    mism = 0
    hnote = {"runs_with_recorded_executions": 0, "runs_where_the_listing_shows_them": 0, "fallback_runs_with_history": 0,
             "by_class": {}}
    for (n, im, mm) in cfgs:
        slots = impl_slots(n, im, mm)
        I = im * 60
        k = int(1_700_000_000 // I)
        ts = sorted({k * I + b + d for s, e in slots for b in (s, e) for d in (0.0,)}
                    | {k * I + rng.random() * I for _ in range(12 if wide else 6)})
        ts = [t for t in ts if t >= 1000.0]
        order = [f"runner-{i}" for i in reversed(range(n))]          # creation order used by orchestrator_authorised
        variants = orchestrator_histories(rng, n, im, mm, wide)
        for kind in ("mem", "sqlite"):
            model = None
            for hcls, hist in variants:
                rerec = (len(ts) // 2) if (hist and hcls.startswith("all-random")) else None
                got = orchestrator_authorised(kind, scratch, n, im, mm, ts, hist, rerec)
                lists = {tuple(l) for l, _, _ in got}
                listed = list(got[0][0])
                if lists != {tuple(order)}:
                    ctx.notes.setdefault("active_list_differences", []).append(
                        {"backend": kind, "n": n, "expected_creation_order": order, "observed": [list(x) for x in sorted(lists)][:3]})
                if hist:
                    hnote["runs_with_recorded_executions"] += 1
                    hnote["by_class"][hcls] = hnote["by_class"].get(hcls, 0) + 1
                    hnote["fallback_runs_with_history"] += int(mm * 60 >= I / n)
                    want_seen = {rid: (h[1] if h is not None else None) for rid, h in zip(order, hist)}
                    shown = all(all((sn.get(rid) is None) == (d is None) and (d is None or abs(sn[rid] - d) <= 1e-6)
                                    for rid, d in want_seen.items()) for _, _, sn in got)
                    hnote["runs_where_the_listing_shows_them"] += int(shown)
                    if not shown:
                        ctx.notes.setdefault("history_not_listed", []).append(
                            {"backend": kind, "n": n, "class": hcls, "recorded": want_seen, "listed": got[0][2]})
                if model is None and len(lists) == 1 and listed:
                    nl = len(listed)
                    model = (listed, ctx.coq_eval(IMPORTS, [
                        "map (fun t => map (fun r => gen_can_run_atomic_service F64 r (iota %d) t %s %s) (iota %d)) [%s]"
                        % (nl, fhex(im), fhex(mm), nl, "; ".join(fhex(t) for t in ts))])[0])
                for j, (t, (lst, auth, _sn)) in enumerate(zip(ts, got)):
                    n_eval += 1
                    who = [i for i, rid in enumerate(order) if auth[rid]]
                    rp = {"kind": "orchestrator", "backend": kind, "n": n, "interval_minutes": im.hex(),
                          "margin_minutes": mm.hex(), "t": t.hex()}
                    sfx = ""
                    if hist:
                        rp["history"] = hist
                        sfx = ":history"
                    if len(who) > 1:
                        key = classify_overlap(slots, who) if lst == order else "overlap:orchestrator-list"
                        if key != KNOWN_KEY and hist:
                            key += f":history:{kind}"
                        ctx.violation(key,
                                      f"{kind}: should_run_atomic_service authorises {len(who)} runners at the same instant t={t!r} "
                                      f"(n={n}, interval={im!r} min, margin={mm!r} min): positions {who} of {lst}"
                                      + (hist_note(hist) + " recorded with record_atomic_service_execution" if hist else ""),
                                      {**rp, "observed": who, "expected": "at most one"})
                    if n == 1 and who != [0]:
                        ctx.violation("single-runner-refused" + sfx, f"{kind}: the single runner is refused at t={t!r}",
                                      {**rp, "observed": who, "expected": [0]})
                    if model is not None and list(lst) == model[0]:
                        mrow = model[1][j]
                        want = {rid: bool(mrow[lst.index(rid)]) if rid in lst else (len(lst) == 1) for rid in order}
                        if want != auth:
                            mism += 1
                            ctx.violation(f"model-mismatch:orchestrator:{kind}" + sfx,
                                          f"{kind}: should_run_atomic_service differs from the model at t={t!r} n={n} interval={im!r} "
                                          f"margin={mm!r} list={lst}: impl {auth} model {want}" + hist_note(hist),
                                          {**rp, "observed": auth, "model": want})
    ctx.count(n_eval, n_eval)
    ctx.notes["orchestrators"] = {"configurations": len(cfgs), "instants_x_backends": n_eval, "model_mismatches": mism,
                                  "backends": ["mem", "sqlite"], "execution_history": hnote}


# ---------------------------------------------------------------------------------------- main / replay
def main(ctx: Ctx) -> int:
    world.quiet()
    info = ctx.translate("atomic_service", tr.translate, "gen/AtomicService_gen.v")
    if info.get("shape_changed"):
        ctx.log("calculate_runner_position changed shape - relying on the correspondence for the position lookup")
    pr = ctx.prove("Props/C12.v")
    # a broken proof / degraded translator widens the search for a concrete failing input
    if info.get("history_reaches_result"):
        ctx.log(f"execution history reaches a result: {info.get('history_free')} - gen_history_free is false, Props/C12.v cannot build")
    extra = 300 if ((not pr.ok) or bool(info.get("degraded")) or bool(info.get("history_reaches_result"))) else 0
    scratch = world.scratch_dir()
    try:
        run_pure(ctx, ctx.thorough, extra)
        run_orchestrators(ctx, scratch, ctx.thorough)
    finally:
        world.rm_scratch(scratch)
    ctx.notes["end_form"] = info.get("end_form", "unknown (translator degraded)")
    ctx.notes["history_free"] = info.get("history_free", "unknown (translator degraded)")
    ctx.assumptions += [
        "instants are non-negative doubles (Unix time); interval > 0 and margin >= 0 (the theorems' hypotheses)",
        "Python float % on non-negative operands = exact fmod (modelled on mantissa/exponent; compared bit-exactly on every instant)",
        "margin separation on doubles is checked up to 8 ulp of the cycle length; the exact statement is the theorem over rationals",
        "runner ids are distinct (dictionary keys / primary key in both backends); position = first match",
        "the through-orchestrator runs refresh every runner's heartbeat at the instant asked ('given the same list of active runners')",
        "execution history = what ActiveRunnerInfo carries (last_service_start, last_service_end); history-freedom of the three "
        "functions is a syntactic data-flow fact (assignments, walrus, loop targets, control dependence) over atomic_service.py",
    ]
    ctx.trusted += [
        "stdlib FloatAxioms (specification of the primitive float operations) for every binary64 statement",
        "Flocq 4.1 + classical reals (ClassicalDedekindReals, functional extensionality) for adjacent_windows_do_not_cross_b64_partial",
    ]
    return ctx.finish(
        rule="configurations = all n in 1..12 (16 thorough) x cycle-length family x margin classes (0, default, tiny, half/quarter slot, "
             "exactly slot, one ulp below/above slot, twice slot, whole cycle) + seeded random ones; instants = every slot boundary, 0 "
             "and the cycle length with both float neighbours in cycles {0,1,3,(7,1000)} and at epoch offsets ~1.7e9 s and ~2^31 s, "
             "plus a seeded dense grid; each configuration again with 2 (margin fits) / 4 (margin >= slot) (thorough: 3 / 6) "
             "execution histories on the active list (same instants + the boundaries of any window that moved); orchestrators: "
             "8 (26 thorough) configurations x {mem, sqlite} x {no history, 1-4 recorded histories}; one evaluation = all runners of one configuration asked at one instant (model and "
             "implementation compared bit-exactly, oracle on the implementation's answers); distinct_nontrivial = distinct "
             "(configuration, instant) pairs")


def replay(ctx: Ctx, path: str) -> int:
    world.quiet()
    rp = json.load(open(path))["replay"]
    n = rp["n"]
    im = float.fromhex(rp["interval_minutes"])
    mm = float.fromhex(rp["margin_minutes"])
    hist = rp.get("history")
    runners = mk_runners(n, hist)
    slots = impl_slots(n, im, mm, runners if hist else None)
    if hist:
        print("recorded executions [start offset s, duration s] per position:", hist)
        print("windows without history:", impl_slots(n, im, mm))
    print("windows:", [(s, e) for s, e in slots])
    if rp["kind"] == "slots":
        print("observed", rp.get("observed", rp.get("observed_gap")), "expected", rp.get("expected_at_least", rp.get("model")))
        if hist and "position" in rp and "observed" in rp and isinstance(rp["observed"], list):
            i = rp["position"]
            now = [slots[i][0].hex(), slots[i][1].hex()]
            print("window of position", i, "now:", now, "REPRODUCED" if now == rp["observed"] else "differs from the recorded one")
        return 0
    t = float.fromhex(rp["t"])
    if rp["kind"] == "pure":
        auth = impl_authorised(runners, t, im, mm)
    else:
        scratch = world.scratch_dir()
        try:
            lst, d, seen = orchestrator_authorised(rp["backend"], scratch, n, im, mm, [t], hist)[0]
            print("active list:", lst, "| durations in the listing:", seen)
            auth = [d[f"runner-{i}"] for i in reversed(range(n))]
        finally:
            world.rm_scratch(scratch)
    who = [i for i, a in enumerate(auth) if a]
    print(f"n={n} interval={im!r} min margin={mm!r} min t={t!r} (t % cycle = {t % (im * 60)!r})")
    print("authorised positions now:", who, "| recorded:", rp.get("observed"), "| expected:", rp.get("expected", rp.get("model")))
    if "model" in rp:
        obs = rp.get("observed")
        now = ({f"runner-{i}": a for i, a in zip(reversed(range(n)), auth)} if isinstance(obs, dict) else auth)
        recorded = obs if isinstance(obs, dict) else list(obs)[:n]
        print("answers now:", now)
        print("REPRODUCED (same answers as recorded, different from the model)" if now == recorded
              else "answers differ from the recorded ones on this tree")
        return 0
    print("REPRODUCED" if (len(who) > 1 or who == [] and n == 1) else "not a double authorisation on this tree")
    return 0

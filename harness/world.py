"""App factory for the implementation side of every correspondence check.

Builds real pynenc apps (in-memory or SQLite components) against /repo's working tree.
Scratch SQLite files live in a mkdtemp under /dev/shm (or $TMPDIR) that the caller removes.
"""
from __future__ import annotations

import itertools
import logging
import os
import shutil
import tempfile

from pynenc import Pynenc, PynencBuilder
from pynenc.runner.runner_context import RunnerContext

_counter = itertools.count(1)


def scratch_dir() -> str:
    base = "/dev/shm" if os.path.isdir("/dev/shm") else os.environ.get("TMPDIR", "/tmp")
    return tempfile.mkdtemp(prefix="pynenc_verif_", dir=base)


def rm_scratch(path: str) -> None:
    shutil.rmtree(path, ignore_errors=True)


def runner_ctx(runner_id: str) -> RunnerContext:
    return RunnerContext(runner_cls="VerifRunner", runner_id=runner_id, pid=1, hostname="verif")



class RunnerStub:
    """`self` for calling single BaseRunner methods (e.g. _kill_and_reroute) without starting a runner: the attributes given, and every
    other method / property looked up on BaseRunner itself, so that helper methods a maintainer extracts keep working."""

    def __init__(self, **attrs):
        self.__dict__.update(attrs)

    def __getattr__(self, name):
        from pynenc.runner.base_runner import BaseRunner
        f = getattr(BaseRunner, name)
        if isinstance(f, property):
            return f.fget(self)
        return f.__get__(self, type(self)) if hasattr(f, "__get__") else f


def quiet() -> None:
    import warnings
    logging.disable(logging.CRITICAL)
    warnings.filterwarnings("ignore")


def make_app(kind: str, scratch: str | None = None, app_id: str | None = None,
             builder_hook=None, **custom) -> Pynenc:
    """kind in {'mem','sqlite'}; custom = config values (custom_config)."""
    Pynenc._clear_instances()
    app_id = app_id or f"verif_{kind}_{next(_counter)}"
    b = PynencBuilder().app_id(app_id)
    if kind == "mem":
        b = b.memory()
    elif kind == "sqlite":
        assert scratch is not None
        b = b.sqlite(sqlite_db_path=os.path.join(scratch, f"{app_id}.db"))
    else:
        raise ValueError(kind)
    if builder_hook:
        b = builder_hook(b) or b
    cfg = {"logging_level": "critical", "cached_status_time": 0.0}
    cfg.update(custom)
    b = b.custom_config(**cfg)
    return b.build()


def rebind_tasks(app: Pynenc, module) -> None:
    """Point every Task object defined in `module` to `app` (tasks are module-level objects
    created against a placeholder app; the harness re-targets them per case)."""
    from pynenc.task import Task
    for v in vars(module).values():
        if isinstance(v, Task):
            v.app = app
            app._tasks[v.task_id] = v if hasattr(app, "_tasks") else None

"""C16 — trigger store: implementation-vs-implementation differential (MemTrigger vs SQLiteTrigger), no Coq model.

The same seeded operation sequences run on both trigger stores through their public operations, with a full
read-out after every operation.  Values are compared by VALUE (the in-memory store hands back the live object,
the SQLite store a JSON round trip: conditions / valid conditions are compared through their own `to_json`,
parsed), unordered answers as sorted lists (so nothing may be missing or duplicated), instants as ISO strings.
Time (`datetime.now` inside mem_trigger / sqlite_trigger) is the harness' VirtualClock.
"""
from __future__ import annotations

import json
from datetime import UTC, datetime

from harness import c16_driver as D

MINUTE = 2560                   # first full minute after T0 (T0 = ...:13:20 UTC), in 1/64 s units
# instants for time-based checks / stored executions: on, just before and just after schedule points
INSTANTS = [0, MINUTE, MINUTE + 1, MINUTE + 64 * 29, MINUTE + 64 * 31, MINUTE + 64 * 59, MINUTE + 64 * 61, 6400, 6400 + 64 * 30,
            6400 + 64 * 300, 179200, 179200 + 64 * 29, 179200 + 64 * 31]
NCOND, NTRIG = 10, 4


def T(u: int) -> datetime:
    return datetime.fromtimestamp(D.T0 + u * D.UNIT, tz=UTC)


class TrigClock:
    """datetime.now as seen by the two trigger store modules = the virtual clock"""

    def __init__(self, clock):
        self.clock, self.saved = clock, []

    def install(self):
        import datetime as _dt
        import pynenc.trigger.mem_trigger as mt
        import pynenc.trigger.sqlite_trigger as st
        real, me = _dt.datetime, self

        class VDatetime(real):  # type: ignore[misc,valid-type]
            @classmethod
            def now(cls, tz=None):
                return real.fromtimestamp(me.clock.now, tz)

        for mod in (mt, st):
            self.saved.append((mod, mod.datetime))
            mod.datetime = VDatetime
        return self

    def uninstall(self):
        for mod, val in reversed(self.saved):
            mod.datetime = val
        self.saved.clear()


def err(ex: BaseException):
    return ["E", type(ex).__name__]


class TrigImpl:
    """the trigger store of one D.Impl application"""

    def __init__(self, im: "D.Impl"):
        self.im = im

    def begin(self):
        from pynenc.models.trigger_definition_dto import TriggerDefinitionDTO
        from pynenc.trigger.arguments.argument_filters import StaticArgumentFilter
        from pynenc.trigger.arguments.argument_providers import StaticArgumentProvider
        from pynenc.trigger.arguments.result_filter import NoResultFilter, StaticResultFilter
        from pynenc.trigger.conditions import CompositeLogic
        from pynenc.trigger.conditions.cron import CronCondition
        from pynenc.trigger.conditions.event import EventCondition
        from pynenc.trigger.conditions.exception import ExceptionCondition
        from pynenc.trigger.conditions.result import ResultCondition
        from pynenc.trigger.conditions.status import StatusCondition
        from pynenc.invocation.status import InvocationStatus as S
        im = self.im
        im.reset()
        self.app, self.trg = im.app, im.app.trigger
        t0, t1 = im.tasks[0].task_id, im.tasks[1].task_id
        self.task_ids = [t0, t1]
        # conditions of every kind; the cron ones with boundary parameter values (0, negative, None, defaults)
        self.conds = [
            CronCondition("* * * * *"),
            CronCondition("*/5 * * * *", check_window_seconds=0, min_interval_seconds=0, precision_tolerance_seconds=0),
            CronCondition("0 * * * *", check_window_seconds=30, min_interval_seconds=120, precision_tolerance_seconds=-1,
                          strict_timing=True),
            CronCondition("* * * * *", check_window_seconds=0, min_interval_seconds=0, precision_tolerance_seconds=0,
                          strict_timing=True),                                     # same id as conds[0]
            StatusCondition(t0, [S.SUCCESS, S.FAILED], StaticArgumentFilter({})),
            StatusCondition(t1, [], StaticArgumentFilter({"x": 0})),
            EventCondition("ev", StaticArgumentFilter({"k": 0})),
            ResultCondition(t0, StaticArgumentFilter({"a": 1}), StaticResultFilter(0)),
            ExceptionCondition(t1, StaticArgumentFilter({}), ["ValueError"]),
            CronCondition("*/2 * * * *", check_window_seconds=1, min_interval_seconds=0, precision_tolerance_seconds=0,
                          strict_timing=False),
        ]
        _ = NoResultFilter
        self.cids = [c.condition_id for c in self.conds]
        prov = StaticArgumentProvider({"x": 0}).to_json(self.app)
        self.trigs = [
            TriggerDefinitionDTO("tr0", t1, [self.cids[0]], CompositeLogic.OR, None),
            TriggerDefinitionDTO("tr1", t1, [self.cids[1], self.cids[4]], CompositeLogic.AND, prov),
            TriggerDefinitionDTO("tr2", t0, [self.cids[6], self.cids[0]], CompositeLogic.OR, None),
            TriggerDefinitionDTO("tr3", t0, [], CompositeLogic.AND, prov),
        ]
        self.valids: list = []          # ValidCondition objects recorded so far (for clear)

    # ------------------------------------------------------------------ canonical values
    def cj(self, obj):
        return None if obj is None else json.loads(obj.to_json(self.app))

    def dto(self, d):
        if d is None:
            return None
        return [d.trigger_id, d.task_id.key, list(d.condition_ids), str(d.logic), d.argument_provider_json]

    def call(self, fn):
        try:
            return fn()
        except Exception as ex:  # noqa: BLE001 - class name compared between the two stores
            return err(ex)

    # ------------------------------------------------------------------ operations
    def do(self, op):
        from pynenc.trigger.conditions import ValidCondition
        from pynenc.trigger.conditions.cron import CronContext
        from pynenc.trigger.conditions.event import EventContext
        k, t = op[0], self.trg
        if k == "tick":
            self.im.clock.advance(op[1] * D.UNIT)
            return None
        if k == "t_cond":
            return self.call(lambda: t.register_condition(self.conds[op[1]]))
        if k == "t_trig":
            return self.call(lambda: t.register_trigger(self.trigs[op[1]]))
        if k == "t_valid":
            c = self.conds[op[1]]
            if op[1] == 6:
                ctx = EventContext(event_id=f"e{op[2]}", event_code="ev", payload={"k": op[2] % 2})
                ctx.timestamp = T(INSTANTS[op[2] % len(INSTANTS)])      # creation instant: under harness control
            else:
                ctx = CronContext(timestamp=T(INSTANTS[op[2] % len(INSTANTS)]), last_execution=None if op[2] % 2 else T(0))
            vc = ValidCondition(c, ctx)
            self.valids.append(vc)
            return self.call(lambda: t.record_valid_condition(vc))
        if k == "t_clear":
            vs = [self.valids[i] for i in op[1] if i < len(self.valids)]
            return self.call(lambda: t.clear_valid_conditions(vs))
        if k == "t_claim":
            return self.call(lambda: bool(t.claim_trigger_run(f"run{op[1]}", op[2])))
        if k == "t_cron_store":
            cid = self.cids[op[1]]
            if op[3] == "none":
                exp = None
            elif op[3] == "cur":
                exp = t.get_last_cron_execution(cid)
            else:
                exp = T(INSTANTS[op[3] % len(INSTANTS)])
            return self.call(lambda: bool(t.store_last_cron_execution(cid, T(INSTANTS[op[2] % len(INSTANTS)]), exp)))
        if k == "t_check":
            return self.call(lambda: t.check_time_based_triggers(T(INSTANTS[op[1] % len(INSTANTS)])))
        if k == "t_clean":
            return self.call(lambda: t.clean_task_trigger_definitions(self.task_ids[op[1]]))
        if k == "t_purge":
            return self.call(t.purge)
        raise ValueError(op)

    # ------------------------------------------------------------------ full read-out
    def readout(self):
        t = self.trg
        out = {}
        out["condition"] = [self.call(lambda c=c: self.cj(t.get_condition(c))) for c in self.cids]
        out["trigger_dto"] = [self.call(lambda d=d: self.dto(t._get_trigger(d.trigger_id))) for d in self.trigs]

        def trig(d):
            x = t.get_trigger(d.trigger_id)
            return None if x is None else [x.trigger_id, x.task_id.key, sorted(c.condition_id for c in x.conditions), str(x.logic)]
        out["trigger"] = [self.call(lambda d=d: trig(d)) for d in self.trigs]
        out["triggers_for_condition"] = [self.call(lambda c=c: sorted(x.trigger_id for x in t.get_triggers_for_condition(c)))
                                         for c in self.cids]
        out["sourced_from_task"] = [self.call(lambda tid=tid: sorted(c.condition_id for c in t.get_conditions_sourced_from_task(tid)))
                                    for tid in self.task_ids]
        out["sourced_from_task_json"] = [self.call(lambda tid=tid: sorted(json.dumps(self.cj(c), sort_keys=True)
                                                                          for c in t.get_conditions_sourced_from_task(tid)))
                                         for tid in self.task_ids]
        out["all_conditions"] = self.call(lambda: sorted(json.dumps(self.cj(c), sort_keys=True) for c in t._get_all_conditions()))
        out["valid_conditions"] = self.call(lambda: sorted([kk, json.dumps(self.cj(v), sort_keys=True)]
                                                           for kk, v in t.get_valid_conditions().items()))
        out["last_cron"] = [self.call(lambda c=c: (lambda x: None if x is None else x.astimezone(UTC).isoformat())(t.get_last_cron_execution(c)))
                            for c in self.cids]
        return out


def run_case(im: "D.Impl", case):
    ti = TrigImpl(im)
    ti.begin()
    trace = []
    for op in case:
        trace.append([ti.do(op), ti.readout()])
    return trace


# ---------------------------------------------------------------------- generators
CRON_IDX = [0, 1, 2, 3, 9]
COND_POOL = [0, 1, 2, 3, 4, 6, 7, 8, 9]          # 5 (a status condition with an empty status list) only in its witness


def gen_case(rng, n):
    """cron executions are stored only for registered cron conditions (an unregistered one is a witness of its own)"""
    ops = []
    nvalid = 0
    reg: set = set()
    trg: set = set()
    for _ in range(n):
        r = rng.random()
        crons = sorted({0 if c == 3 else c for c in reg if c in CRON_IDX})
        if r < 0.22 or not reg:
            c = rng.choice(COND_POOL)
            ops.append(("t_cond", c))
            reg.add(c)
        elif r < 0.32:
            free = [k for k in range(NTRIG) if k not in trg]
            if free:                                     # (the same trigger registered twice is a witness of its own)
                k = rng.choice(free)
                ops.append(("t_trig", k))
                trg.add(k)
        elif r < 0.42:
            ops.append(("t_valid", rng.choice(CRON_IDX + [6, 6]), rng.randrange(8)))
            nvalid += 1
        elif r < 0.47 and nvalid:
            ops.append(("t_clear", rng.sample(range(nvalid), rng.randint(1, min(2, nvalid)))))
        elif r < 0.59:
            ops.append(("t_claim", rng.randrange(2), rng.choice([0, 1, 1, 60])))
        elif r < 0.69 and crons:
            ops.append(("t_cron_store", rng.choice(crons), rng.randrange(len(INSTANTS)),
                        rng.choice(["none", "cur", "cur", rng.randrange(len(INSTANTS))])))
        elif r < 0.84:
            ops.append(("t_check", rng.randrange(len(INSTANTS))))
        elif r < 0.95:
            ops.append(("tick", rng.choice([0, 1, 63, 64, 65, 64 * 60])))
        elif r < 0.98:
            task = rng.randrange(2)
            ops.append(("t_clean", task))
            trg -= ({2, 3} if task == 0 else {0, 1})
        else:
            ops.append(("t_purge",))
            reg, trg = set(), set()
    return ops


SCENARIOS = [
    # every condition and trigger registered, read back, polled at and around the schedule points, claimed, purged
    [("t_cond", c) for c in (1, 2, 4, 6, 7, 8, 9, 3, 0)] + [("t_trig", k) for k in range(NTRIG)]
    + [("t_check", i) for i in range(len(INSTANTS))] + [("t_claim", 0, 1), ("t_claim", 0, 1), ("tick", 63), ("t_claim", 0, 1),
                                                        ("tick", 1), ("t_claim", 0, 1), ("t_clean", 1), ("t_clean", 0), ("t_purge",)],
    [("t_cond", 1), ("t_cron_store", 1, 7, "none"), ("t_cron_store", 1, 8, "none"), ("t_cron_store", 1, 8, 7), ("t_cron_store", 1, 9, "cur"),
     ("t_check", 9), ("t_check", 9), ("t_valid", 1, 3), ("t_cond", 6), ("t_valid", 6, 1), ("t_valid", 6, 2), ("t_clear", [0, 1]),
     ("t_cond", 4), ("t_trig", 1), ("t_clean", 1), ("t_trig", 1)],
]
# divergences of the unchanged tree, one witness each (key -> sequence); everything else is compared strictly
FINDING_CASES = {
    "trigger:status-condition-with-empty-status-list-unreadable-from-sqlite": [("t_cond", 5)],
    "trigger:cron-execution-stored-for-unregistered-condition": [("t_cron_store", 1, 8, "none")],
    "trigger:same-trigger-registered-twice-listed-twice-in-memory": [("t_cond", 0), ("t_trig", 0), ("t_trig", 0)],
}


def gen_cases(rng, thorough: bool):
    """-> list of (expected finding key or None, ops)"""
    cases = [(k, list(s)) for k, s in FINDING_CASES.items()]
    cases += [(None, list(s)) for s in SCENARIOS]
    # every single condition alone: registered, read back, polled at every instant
    for c in COND_POOL:
        cases.append((None, [("t_cond", c)] + [("t_check", i) for i in range(len(INSTANTS))]))
    for _ in range(60 if thorough else 12):
        cases.append((None, gen_case(rng, rng.randint(10, 60))))
    return cases


def first_difference(mem_trace, sql_trace):
    """-> (step, what, mem value, sqlite value) or None"""
    for j, (a, b) in enumerate(zip(mem_trace, sql_trace)):
        if a[0] != b[0]:
            return j, "result", a[0], b[0]
        for key in a[1]:
            if a[1][key] != b[1][key]:
                va, vb = a[1][key], b[1][key]
                if isinstance(va, list) and isinstance(vb, list) and len(va) == len(vb):
                    for i, (x, y) in enumerate(zip(va, vb)):
                        if x != y:
                            return j, f"{key}[{i}]", x, y
                return j, key, va, vb
    return None

"""Task bodies for the crash-point scenarios (C03).  EFFECT is set by the harness: it is called when a body has run to
its end (the model's EBody effect) — the victim may be crashed right there."""
from __future__ import annotations

from harness.tasks_conc import _inv_id

DONE: list[str] = []          # invocation ids whose body ran to its end (one entry per completed execution)
ATTEMPTS: dict = {}
EFFECT = None                  # callable(name) installed by the harness


class Again(Exception):
    pass


class Fatal(Exception):
    pass


def _end():
    DONE.append(_inv_id())
    if EFFECT is not None:
        EFFECT("body")


def plain(x: int) -> int:
    _end()
    return x + 1


def retry_once(x: int) -> int:
    i = _inv_id()
    n = ATTEMPTS.get(i, 0)
    ATTEMPTS[i] = n + 1
    _end()
    if n == 0:
        raise Again(x)
    return x


def fails(x: int) -> int:
    _end()
    raise Fatal(x)


def serial(x: int) -> int:
    _end()
    return x


def serial_final(x: int) -> int:
    _end()
    return x

"""Task bodies for the interleaving scenarios.  BODY_LOG records entries/exits; a body yields to the
scheduler in the middle so other actors can run while it is 'executing'."""
from __future__ import annotations

BODY_LOG: list[tuple] = []
ATTEMPTS: dict = {}


def _inv_id() -> str:
    from pynenc import context
    app = context.get_current_app()
    inv = context.get_dist_invocation_context(app.app_id) if app else None
    return inv.invocation_id if inv else "?"


def _yield(label: str) -> None:
    from harness.sched import Sched
    s = Sched.current
    if s is not None:
        s.yield_point(label)


def work(x: int) -> int:
    i = _inv_id()
    BODY_LOG.append(("enter", i))
    _yield("body")
    BODY_LOG.append(("exit", i))
    return x * 2


def work2(a: int, b: int = 0) -> int:
    i = _inv_id()
    BODY_LOG.append(("enter", i))
    _yield("body")
    BODY_LOG.append(("exit", i))
    return a * 100 + b


class Boom(Exception):
    pass


def flaky(x: int, fail_times: int) -> int:
    """raises Boom on the first `fail_times` executions of this invocation"""
    i = _inv_id()
    BODY_LOG.append(("enter", i))
    n = ATTEMPTS.get(i, 0)
    ATTEMPTS[i] = n + 1
    _yield("body")
    BODY_LOG.append(("exit", i))
    if n < fail_times:
        raise Boom(x, n)
    return x


def value(v):
    i = _inv_id()
    BODY_LOG.append(("enter", i))
    _yield("body")
    BODY_LOG.append(("exit", i))
    return v


def raiser(kind: str, args: list):
    import builtins
    i = _inv_id()
    BODY_LOG.append(("enter", i))
    _yield("body")
    BODY_LOG.append(("exit", i))
    from harness import tasks_conc as me
    cls = getattr(builtins, kind, None) or getattr(me, kind, None)
    if cls is None:
        import pynenc.exceptions as pe
        cls = getattr(pe, kind)
    raise cls(*args)


class CustomError(Exception):
    pass


import enum as _enum


class Color(_enum.Enum):
    RED = "red"
    BLUE = "blue"


class Level(_enum.IntEnum):
    LOW = 1
    HIGH = 7


def value_by_attempt(plan: list):
    """plan[k] = ["value", v] or ["raise", kind, args] for the k-th execution of this invocation (last entry repeats)"""
    import builtins
    i = _inv_id()
    n = ATTEMPTS.get(i, 0)
    ATTEMPTS[i] = n + 1
    BODY_LOG.append(("enter", i))
    step = plan[min(n, len(plan) - 1)]
    BODY_LOG.append(("exit", i))
    if step[0] == "value":
        return step[1]
    cls = getattr(builtins, step[1])
    raise cls(*step[2])

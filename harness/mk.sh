#!/bin/bash
# mk.sh <target.vo> : regenerate Makefile from the directory, build target, show the first error
cd /verif && PYTHONPATH=/verif:${VERIF_REPO:-/repo} /venv/bin/python -c "
from harness import common
common.ensure_makefile()"
cd /verif/coq && for t in "$@"; do rm -f "$t"; done; timeout 600 make -j8 "$@" 2>&1 | grep -v "^COQ" | grep -B2 -A${MK_LINES:-25} "^File" | head -${MK_HEAD:-45}
for t in "$@"; do ls "$t" >/dev/null 2>&1 && echo "built $t"; done

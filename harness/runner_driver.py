"""A real ThreadRunner under the deterministic scheduler (C09 part 2, C11, C03).

The runner loop and every task thread it starts are scheduler actors (threading.Thread is shimmed in
pynenc.runner.thread_runner); time.sleep in the runner modules is a yield; primitive reads that busy-wait loops go
through (status reads, queue pops) are yield points."""
from __future__ import annotations

import threading as _threading
import time as _time

from harness import sched as S
from harness import world


class ActorThreadShim:
    """replacement for `threading` in a pynenc module: Thread objects become scheduler actors"""

    def __init__(self, real, prefix: str):
        self._real, self._prefix = real, prefix

    def __getattr__(self, name):
        return getattr(self._real, name)

    def Thread(self, target=None, args=(), kwargs=None, daemon=None, name=None, **kw):  # noqa: N802
        shim = self

        class T:
            def __init__(self):
                self.actor, self.rt, self.name = None, None, name or "actor-thread"
                self.daemon = daemon

            def start(self):
                s = S.Sched.current
                if s is not None:
                    self.actor = s.spawn(f"{shim._prefix}-{len(s.actors)}", lambda: target(*args, **(kwargs or {})))
                    self.name = self.actor.name
                else:
                    self.rt = shim._real.Thread(target=target, args=args, kwargs=kwargs or {}, daemon=True)
                    self.rt.start()

            def join(self, timeout=None):
                if self.rt is not None:
                    return self.rt.join(timeout)
                if self.actor is None:
                    return None
                s = S.Sched.current
                if s is not None and s.me() is not None:
                    s.block_until(lambda: self.actor.state == "done" or self.actor.crashed, "join:" + self.actor.name)
                elif self.actor.thread is not None:
                    self.actor.thread.join(timeout or 5.0)

            def is_alive(self):
                if self.rt is not None:
                    return self.rt.is_alive()
                return self.actor is not None and self.actor.state != "done" and not self.actor.crashed
        return T()


class TimeShim:
    def __init__(self, real):
        self._real = real

    def __getattr__(self, name):
        return getattr(self._real, name)

    def sleep(self, secs):
        s = S.Sched.current
        if s is not None and s.me() is not None:
            s.yield_point("sleep")
        else:
            self._real.sleep(min(secs, 0.001))


def install_shims():
    import pynenc.runner.base_runner as br
    import pynenc.runner.thread_runner as tr
    if not isinstance(tr.threading, ActorThreadShim):
        tr.threading = ActorThreadShim(tr.threading, "task")
    for mod in (br, tr):
        if not isinstance(mod.time, TimeShim):
            mod.time = TimeShim(mod.time)
    S.SQL_YIELD = False


class RunnerWorld:
    def __init__(self, kind: str, scratch: str, slots: int = 1, **conf):
        from pynenc.runner.thread_runner import ThreadRunner
        install_shims()
        if kind == "sqlite":
            S.instrument_sqlite()
        self.kind = kind
        self.app = world.make_app(kind, scratch, runner_cls="ThreadRunner", min_parallel_slots=1, min_threads=1,
                                  max_threads=slots, runner_loop_sleep_time_sec=0.0, invocation_wait_results_sleep_time_sec=0.0,
                                  **conf)
        app = self.app
        for name in ("report_tasks_status", "report_invocation_result", "report_invocation_failure"):
            setattr(app.trigger, name, lambda *a, **k: None)
        app.state_backend.add_history = lambda *a, **k: None
        app.state_backend.add_histories = lambda *a, **k: None
        self.runner = ThreadRunner(app)
        app.runner = self.runner
        self.runner._check_atomic_services = lambda: None
        self.sched = S.Sched()
        s = self.sched
        for obj, name in ((app.orchestrator, "get_invocation_status_record"), (app.broker, "retrieve_invocation"),
                          (app.orchestrator, "_atomic_status_transition"), (app.orchestrator, "filter_by_status"),
                          (self.runner, "_waiting_for_results")):
            real = getattr(obj, name)

            def wrapped(*a, _real=real, _name=name, **k):
                s.yield_point(_name)
                return _real(*a, **k)
            setattr(obj, name, wrapped)
        self.tlog: list = []
        real_t = app.orchestrator._atomic_status_transition

        def logged(invocation_id, status, runner_id=None):
            try:
                rec = real_t(invocation_id, status, runner_id)
            except BaseException as ex:  # noqa: BLE001
                self.tlog.append((invocation_id, status.name, runner_id, False, type(ex).__name__))
                raise
            self.tlog.append((invocation_id, status.name, runner_id, True, rec.runner_id))
            return rec
        app.orchestrator._atomic_status_transition = logged

    def start_runner(self):
        def body():
            self.runner.run()
        return self.sched.spawn("runner", body)

    def status(self, inv_id):
        r = self.app.orchestrator.get_invocation_status_record.__wrapped__(inv_id) if hasattr(
            self.app.orchestrator.get_invocation_status_record, "__wrapped__") else None
        return r

    def raw_status(self, inv_id):
        orch = self.app.orchestrator
        if self.kind == "mem":
            r = orch.invocation_status_record.get(inv_id)
            return (r.status.name, r.runner_id) if r else None
        from pynenc.util.sqlite_utils import create_sqlite_connection
        with create_sqlite_connection(orch.sqlite_db_path) as conn:
            row = conn.execute(f"SELECT status, status_runner_id FROM {orch.tables.INVOCATIONS} WHERE invocation_id = ?", (inv_id,)).fetchone()
        return (row[0].upper(), row[1]) if row else None

    def queue(self):
        b = self.app.broker
        if self.kind == "mem":
            return [str(x) for x in b._queue]
        from pynenc.util.sqlite_utils import create_sqlite_connection
        with create_sqlite_connection(b.sqlite_db_path) as conn:
            return [x[0] for x in conn.execute(f"SELECT invocation_id FROM {b.tables.QUEUE} ORDER BY created_at, id").fetchall()]

    def all_invocations(self):
        orch = self.app.orchestrator
        if self.kind == "mem":
            return list(orch.invocation_status_record.keys())
        from pynenc.util.sqlite_utils import create_sqlite_connection
        with create_sqlite_connection(orch.sqlite_db_path) as conn:
            return [r[0] for r in conn.execute(f"SELECT invocation_id FROM {orch.tables.INVOCATIONS}").fetchall()]

    def close(self):
        self.sched.shutdown()


def fair_chooser(kind: str, rng, hook):
    """round-robin or seeded random over the runnable actors; `hook(sched)` runs before every decision and may
    return 'stop' to end the run"""
    last = [-1]

    def choose(runnable, s):
        if hook(s) == "stop":
            return None
        if kind == "rr":
            ids = sorted(a.idx for a in runnable)
            nxt = next((i for i in ids if i > last[0]), ids[0])
            last[0] = nxt
            return next(a for a in runnable if a.idx == nxt)
        return rng.choice(runnable)
    return choose


_ = (_threading, _time)

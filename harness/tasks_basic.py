"""Plain module-level functions turned into pynenc tasks per app by `bind` (a Task cannot be
created from __main__, and workers resolve tasks by module + function name)."""
from __future__ import annotations


def add_one(x: int) -> int:
    return x + 1


def ident(x):
    return x


def pair(a: int, b: int = 0) -> int:
    return a * 100 + b


def noop() -> None:
    return None


def bind(app, func, **options):
    """Create (or fetch) the Task for `func` on `app`."""
    return app.task(func, **options) if options else app.task(func)

#!/bin/bash
# usage: coqshow.sh File.v LINE  — print the goal just before LINE (1-based) of coq/File.v
f=$1; n=$2
cd /verif/coq
head -n $((n-1)) "$f" > tmp/Show_$$.v
echo "Show. " >> tmp/Show_$$.v
echo "Abort." >> tmp/Show_$$.v
timeout 120 coqc -q -Q . PV tmp/Show_$$.v 2>&1 | tail -40
rm -f tmp/Show_$$.* tmp/.Show_$$.*

"""Entry point: python -m harness.run Cxx [--tier quick|thorough] [--replay file]"""
from __future__ import annotations

import argparse
import importlib
import os
import sys
import traceback

from harness.common import CheckError, Ctx


def main() -> int:
    ap = argparse.ArgumentParser()
    ap.add_argument("prop")
    ap.add_argument("--tier", default=os.environ.get("VERIF_TIER", "quick"), choices=["quick", "thorough"])
    ap.add_argument("--replay", default=None)
    a = ap.parse_args()
    mod = importlib.import_module(f"harness.props.{a.prop.lower()}")
    ctx = Ctx(a.prop.upper(), a.tier)
    try:
        if a.replay:
            return mod.replay(ctx, a.replay)
        return mod.main(ctx)
    except CheckError as ex:
        print(f"HARNESS-ERROR {a.prop}: {ex}", file=sys.stderr)
        return 2
    except Exception:
        traceback.print_exc()
        print(f"HARNESS-ERROR {a.prop}: unexpected exception (not a verdict)", file=sys.stderr)
        return 2


if __name__ == "__main__":
    sys.exit(main())

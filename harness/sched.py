"""Deterministic scheduler over real threads (validation / failing-input search, never the proof).

Actors are real `threading.Thread`s that run one at a time under a baton.  Yield points:
  * explicit `sched.yield_point(label)` (wrapped component methods),
  * every SQL statement (SQLiteConnection.execute / commit patched by `instrument_sqlite`), with write-lock
    tracking so an actor that would block inside SQLite's busy handler is *parked* instead (runnable set
    excludes it) — `BEGIN IMMEDIATE` and the first DML statement of a connection take the lock, commit /
    rollback / context exit release it,
  * every source line of selected functions (`trace_functions`, sys.settrace) for the in-memory backends,
    with `threading.Lock` replaced by a cooperative lock in those modules (`CoopLock`).
A schedule is the list of actor indices chosen at each decision; `explore` enumerates schedules
depth-first with a bound on pre-emptions (CHESS style), re-executing the scenario from a fresh state.
"""
from __future__ import annotations

import sys
import threading
import time
from typing import Callable

WATCHDOG_S = 60.0
SQL_YIELD = True      # False: SQL statements are not yield points (coarse, method-level scheduling)


class HarnessStuck(Exception):
    pass


class Actor:
    def __init__(self, idx: int, name: str, fn: Callable[[], object]):
        self.idx, self.name, self.fn = idx, name, fn
        self.event = threading.Event()
        self.state = "ready"           # ready | running | blocked | done
        self.pred: Callable[[], bool] | None = None
        self.label = "start"
        self.result = None
        self.exc: BaseException | None = None
        self.thread: threading.Thread | None = None
        self.crashed = False


class Sched:
    current: "Sched | None" = None      # the scheduler in charge (one at a time)

    def __init__(self):
        self.actors: list[Actor] = []
        self.main_evt = threading.Event()
        self.tls = threading.local()
        self.trace: list[int] = []          # chosen actor per decision
        self.decisions: list[tuple[list[int], int, int | None]] = []   # (runnable, chosen, previous)
        self.events: list[tuple[int, str]] = []                         # (actor, label) in execution order
        self.trace_targets: set[tuple[str, str]] = set()                # (filename suffix, function name)
        self.db_lock_owner: dict[str, int] = {}                          # db path -> actor idx holding the write lock
        self.aborting = False

    # ------------------------------------------------------------- actor side
    def me(self) -> Actor | None:
        return getattr(self.tls, "actor", None)

    def spawn(self, name: str, fn: Callable[[], object]) -> Actor:
        a = Actor(len(self.actors), name, fn)
        self.actors.append(a)

        def body():
            self.tls.actor = a
            a.event.wait()
            a.event.clear()
            a.state = "running"
            if self.trace_targets:
                sys.settrace(self._tracer)
            try:
                if not self.aborting:
                    a.result = a.fn()
            except _Abort:
                pass
            except BaseException as ex:  # noqa: BLE001 - recorded for the oracle
                a.exc = ex
            finally:
                sys.settrace(None)
                a.state = "done"
                self.main_evt.set()

        a.thread = threading.Thread(target=body, name=f"actor-{name}", daemon=True)
        a.thread.start()
        return a

    def _park(self, a: Actor) -> None:
        self.main_evt.set()
        a.event.wait()
        a.event.clear()
        if self.aborting:
            raise _Abort()
        a.state = "running"

    def yield_point(self, label: str) -> None:
        a = self.me()
        if a is None or a.state != "running":
            return
        a.label = label
        self.events.append((a.idx, label))
        a.state = "ready"
        self._park(a)

    def block_until(self, pred: Callable[[], bool], label: str) -> None:
        a = self.me()
        if a is None:
            # not an actor (setup code): must not block
            if not pred():
                raise HarnessStuck(f"non-actor would block on {label}")
            return
        while not pred():
            a.label = "blocked:" + label
            a.pred = pred
            a.state = "blocked"
            self._park(a)
        a.pred = None

    def _tracer(self, frame, event, arg):
        if event != "call":
            return None
        co = frame.f_code
        for (fname, func) in self.trace_targets:
            if co.co_name == func and co.co_filename.endswith(fname):
                return self._line_tracer
        return None

    def _line_tracer(self, frame, event, arg):
        if event == "line":
            self.yield_point(f"{frame.f_code.co_name}:{frame.f_lineno}")
        return self._line_tracer

    # ------------------------------------------------------------- scheduler side
    def runnable(self) -> list[Actor]:
        out = []
        for a in self.actors:
            if a.crashed:
                continue
            if a.state == "ready":
                out.append(a)
            elif a.state == "blocked" and a.pred is not None:
                try:
                    if a.pred():
                        out.append(a)
                except Exception:
                    pass
        return out

    def crash(self, a: Actor) -> None:
        """Hard-crash an actor: it is never scheduled again; locks it holds in SQLite are released
        by closing its connections (done by the caller through instrument hooks)."""
        a.crashed = True
        for db, owner in list(self.db_lock_owner.items()):
            if owner == a.idx:
                del self.db_lock_owner[db]

    def step(self, a: Actor) -> None:
        self.trace.append(a.idx)
        self.main_evt.clear()
        a.event.set()
        if not self.main_evt.wait(WATCHDOG_S):
            self.aborting = True
            import traceback
            frame = sys._current_frames().get(a.thread.ident) if a.thread else None
            where = "".join(traceback.format_stack(frame)[-8:]) if frame else ""
            raise HarnessStuck(f"actor {a.name} did not yield within {WATCHDOG_S}s at {a.label}\n{where}")

    def run(self, chooser: Callable[[list[Actor], "Sched"], Actor | None], max_steps: int = 100000) -> str:
        """Run until every actor is done ('done'), nothing is runnable ('deadlock'), chooser returns
        None ('stopped') or the step budget is exhausted ('budget')."""
        Sched.current = self
        prev: int | None = None
        try:
            for _ in range(max_steps):
                r = self.runnable()
                if not r:
                    return "done" if all(a.state == "done" or a.crashed for a in self.actors) else "deadlock"
                a = chooser(r, self)
                if a is None:
                    return "stopped"
                plabel = self.actors[prev].label if prev is not None else ""
                self.decisions.append(([x.idx for x in r], a.idx, prev, plabel))
                prev = a.idx
                self.step(a)
            return "budget"
        finally:
            Sched.current = None

    def shutdown(self) -> None:
        """Release every parked actor thread (they unwind through _Abort)."""
        self.aborting = True
        for a in self.actors:
            if a.state != "done":
                a.event.set()
        for a in self.actors:
            if a.thread is not None:
                a.thread.join(timeout=2.0)


class _Abort(BaseException):
    pass


# ----------------------------------------------------------------- choosers
def replay_chooser(schedule: list[int]):
    """Follow `schedule` (actor indices); afterwards keep running the previous actor if runnable, else
    the lowest-index runnable one (non-pre-emptive default)."""
    pos = [0]

    def choose(runnable: list[Actor], s: Sched):
        ids = [a.idx for a in runnable]
        k = pos[0]
        pos[0] += 1
        if k < len(schedule) and schedule[k] in ids:
            return runnable[ids.index(schedule[k])]
        last = s.trace[-1] if s.trace else None
        if last in ids:
            return runnable[ids.index(last)]
        return runnable[0]
    return choose


def random_chooser(rng, switch_p: float = 0.3):
    def choose(runnable: list[Actor], s: Sched):
        ids = [a.idx for a in runnable]
        last = s.trace[-1] if s.trace else None
        if last in ids and rng.random() > switch_p:
            return runnable[ids.index(last)]
        return rng.choice(runnable)
    return choose


def explore(run_one: Callable[[list[int]], tuple[list, object]],
            max_preemptions: int = 2, max_runs: int = 2000, preempt_at: Callable[[str], bool] | None = None):
    """Depth-first enumeration of schedules with at most `max_preemptions` pre-emptions.
    run_one(prefix) executes the scenario from a fresh state following `prefix` then the non-pre-emptive
    default, and returns (decisions, outcome).  Yields (schedule, outcome)."""
    stack: list[list[int]] = [[]]
    seen: set[tuple[int, ...]] = set()
    runs = 0
    while stack and runs < max_runs:
        prefix = stack.pop()
        decisions, outcome = run_one(prefix)
        runs += 1
        full = [d[1] for d in decisions]
        yield full, outcome
        # count pre-emptions along the executed schedule
        pre = 0
        pre_at = []
        for (runnable, chosen, prev, _lbl) in decisions:
            if prev is not None and prev in runnable and chosen != prev:
                pre += 1
            pre_at.append(pre)
        for k in range(len(decisions) - 1, len(prefix) - 1, -1):
            runnable, chosen, prev, plabel = decisions[k]
            base = pre_at[k - 1] if k > 0 else 0
            for alt in runnable:
                if alt == chosen:
                    continue
                cost = 1 if (prev is not None and prev in runnable and alt != prev) else 0
                if base + cost > max_preemptions:
                    continue
                if cost and preempt_at is not None and not preempt_at(plabel):
                    continue          # only pre-empt inside the code under scrutiny
                cand = full[:k] + [alt]
                t = tuple(cand)
                if t not in seen:
                    seen.add(t)
                    stack.append(cand)


# ----------------------------------------------------------------- SQLite instrumentation
_sqlite_patched = False


def instrument_sqlite() -> None:
    """Patch pynenc.util.sqlite_utils.SQLiteConnection so that every statement is a yield point of the
    scheduler in charge and write-lock contention parks the actor instead of spinning in SQLite."""
    global _sqlite_patched
    if _sqlite_patched:
        return
    from pynenc.util import sqlite_utils as su
    cls = su.SQLiteConnection
    orig_execute = cls.execute
    orig_exit = cls.__exit__

    def dbkey(self) -> str:
        k = getattr(self, "_verif_db", None)
        if k is None:
            try:
                k = self._conn.execute("PRAGMA database_list").fetchall()[0][2]
            except Exception:
                k = "?"
            self._verif_db = k
        return k

    def is_write(sql: str) -> bool:
        head = sql.lstrip().split(None, 1)[0].upper() if sql.strip() else ""
        return head in ("INSERT", "UPDATE", "DELETE", "REPLACE", "CREATE", "DROP", "ALTER") or \
            sql.lstrip().upper().startswith("BEGIN IMMEDIATE") or sql.lstrip().upper().startswith("BEGIN EXCLUSIVE")

    def execute(self, sql, parameters=(), /):
        s = Sched.current
        a = s.me() if s is not None else None
        if a is None:
            return orig_execute(self, sql, parameters)
        if not SQL_YIELD:
            return orig_execute(self, sql, parameters)
        db = dbkey(self)
        head = " ".join(sql.split())[:60]
        s.yield_point("sql:" + head)
        if is_write(sql) and not getattr(self, "_verif_holds", False):
            s.block_until(lambda: s.db_lock_owner.get(db) in (None, a.idx), "dblock:" + head)
            s.db_lock_owner[db] = a.idx
            self._verif_holds = True
        return orig_execute(self, sql, parameters)

    def release(self):
        s = Sched.current
        if getattr(self, "_verif_holds", False):
            self._verif_holds = False
            if s is not None:
                db = dbkey(self)
                a = s.me()
                if a is not None and s.db_lock_owner.get(db) == a.idx:
                    del s.db_lock_owner[db]

    def commit(self):
        s = Sched.current
        if SQL_YIELD and s is not None and s.me() is not None:
            s.yield_point("sql:COMMIT")
        try:
            return self._conn.commit()
        finally:
            release(self)

    def rollback(self):
        try:
            return self._conn.rollback()
        finally:
            release(self)

    def __exit__(self, exc_type, exc_val, exc_tb):
        try:
            return orig_exit(self, exc_type, exc_val, exc_tb)
        finally:
            release(self)

    cls.execute = execute
    cls.commit = commit
    cls.rollback = rollback
    cls.__exit__ = __exit__
    _sqlite_patched = True


# ----------------------------------------------------------------- cooperative lock for the in-memory modules
class CoopLock:
    """Drop-in for threading.Lock/RLock inside traced in-memory modules: acquiring a held lock parks the
    actor (so the runnable set excludes it) instead of blocking the OS thread."""

    def __init__(self, reentrant: bool = False):
        self._owner = None
        self._count = 0
        self._reentrant = reentrant
        self._real = threading.RLock()

    def _me(self):
        s = Sched.current
        a = s.me() if s is not None else None
        return ("actor", a.idx) if a is not None else ("thread", threading.get_ident())

    def acquire(self, blocking: bool = True, timeout: float = -1) -> bool:
        me = self._me()
        s = Sched.current
        if self._owner == me and self._reentrant:
            self._count += 1
            return True
        if s is not None and s.me() is not None:
            s.yield_point("lock.acquire")
            if self._owner is not None:
                if not blocking:
                    return False
                s.block_until(lambda: self._owner is None, "lock")
        else:
            t0 = time.time()
            while self._owner is not None:
                if not blocking or (timeout >= 0 and time.time() - t0 > timeout):
                    return False
                time.sleep(0.001)
        self._owner = me
        self._count = 1
        return True

    def release(self) -> None:
        self._count -= 1
        if self._count <= 0:
            self._owner = None
            self._count = 0

    def locked(self) -> bool:
        return self._owner is not None

    def __enter__(self):
        self.acquire()
        return self

    def __exit__(self, *a):
        self.release()


class _ThreadingShim:
    """Replaces the name `threading` inside a pynenc module: Lock/RLock become cooperative."""

    def __init__(self, real):
        self._real = real

    def Lock(self):  # noqa: N802
        return CoopLock(False)

    def RLock(self):  # noqa: N802
        return CoopLock(True)

    def __getattr__(self, name):
        return getattr(self._real, name)


def shim_threading(module) -> None:
    if not isinstance(getattr(module, "threading", None), _ThreadingShim):
        module.threading = _ThreadingShim(module.threading)

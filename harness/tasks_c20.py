"""Plain module-level functions for check C20 (turned into pynenc tasks per app with app.task)."""
from __future__ import annotations


def c20_ok(x: int) -> int:
    return x + 1


def c20_fail(x: int) -> int:
    raise ValueError(f"c20 failure {x}")


def c20_after(x: int = 0) -> int:
    """launched by a trigger on c20_ok's SUCCESS (only the trigger *store* matters to C20)"""
    return x


def bind_all(app):
    """ok, fail, after(triggered on the status of ok).  Returns dict name -> Task."""
    from pynenc.trigger.trigger_builder import TriggerBuilder
    ok = app.task(c20_ok)
    fail = app.task(c20_fail)
    try:
        trig = TriggerBuilder().on_status(ok, statuses=["SUCCESS"]).with_args_static({"x": 7})
        after = app.task(c20_after, triggers=trig)
    except Exception:  # noqa: BLE001 - trigger wiring is optional state, never a verdict
        after = app.task(c20_after)
    return {"ok": ok, "fail": fail, "after": after}

"""Virtual clock: the time pynenc's orchestrators / status records see is owned by the harness."""
from __future__ import annotations

import datetime as _dt


class VirtualClock:
    def __init__(self, start: float = 1_700_000_000.0):
        self.now = float(start)
        self._saved: list[tuple[object, str, object]] = []

    def time(self) -> float:
        return self.now

    def advance(self, dt: float) -> None:
        self.now += dt

    def install(self) -> "VirtualClock":
        clock = self
        real = _dt.datetime

        class VDatetime(real):  # type: ignore[misc,valid-type]
            @classmethod
            def now(cls, tz=None):
                return real.fromtimestamp(clock.now, tz)

        import pynenc.invocation.status as st
        import pynenc.orchestrator.mem_orchestrator as mo
        import pynenc.orchestrator.sqlite_orchestrator as so
        for mod, name, val in ((mo, "time", self.time), (so, "time", self.time), (st, "datetime", VDatetime)):
            self._saved.append((mod, name, getattr(mod, name)))
            setattr(mod, name, val)
        return self

    def uninstall(self) -> None:
        for mod, name, val in reversed(self._saved):
            setattr(mod, name, val)
        self._saved.clear()

    def __enter__(self):
        return self.install()

    def __exit__(self, *a):
        self.uninstall()


def us(t: float) -> int:
    """seconds (float, on the microsecond grid) -> integer microseconds"""
    return int(round(t * 1_000_000))

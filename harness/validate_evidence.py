"""python3-vt harness/validate_evidence.py [ids...] — validate evidence + manifest against the schemas."""
import json, sys, glob, os
import jsonschema
ev_schema = json.load(open('/root/.vp/EVIDENCE.schema.json'))
ok = True
files = [f"/verif/evidence/{i}.json" for i in sys.argv[1:]] or sorted(glob.glob('/verif/evidence/*.json'))
for f in files:
    try:
        jsonschema.validate(json.load(open(f)), ev_schema)
        print('valid', f)
    except Exception as e:
        ok = False
        print('INVALID', f, str(e)[:400])
if os.path.exists('/verif/MANIFEST.json'):
    try:
        jsonschema.validate(json.load(open('/verif/MANIFEST.json')), json.load(open('/root/.vp/MANIFEST.schema.json')))
        print('valid MANIFEST.json')
    except Exception as e:
        ok = False
        print('INVALID MANIFEST', str(e)[:400])
sys.exit(0 if ok else 1)

"""Driver for C06 / C07: runs ConcControl op sequences (Model/ConcControl.v: cop) on a real app.

Submissions go through task(...) / task.parallelize(...); a poll is the real get_invocations_to_run restricted to one
queue entry; worker start/finish/retry is the real DistributedInvocation.run parked inside the task body by the
scheduler; kill is the real BaseRunner._kill_and_reroute."""
from __future__ import annotations

from harness import conc_driver as D
from harness import sched as S
from harness import tasks_conc, world

MODES = ["DISABLED", "TASK", "ARGUMENTS", "KEYS"]
PLAN: dict = {}          # invocation id -> "ok" | "retry" (consulted by the parked body when it resumes)


NESTED_REQ: dict = {}    # running invocation id -> (task object, a, b): a submission to make from INSIDE its body
NESTED_OUT: dict = {}    # running invocation id -> the invocation (or exception) that submission produced


def cc_body(a: int, b: int) -> int:
    i = tasks_conc._inv_id()
    tasks_conc.BODY_LOG.append(("enter", i))
    tasks_conc._yield("body")
    while i in NESTED_REQ:
        t, x, y = NESTED_REQ.pop(i)
        try:
            NESTED_OUT[i] = t(x, y)
        except Exception as ex:  # noqa: BLE001
            NESTED_OUT[i] = ex
        tasks_conc._yield("body")
    tasks_conc.BODY_LOG.append(("exit", i))
    if PLAN.get(i) == "retry":
        PLAN[i] = "ok"
        raise tasks_conc.Boom(a, b)
    return a * 10 + b


def cc_body2(a: int, b: int) -> int:
    return cc_body(a, b)


FUNCS = [cc_body, cc_body2]


def coq_mode(m: str) -> str:
    return {"DISABLED": "MDisabled", "TASK": "MTask", "ARGUMENTS": "MArguments", "KEYS": "(MKeys [0])"}[m]


def coq_cfg(cfgs: list[dict]) -> str:
    def one(c):
        return (f"{{| reg_mode := {coq_mode(c['reg'])}; reg_raise := {'true' if c['raise'] else 'false'}; "
                f"run_mode := {coq_mode(c['run'])}; run_reroute := {'true' if c['reroute'] else 'false'} |}}")
    return f"(fun t => match t with 0 => {one(cfgs[0])} | _ => {one(cfgs[1])} end)"


def coq_op(o) -> str:
    k = o[0]
    if k == "submit":
        return f"OSubmit {o[1]} [{o[2][0]}; {o[2][1]}]"
    if k == "batch":
        return f"OBatch {o[1]} [" + "; ".join(f"[{a}; {b}]" for a, b in o[2]) + "]"
    if k == "poll":
        return f"OPoll {o[1]}"
    return {"start": "OStart", "finish": "OFinish", "retry": "ORetry", "kill": "OKill"}[k] + f" {o[1]}"


OUT_RENDER = ("(map (fun o => match o with CNew i => [0;i] | CReused i => [1;i] | CRaised => [2;0] | CBatch ids => 3 :: ids "
              "| CBatchRefused => [4;0] | CClaimed i => [5;i] | CBlockedFinal i => [6;i] | CBlockedRequeued i => [7;i] "
              "| CSkipped => [8;0] | CEmpty => [9;0] | CPollRaises i => [10;i] | CDone => [11;0] | CRefused => [12;0] end))")


def model_expr(cfgs, ops, facts="batch_path_indexes_args single_path_indexes_args gen_reg_sts gen_cand_sts gen_auth_sts") -> str:
    return (f"(fun r => ({OUT_RENDER} (snd r), map (fun i => status_code (cst i)) (invs (fst r)), cqueue (fst r))) "
            f"(crun {coq_cfg(cfgs)} {facts} cstate0 [{'; '.join(coq_op(o) for o in ops)}])")


class Runner:
    def __init__(self, kind: str, scratch: str, cfgs: list[dict], **conf):
        from pynenc.conf.config_task import ConcurrencyControlType as CT
        self.w = D.World(kind, scratch, **conf)
        NESTED_REQ.clear()
        NESTED_OUT.clear()
        self.app = self.w.app
        self.kind = kind
        self.cfgs = cfgs
        PLAN.clear()
        self.tasks = []
        for f, c in zip(FUNCS, cfgs):
            self.tasks.append(self.app.task(f, registration_concurrency=CT[c["reg"]], running_concurrency=CT[c["run"]],
                                            key_arguments=("a",), on_diff_non_key_args_raise=c["raise"],
                                            reroute_on_concurrency_control=c["reroute"], max_retries=50,
                                            retry_for=(tasks_conc.Boom,)))
        self.ids: list[str] = []
        self.s = S.Sched()
        self.actors: dict[str, S.Actor] = {}
        self.owner: dict[str, str] = {}
        S.Sched.current = self.s

    def _st(self, inv_id):
        try:
            return self.w.status(inv_id)[0]
        except KeyError:
            return "PURGED"

    def idx(self, inv_id) -> int:
        if inv_id not in self.ids:
            self.ids.append(inv_id)
        return self.ids.index(inv_id)

    def close(self):
        S.Sched.current = None
        self.s.shutdown()

    def _run_actor_until_parked(self, a: S.Actor):
        """let actor `a` run until it parks at the body yield or finishes (its SQL/line yields are passed through)"""
        for _ in range(10000):
            if a.state == "done":
                return
            if a.state == "ready" and a.label == "body" and getattr(a, "_parked_once", False) is False:
                a._parked_once = True
                return
            if a.state == "blocked" and not (a.pred and a.pred()):
                raise RuntimeError("worker blocked")
            self.s.step(a)
        raise RuntimeError("worker did not park")

    def _resume(self, a: S.Actor):
        for _ in range(10000):
            if a.state == "done":
                return
            self.s.step(a)
        raise RuntimeError("worker did not finish")

    def apply(self, o, spelling: int = 0):
        from pynenc.exceptions import InvocationConcurrencyWithDifferentArgumentsError
        from pynenc.invocation.dist_invocation import ReusedInvocation
        app, k = self.app, o[0]
        if k == "submit":
            t, (a, b) = self.tasks[o[1]], o[2]
            try:
                inv = [lambda: t(a, b), lambda: t(a=a, b=b), lambda: t(a, b=b), lambda: t(b=b, a=a)][spelling % 4]()
            except InvocationConcurrencyWithDifferentArgumentsError:
                return [2, 0]
            known = inv.invocation_id in self.ids
            i = self.idx(inv.invocation_id)
            return [1, i] if (isinstance(inv, ReusedInvocation) or known) else [0, i]
        if k == "batch":
            t = self.tasks[o[1]]
            group = t.parallelize([tuple(x) for x in o[2]])
            return [3] + [self.idx(i.invocation_id) for i in group.invocations]
        if k == "poll":
            r = f"r{o[1]}"
            real = app.broker.retrieve_invocation
            popped = []

            def limited():
                if popped:
                    return None
                x = real()
                popped.append(x)
                return x
            app.broker.retrieve_invocation = limited
            before = {i: self._st(i) for i in self.ids}
            n0 = len(self.w.tlog)
            try:
                got = [inv.invocation_id for inv in app.orchestrator.get_invocations_to_run(1, world.runner_ctx(r))]
                exc = None
            except BaseException as ex:  # noqa: BLE001
                got, exc = [], ex
            finally:
                del app.broker.retrieve_invocation
            pid = popped[0] if popped else None
            if pid is None:
                return [9, 0]
            i = self.idx(str(pid))
            if exc is not None:
                return [10, i]
            if got:
                self.owner[got[0]] = r
                return [5, self.idx(got[0])]
            after = self._st(str(pid))
            if after == "CONCURRENCY_CONTROLLED_FINAL" and before.get(str(pid)) != after:
                return [6, i]
            if after == "REROUTED" and any(x[0] == str(pid) and x[1] == "CONCURRENCY_CONTROLLED" and x[3] for x in self.w.tlog[n0:]):
                return [7, i]
            return [8, 0]
        if k == "autopurge":
            # every final invocation is due (the app is built with auto_final_invocation_purge_hours=0)
            app.orchestrator.auto_purge()
            return [11, 0]
        inv_id = self.ids[o[1]] if o[1] < len(self.ids) else None
        if inv_id is None:
            return [12, 0]
        try:
            st, own = self.w.status(inv_id)
        except KeyError:
            return [12, 0]
        if k == "nested":
            # a submission made from inside the body of a RUNNING invocation (the child gets it as parent)
            a_ = self.actors.get(inv_id)
            if st != "RUNNING" or a_ is None or a_.state == "done":
                return [12, 0]
            NESTED_REQ[inv_id] = (self.tasks[o[2]], o[3][0], o[3][1])
            for _ in range(10000):                      # resume the parked body until it parks again after the submission
                if a_.state == "done" or (inv_id in NESTED_OUT and a_.state == "ready" and a_.label == "body"):
                    break
                if a_.state == "blocked" and not (a_.pred and a_.pred()):
                    break
                self.s.step(a_)
            out = NESTED_OUT.pop(inv_id, None)
            if isinstance(out, InvocationConcurrencyWithDifferentArgumentsError):
                return [2, 0]
            if out is None or isinstance(out, BaseException):
                return [12, 0]
            known = out.invocation_id in self.ids
            i = self.idx(out.invocation_id)
            return [1, i] if (isinstance(out, ReusedInvocation) or known) else [0, i]
        if k == "start":
            if st != "PENDING":
                return [12, 0]
            inv = app.state_backend.get_invocation(inv_id)
            a = self.s.spawn(f"w-{inv_id[:6]}", self.w.worker(inv, own))
            a._parked_once = False
            self.actors[inv_id] = a
            self._run_actor_until_parked(a)
            st2 = self.w.status(inv_id)[0]
            return [11, 0] if st2 == "RUNNING" else ([7, o[1]] if st2 == "REROUTED" else [12, 0])
        if k in ("finish", "retry"):
            if st != "RUNNING" or inv_id not in self.actors or self.actors[inv_id].state == "done":
                return [12, 0]
            PLAN[inv_id] = "retry" if k == "retry" else "ok"
            self._resume(self.actors[inv_id])
            return [11, 0]
        if k == "kill":
            if st not in ("PENDING", "RUNNING"):
                return [12, 0]
            from pynenc.runner.base_runner import BaseRunner

            class Stub:
                pass
            stub = Stub()
            stub.app, stub.runner_context, stub.logger = app, world.runner_ctx(own), app.logger
            BaseRunner._kill_and_reroute(stub, inv_id)
            return [11, 0]
        raise ValueError(o)

    def observe(self):
        from harness.translate.status_table import STATUSES
        def code(i):
            try:
                return STATUSES.index(self.w.status(i)[0])
            except KeyError:
                return 99                      # purged
        sts = [code(i) for i in self.ids]
        q = [self.ids.index(x) for x in self.w.queue() if x in self.ids]
        return sts, q


def gen_ops(rng, cfgs, n):
    ops = []
    n_inv = 0
    for _ in range(n):
        r = rng.random()
        if r < 0.32 or n_inv == 0:
            ops.append(("submit", rng.randrange(2), (rng.randint(1, 2), rng.randint(1, 2))))
            n_inv += 1
        elif r < 0.40:
            t = rng.randrange(2)
            if cfgs[t]["reg"] == "DISABLED":
                k = rng.randint(2, 3)
                ops.append(("batch", t, [(rng.randint(1, 2), rng.randint(1, 2)) for _ in range(k)]))
                n_inv += k
            else:
                ops.append(("poll", rng.randint(1, 2)))
        elif r < 0.68:
            ops.append(("poll", rng.randint(1, 2)))
        elif r < 0.82:
            ops.append(("start", rng.randrange(max(1, n_inv))))
        elif r < 0.90:
            ops.append(("finish", rng.randrange(max(1, n_inv))))
        elif r < 0.95:
            ops.append(("retry", rng.randrange(max(1, n_inv))))
        else:
            ops.append(("kill", rng.randrange(max(1, n_inv))))
    return ops


def gen_cfgs(rng):
    def one():
        reg = rng.choice(MODES)
        return {"reg": reg, "raise": rng.random() < 0.5, "run": rng.choice(MODES), "reroute": rng.random() < 0.6}
    return [one(), one()]
